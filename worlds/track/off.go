//go:build !verifc12

// Package track: without the c12 overlay the ownership hooks are no-ops.
package track

import "github.com/plgd-dev/go-coap/v3/message/pool"

const Enabled = false

func Hold(*pool.Message, string)              {}
func Unhold(*pool.Message)                    {}
func Points()                                 {}
func Stats() (acquired, released, checks int) { return }

package main

import (
	"fmt"
	"time"

	"github.com/plgd-dev/go-coap/v3/message"
	"github.com/plgd-dev/go-coap/v3/message/codes"
	"github.com/plgd-dev/go-coap/v3/message/pool"
	"github.com/plgd-dev/go-coap/v3/net/blockwise"
	"github.com/plgd-dev/go-coap/v3/net/responsewriter"
	tcpclient "github.com/plgd-dev/go-coap/v3/tcp/client"
	udpclient "github.com/plgd-dev/go-coap/v3/udp/client"

	"verif/ev"
	"verif/mcx"
	"verif/vrt"
	"verif/worlds/tcpw"
	"verif/worlds/udpw"
)

// Wire part (engine E2): requests carrying a No-Response option are injected into a real
// udp/client.Conn and a real tcp/client.Conn in the server role; the handler calls SetResponse.
// Suppressed => nothing on the wire except the bare ACK of a confirmable request; not
// suppressed => the response is emitted.

var wireCodes = []codes.Code{codes.Content, codes.Changed, codes.Code(0x40) /*2.00*/, codes.Code(0x5f) /*2.31*/, codes.BadRequest, codes.NotFound, codes.Code(0x88) /*4.08*/, codes.Code(0x9d) /*4.29*/, codes.InternalServerError, codes.Code(0xa6) /*5.06*/, codes.Code(0xbf) /*5.31*/}

// every request method: GET, POST, PUT, DELETE, FETCH, PATCH, iPATCH
var wireMethods = []codes.Code{codes.GET, codes.POST, codes.PUT, codes.DELETE, codes.Code(5), codes.Code(6), codes.Code(7)}
var wireValues = []uint32{0, 2, 8, 16, 10, 18, 24, 26, 1, 4, 32, 127}

func wireScenario(transport string) *mcx.Scenario {
	return &mcx.Scenario{
		Name:   "no-response on the wire: " + transport,
		Bounds: mcx.Bounds{Preempt: 0, Env: -1, Select: 0},
		Body: func(s *vrt.Sched) func() (string, []mcx.Finding) {
			var fs []mcx.Finding
			desc := ""
			vrt.App("env", func() {
				vi := vrt.Choose(len(wireValues), nil)
				ci := vrt.Choose(len(wireCodes), nil)
				con := vrt.Choose(2, nil) == 0
				method := wireMethods[vrt.Choose(len(wireMethods), nil)]
				value, code := wireValues[vi], wireCodes[ci]
				// request shape: plain; an option of illegal length (dropped by the decoder) in front of No-Response; the
				// only / last block of a block-wise upload (Block1 NUM=0 M=0) on a connection with block-wise transfer enabled
				shape := []string{"plain", "illegal-option-in-front", "last-block1"}[vrt.Choose(3, nil)]
				if shape == "last-block1" && (method == codes.GET || method == codes.DELETE) {
					desc = "last-block1 needs a method with a body"
					return
				}
				desc = fmt.Sprintf("%s method=0.%02d value=%d code=%d.%02d con=%v shape=%s", transport, method, value, code>>5, code&31, con, shape)
				want := specSuppressed(uint8(code), value)
				refused := false
				handle := func(set func(codes.Code) error) {
					if err := set(code); err != nil {
						refused = true
					}
				}
				bo := make([]byte, 4)
				opts, _, _ := message.Options{{ID: message.URIPath, Value: []byte("r")}}.SetUint32(bo, message.NoResponse, value)
				var payload []byte
				switch shape {
				case "illegal-option-in-front":
					opts = append(message.Options{opts[0], {ID: message.Accept, Value: []byte{1, 2, 3}}}, opts[1:]...)
				case "last-block1":
					b1, _ := blockwise.EncodeBlockOption(blockwise.SZX16, 0, false)
					bb := make([]byte, 4)
					n, _ := message.EncodeUint32(bb, b1)
					opts = append(message.Options{opts[0], {ID: message.Block1, Value: bb[:n]}}, opts[1:]...)
					payload = []byte("abc")
				}
				var outs []message.Message
				if transport == "udp" {
					w := udpw.New(udpw.Opts{QueueSize: 2, LimitTotal: 2, LimitEndpoint: 2, BlockWise: shape == "last-block1", SZX: blockwise.SZX16, Handler: func(rw *responsewriter.ResponseWriter[*udpclient.Conn], r *pool.Message) {
						handle(func(c codes.Code) error { return rw.SetResponse(c, message.TextPlain, nil) })
					}})
					typ := message.NonConfirmable
					if con {
						typ = message.Confirmable
					}
					_ = w.Inject(message.Message{Type: typ, Code: method, MessageID: 4711, Token: message.Token{0x20}, Options: opts, Payload: payload})
					vrt.Quiesce("env: handled")
					for _, o := range w.NewOuts() {
						outs = append(outs, o.M)
					}
					if want {
						if con {
							if len(outs) != 1 || outs[0].Type != message.Acknowledgement || outs[0].Code != codes.Empty || outs[0].MessageID != 4711 {
								fs = append(fs, mcx.Finding{Sig: "wire/suppressed-response-on-the-wire/udp", What: fmt.Sprintf("%s: expected only the bare ACK, conn wrote %v", desc, describe(outs))})
							}
						} else if len(outs) != 0 {
							fs = append(fs, mcx.Finding{Sig: "wire/suppressed-response-on-the-wire/udp", What: fmt.Sprintf("%s: expected nothing on the wire, conn wrote %v", desc, describe(outs))})
						}
					} else if len(outs) != 1 || outs[0].Code != code {
						fs = append(fs, mcx.Finding{Sig: "wire/unsuppressed-response-dropped/udp", What: fmt.Sprintf("%s: expected the response, conn wrote %v", desc, describe(outs))})
					}
				} else {
					w := tcpw.New(tcpw.Opts{QueueSize: 2, LimitTotal: 2, LimitEndpoint: 2, DisableCSM: true, BlockWise: shape == "last-block1", SZX: blockwise.SZX16, Handler: func(rw *responsewriter.ResponseWriter[*tcpclient.Conn], r *pool.Message) {
						handle(func(c codes.Code) error { return rw.SetResponse(c, message.TextPlain, nil) })
					}})
					if shape == "last-block1" {
						w.Inject(message.Message{Code: codes.CSM, Options: message.Options{{ID: message.TCPBlockWiseTransfer}}})
						vrt.Quiesce("env: CSM consumed")
						w.NewOuts()
					}
					w.Inject(message.Message{Code: method, Token: message.Token{0x20}, Options: opts, Payload: payload})
					vrt.Quiesce("env: handled")
					outs = w.NewOuts()
					if want && len(outs) != 0 {
						fs = append(fs, mcx.Finding{Sig: "wire/suppressed-response-on-the-wire/tcp", What: fmt.Sprintf("%s: expected nothing on the wire, conn wrote %v", desc, describe(outs))})
					}
					if !want && (len(outs) != 1 || outs[0].Code != code) {
						fs = append(fs, mcx.Finding{Sig: "wire/unsuppressed-response-dropped/tcp", What: fmt.Sprintf("%s: expected the response, conn wrote %v", desc, describe(outs))})
					}
				}
				if refused != want {
					fs = append(fs, mcx.Finding{Sig: "wire/setresponse-verdict", What: fmt.Sprintf("%s: SetResponse refused=%v, RFC 7967 says %v", desc, refused, want)})
				}
			})
			return func() (string, []mcx.Finding) { return desc, fs }
		},
	}
}

func describe(ms []message.Message) string {
	s := "["
	for _, m := range ms {
		s += fmt.Sprintf("%v/%v/mid=%d ", m.Type, m.Code, m.MessageID)
	}
	return s + "]"
}

func runWire(r *ev.Run) {
	scs := []*mcx.Scenario{wireScenario("udp"), wireScenario("tcp")}
	sum := mcx.Explore(r, scs, mcx.Config{Wall: 3 * time.Minute})
	r.Set("wire_executions", sum.Execs)
	r.Set("wire_distinct_cases", int64(len(sum.Outcomes)))
	r.Set("wire_rule", "every combination of 12 No-Response values x 11 response codes (one per class plus codes absent from the library's lists: 2.00, 2.31, 4.08, 4.29, 5.06, 5.31) x CON|NON x 7 request methods (0.01-0.07) x 3 request shapes (plain, an illegal-length option in front of No-Response, the only block of a block-wise upload on a block-wise connection) injected into a real udp/client.Conn and tcp/client.Conn whose handler calls SetResponse; oracle on the bytes the connection wrote")
	r.Add("evaluations", sum.Execs)
	r.Sample(map[string]any{"part": "wire", "case": "udp value=26 code=4.08 con=true", "expected": "bare ACK only"})
}

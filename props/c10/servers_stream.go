package main

import (
	"bytes"
	"context"
	"errors"
	"fmt"
	"strings"

	"github.com/plgd-dev/go-coap/v3/message"
	"github.com/plgd-dev/go-coap/v3/message/codes"
	"github.com/plgd-dev/go-coap/v3/message/pool"
	"github.com/plgd-dev/go-coap/v3/net/responsewriter"
	tcpclient "github.com/plgd-dev/go-coap/v3/tcp/client"
	tcpcoder "github.com/plgd-dev/go-coap/v3/tcp/coder"
	udpclient "github.com/plgd-dev/go-coap/v3/udp/client"

	"verif/ev"
	"verif/mcx"
	"verif/vrt"
	"verif/worlds/srvw"
	"verif/worlds/tcpw"
)

// stream servers (tcp/server and dtls/server over a harness Listener): well-behaved connections
// and adversarial ones {connect-and-stall in handshake, failing handshake, garbage bytes, half a
// frame then silence, oversize frame, immediate close} interleaved at every position.

type scfg struct {
	Kind    string // "tcp" | "tls" (tcp server, conns with HandshakeContext, CSM enabled) | "dtls"
	Adv     []string
	Peers   int
	Preempt int
	Delay   int
}

func (c scfg) String() string {
	return fmt.Sprintf("%s-server peers=%d adversary=[%s] preempt<=%d delays<=%d", c.Kind, c.Peers, strings.Join(c.Adv, ","), c.Preempt, c.Delay)
}

var streamAdv = []string{"handshake-stall", "handshake-fail", "garbage", "half-frame", "oversize", "connect-close", "peer-close-mid", "attempt-refused"}

func streamScenario(c scfg) *mcx.Scenario {
	return &mcx.Scenario{
		Name:   c.String(),
		Bounds: mcx.Bounds{Preempt: c.Preempt, Env: 1, Select: 0, Delay: c.Delay},
		Opt:    vrt.Options{MaxSteps: 600000},
		Body: func(s *vrt.Sched) func() (string, []mcx.Finding) {
			var hist []string
			var fs []mcx.Finding
			fail := func(sig, format string, a ...any) {
				fs = append(fs, mcx.Finding{Sig: sig, What: c.String() + ": " + fmt.Sprintf(format, a...) + "; order [" + strings.Join(hist, " ") + "]"})
			}
			handled := map[string][]string{}
			vrt.App("env", func() {
				var L *srvw.Listener
				var serveDone func() bool
				var stop func()
				const maxSize = 64
				if c.Kind == "tcp" || c.Kind == "tls" {
					t := srvw.NewTCP(srvw.StreamOpts{MaxMsgSize: maxSize, EnableCSM: c.Kind == "tls", TCPHandler: func(w *responsewriter.ResponseWriter[*tcpclient.Conn], r *pool.Message) {
						b, _ := r.ReadBody()
						ra := w.Conn().RemoteAddr().String()
						handled[ra] = append(handled[ra], string(b))
						_ = w.SetResponse(codes.Changed, message.TextPlain, bytes.NewReader(append([]byte("echo:"), b...)))
					}})
					L, serveDone, stop = t.L, func() bool { return t.ServeDone }, t.S.Stop
				} else {
					t := srvw.NewDTLS(srvw.StreamOpts{MaxMsgSize: maxSize, DTLSHandler: func(w *responsewriter.ResponseWriter[*udpclient.Conn], r *pool.Message) {
						b, _ := r.ReadBody()
						ra := w.Conn().RemoteAddr().String()
						handled[ra] = append(handled[ra], string(b))
						_ = w.SetResponse(codes.Changed, message.TextPlain, bytes.NewReader(append([]byte("echo:"), b...)))
					}})
					L, serveDone, stop = t.L, func() bool { return t.ServeDone }, t.S.Stop
				}
				ok := func(context.Context) error { return nil }
				var hs func(context.Context) error
				if c.Kind == "dtls" || c.Kind == "tls" {
					hs = ok
				}
				encode := func(i, j int) []byte {
					pl := fmt.Sprintf("p%d-r%d", i, j)
					if c.Kind != "dtls" {
						return tcpw.Encode(message.Message{Code: codes.POST, Token: message.Token{0x10 + byte(i), byte(j)}, Options: message.Options{{ID: message.URIPath, Value: []byte("echo")}}, Payload: []byte(pl)})
					}
					return srvw.EncodeUDP(message.Message{Type: message.Confirmable, Code: codes.POST, MessageID: int32(100 + 10*i + j), Token: message.Token{0x10 + byte(i), byte(j)}, Options: message.Options{{ID: message.URIPath, Value: []byte("echo")}}, Payload: []byte(pl)})
				}
				peers := make([]*srvw.PeerConn, c.Peers)
				sent := make([][]string, c.Peers)
				next := make([]int, c.Peers)
				ai := 0
				var advConns []*srvw.PeerConn
				for {
					var evs []int
					for p := 0; p < c.Peers; p++ {
						if next[p] < 3 { // step 0 = connect, 1..2 = requests
							evs = append(evs, p)
						}
					}
					if ai < len(c.Adv) {
						evs = append(evs, c.Peers)
					}
					if len(evs) == 0 {
						break
					}
					e := evs[vrt.Choose(len(evs), nil)]
					if e < c.Peers {
						if next[e] == 0 {
							peers[e] = L.Connect(fmt.Sprintf("10.0.0.%d:4000%d", 11+e, e), hs)
							hist = append(hist, fmt.Sprintf("p%d:connect", e))
						} else {
							pl := fmt.Sprintf("p%d-r%d", e, next[e])
							hist = append(hist, pl)
							sent[e] = append(sent[e], pl)
							peers[e].Send(encode(e, next[e]))
						}
						next[e]++
					} else {
						kind := c.Adv[ai]
						ai++
						hist = append(hist, "adv:"+kind)
						remote := fmt.Sprintf("10.6.6.6:%d", 600+ai)
						switch kind {
						case "handshake-stall":
							advConns = append(advConns, L.Connect(remote, srvw.HandshakeStall))
						case "handshake-fail":
							advConns = append(advConns, L.Connect(remote, func(context.Context) error { return errors.New("bad certificate") }))
						case "attempt-refused":
							// the listener itself turns the attempt down (connection-attempt hook, accept error): Accept returns an error
							L.Refuse(errors.New("connection attempt refused"))
						case "garbage":
							a := L.Connect(remote, hs)
							a.Send([]byte{0xff, 0xff, 0xff, 0x01, 0x02, 0x03, 0xf0, 0x00})
							advConns = append(advConns, a)
						case "half-frame":
							a := L.Connect(remote, hs)
							full := encode(9, 9)
							a.Send(full[:len(full)/2])
							advConns = append(advConns, a)
						case "oversize":
							a := L.Connect(remote, hs)
							if c.Kind != "dtls" {
								a.Send([]byte{0xe1, 0x10, 0x00, 0x02, 0xaa, 1, 2, 3})
							} else {
								a.Send(bytes.Repeat([]byte{0x40}, maxSize+1))
							}
							advConns = append(advConns, a)
						case "connect-close":
							a := L.Connect(remote, hs)
							a.St.PeerClosed = true
							advConns = append(advConns, a)
						case "peer-close-mid":
							a := L.Connect(remote, hs)
							a.Send(encode(9, 8))
							a.St.PeerClosed = true
							advConns = append(advConns, a)
						}
					}
					if vrt.Choose(2, []int8{0, 1}) == 0 {
						vrt.Quiesce("env: server settles")
					}
				}
				vrt.Quiesce("env: all delivered")
				if serveDone() {
					fail("serve-returned", "Serve returned although the server was not stopped")
				}
				// a fresh connection must still be accepted and served
				probe := L.Connect("10.0.0.99:49999", hs)
				if c.Kind != "dtls" {
					probe.Send(tcpw.Encode(message.Message{Code: codes.POST, Token: message.Token{0x77}, Options: message.Options{{ID: message.URIPath, Value: []byte("echo")}}, Payload: []byte("probe")}))
				} else {
					probe.Send(srvw.EncodeUDP(message.Message{Type: message.Confirmable, Code: codes.POST, MessageID: 9999, Token: message.Token{0x77}, Options: message.Options{{ID: message.URIPath, Value: []byte("echo")}}, Payload: []byte("probe")}))
				}
				vrt.Quiesce("env: probe served")
				if !bytes.Contains(probe.NewBytes(), []byte("echo:probe")) {
					fail("server-stopped-accepting", "a connection opened after the adversary's activity was not served")
				}
				for i, p := range peers {
					if p == nil {
						continue
					}
					out := p.NewBytes()
					var got []string
					if c.Kind != "dtls" {
						for len(out) > 0 {
							var m message.Message
							m.Options = make(message.Options, 0, 8)
							n, err := tcpcoder.DefaultCoder.Decode(out, &m)
							if err != nil {
								fail("server-wrote-garbage", "undecodable bytes written to peer %d", i)
								break
							}
							if m.Code < codes.CSM || m.Code > codes.Abort { // signalling frames (the server's CSM) are not responses
								got = append(got, fmt.Sprintf("%v/%s", m.Code, m.Payload))
							}
							out = out[n:]
						}
					} else if len(out) > 0 {
						// datagram boundaries are not kept in the byte log: compare by content
						for _, pl := range sent[i] {
							if bytes.Contains(out, []byte("echo:"+pl)) {
								got = append(got, fmt.Sprintf("%v/echo:%s", codes.Changed, pl))
							}
						}
						if n := bytes.Count(out, []byte("echo:")); n != len(sent[i]) {
							fail("peer-received-differs", "peer %d received %d responses for %d requests", i, n, len(sent[i]))
						}
					}
					var want []string
					for _, pl := range sent[i] {
						want = append(want, fmt.Sprintf("%v/echo:%s", codes.Changed, pl))
					}
					if fmt.Sprint(got) != fmt.Sprint(want) {
						fail("peer-received-differs", "peer %d received %v, without the adversary it receives %v", i, got, want)
					}
					if h := handled[p.Remote]; fmt.Sprint(h) != fmt.Sprint(sent[i]) {
						fail("per-peer-order", "requests of peer %d were handled as %v, arrival order %v", i, h, sent[i])
					}
				}
				stop()
				stop() // idempotent
				vrt.Quiesce("env: stopped")
				if !serveDone() {
					fail("serve-did-not-return-after-stop", "Serve did not return after Stop (a connection goroutine is stuck)")
				}
				_ = advConns
			})
			return func() (string, []mcx.Finding) { return strings.Join(hist, " "), fs }
		},
	}
}

func addStreamServers(r *ev.Run, scs *[]*mcx.Scenario) {
	for _, kind := range []string{"tcp", "tls", "dtls"} {
		for _, a := range streamAdv {
			if kind == "tcp" && strings.HasPrefix(a, "handshake") {
				continue // plain TCP connections have no handshake; the TLS path is the dtls-style conn with HandshakeContext
			}
			*scs = append(*scs, streamScenario(scfg{Kind: kind, Adv: []string{a}, Peers: 2, Delay: ev.Pick(r, 2, 3)}))
		}
		*scs = append(*scs, streamScenario(scfg{Kind: kind, Adv: []string{"garbage", "oversize"}, Peers: ev.Pick(r, 1, 2), Delay: 2}))
		*scs = append(*scs, streamScenario(scfg{Kind: kind, Adv: []string{"half-frame", "connect-close"}, Peers: ev.Pick(r, 1, 2), Delay: 2}))
		*scs = append(*scs, streamScenario(scfg{Kind: kind, Adv: []string{"garbage"}, Peers: 1, Preempt: 1, Delay: 1}))
	}
	*scs = append(*scs, streamScenario(scfg{Kind: "dtls", Adv: []string{"handshake-stall", "handshake-fail"}, Peers: ev.Pick(r, 1, 2), Delay: 2}))
}

package main

import (
	"fmt"
	"strings"
	"time"

	"github.com/plgd-dev/go-coap/v3/message"
	"github.com/plgd-dev/go-coap/v3/message/codes"
	"github.com/plgd-dev/go-coap/v3/options"
	tcpclient "github.com/plgd-dev/go-coap/v3/tcp/client"
	udpclient "github.com/plgd-dev/go-coap/v3/udp/client"

	"verif/ev"
	"verif/mcx"
	"verif/vrt"
	"verif/worlds/tcpw"
	"verif/worlds/udpw"
)

// Connection-level part: real udp/tcp client conns whose monitors are created by the real options
// (options.WithInactivityMonitor / options.WithKeepAlive); messages arrive through Conn.Process or
// the stream reader (with a read that ends inside the next message), ticks are
// Conn.CheckExpirations(now) at virtual times.

type ccfg struct {
	T         string // udp | tcp
	KeepAlive bool
	N         uint32
	Depth     int
}

func (c ccfg) String() string {
	k := "inactivity-monitor"
	if c.KeepAlive {
		k = fmt.Sprintf("keep-alive(maxRetries=%d)", c.N)
	}
	return fmt.Sprintf("%s-conn %s via options, period=%v depth=%d", c.T, k, P, c.Depth)
}

func connScenario(c ccfg) *mcx.Scenario {
	return &mcx.Scenario{
		Name:   c.String(),
		Bounds: mcx.Bounds{Preempt: 0, Env: -1, Select: 0},
		Body: func(s *vrt.Sched) func() (string, []mcx.Finding) {
			var hist []string
			var fs []mcx.Finding
			fail := func(sig, format string, a ...any) {
				fs = append(fs, mcx.Finding{Sig: sig, What: c.String() + ": " + fmt.Sprintf(format, a...) + "; history [" + strings.Join(hist, " ") + "]"})
			}
			vrt.App("env", func() {
				closedByMonitor := 0
				var inject func(chunks ...[]byte)
				var tick func()
				var pingsOnWire func() []message.Message // new pings written by the conn
				var pong func(m message.Message)
				msg := func(i int) message.Message {
					return message.Message{Code: codes.Content, Token: message.Token{0x61, byte(i)}, Payload: []byte("data")}
				}
				var encode func(m message.Message) []byte
				var special func(kind string, i int) []byte
				if c.T == "udp" {
					cfg := udpclient.DefaultConfig
					onInactive := func(cc *udpclient.Conn) { closedByMonitor++; _ = cc.Close() }
					if c.KeepAlive {
						options.WithKeepAlive(c.N, P*time.Duration(c.N+1), onInactive).UDPClientApply(&cfg)
					} else {
						options.WithInactivityMonitor(P, onInactive).UDPClientApply(&cfg)
					}
					w := udpw.New(udpw.Opts{QueueSize: 4, LimitTotal: 2, LimitEndpoint: 2, MaxRetransmit: 0, Monitor: cfg.CreateInactivityMonitor})
					encode = func(m message.Message) []byte {
						m.Type, m.MessageID = message.NonConfirmable, w.PeerMID()
						return udpw.Encode(m)
					}
					inject = func(chunks ...[]byte) {
						for _, ch := range chunks {
							_ = w.InjectRaw(ch)
						}
					}
					special = func(kind string, i int) []byte {
						if kind == "recv-ping" {
							return udpw.Encode(message.Message{Type: message.Confirmable, Code: codes.Empty, MessageID: w.PeerMID()})
						}
						return udpw.Encode(message.Message{Type: message.Acknowledgement, Code: codes.Empty, MessageID: 9000 + int32(i)})
					}
					tick = func() { w.CC.CheckExpirations(vrt.Now()) }
					pingsOnWire = func() []message.Message {
						var ps []message.Message
						for _, o := range w.NewOuts() {
							if o.M.Code == codes.Empty && o.M.Type == message.Confirmable {
								ps = append(ps, o.M)
							}
						}
						return ps
					}
					pong = func(m message.Message) {
						_ = w.Inject(message.Message{Type: message.Reset, Code: codes.Empty, MessageID: m.MessageID})
					}
				} else {
					cfg := tcpclient.DefaultConfig
					onInactive := func(cc *tcpclient.Conn) { closedByMonitor++; _ = cc.Close() }
					if c.KeepAlive {
						options.WithKeepAlive(c.N, P*time.Duration(c.N+1), onInactive).TCPClientApply(&cfg)
					} else {
						options.WithInactivityMonitor(P, onInactive).TCPClientApply(&cfg)
					}
					w := tcpw.New(tcpw.Opts{QueueSize: 4, LimitTotal: 2, LimitEndpoint: 2, DisableCSM: true, Monitor: cfg.CreateInactivityMonitor})
					encode = tcpw.Encode
					inject = func(chunks ...[]byte) { w.InjectChunks(chunks...) }
					special = func(kind string, i int) []byte {
						if kind == "recv-ping" {
							return tcpw.Encode(message.Message{Code: codes.Ping, Token: message.Token{0x71, byte(i)}})
						}
						return tcpw.Encode(message.Message{Code: codes.Pong, Token: message.Token{0x72, byte(i)}}) // a pong nobody waits for
					}
					tick = func() { w.CC.CheckExpirations(vrt.Now()) }
					pingsOnWire = func() []message.Message {
						var ps []message.Message
						for _, m := range w.NewOuts() {
							if m.Code == codes.Ping {
								ps = append(ps, m)
							}
						}
						return ps
					}
					pong = func(m message.Message) { w.Inject(message.Message{Code: codes.Pong, Token: m.Token}) }
				}
				// reference
				last := vrt.Now()
				fails := 0
				var pings []message.Message
				var partial []byte // tcp: bytes of a message whose beginning has already been delivered
				n := 0
				for step := 0; step < c.Depth; step++ {
					vrt.Quiesce("env: settle")
					pings = append(pings, pingsOnWire()...)
					opts := []string{"recv", "tick(P/2)", "tick(P+e)", "tick(2P+e)", "recv-ping", "recv-unmatched-ack"}
					if c.T == "tcp" {
						opts = append(opts, "recv+partial", "rest")
					}
					if c.KeepAlive {
						opts = append(opts, "pong", "latepong")
					}
					e := opts[vrt.Choose(len(opts), nil)]
					hist = append(hist, e)
					switch e {
					case "recv":
						if partial != nil {
							hist[len(hist)-1] = "recv(skipped: a partial frame is pending)"
							continue
						}
						n++
						inject(encode(msg(n)))
						vrt.Quiesce("env: message processed")
						last, fails = vrt.Now(), 0
					case "recv-ping", "recv-unmatched-ack":
						// messages the connection answers or drops by itself still are received messages
						if partial != nil {
							hist[len(hist)-1] = e + "(skipped: a partial frame is pending)"
							continue
						}
						n++
						inject(special(e, n))
						vrt.Quiesce("env: message processed")
						last, fails = vrt.Now(), 0
					case "recv+partial":
						if partial != nil {
							continue
						}
						// one read delivers a complete message and the first byte of the next one
						n++
						a, b := encode(msg(n)), encode(msg(n+1))
						n++
						inject(append(append([]byte{}, a...), b[0]))
						partial = b[1:]
						vrt.Quiesce("env: message processed")
						last, fails = vrt.Now(), 0
					case "rest":
						if partial == nil {
							continue
						}
						inject(partial)
						partial = nil
						vrt.Quiesce("env: message processed")
						last, fails = vrt.Now(), 0
					case "pong", "latepong":
						k := len(pings) - 1
						if e == "latepong" {
							k--
						}
						if k < 0 || partial != nil {
							continue
						}
						pong(pings[k])
						vrt.Quiesce("env: pong processed")
						last, fails = vrt.Now(), 0
					default:
						d := map[string]time.Duration{"tick(P/2)": P / 2, "tick(P+e)": P + eps, "tick(2P+e)": 2*P + eps}[e]
						vrt.Advance(d)
						before := closedByMonitor
						tick()
						vrt.Quiesce("env: tick processed")
						fires := vrt.Now().After(last.Add(P))
						closedNow := closedByMonitor > before
						newPings := pingsOnWire()
						pings = append(pings, newPings...)
						wantClose := false
						if fires {
							if c.KeepAlive {
								fails++
								wantClose = fails > int(c.N)
							} else {
								wantClose = true
							}
						}
						switch {
						case closedNow && !fires:
							fail("conn/closed-without-full-silent-period", "closed at a tick only %v after the last received message", vrt.Now().Sub(last))
						case closedNow && !wantClose:
							fail("conn/keepalive-closed-early", "closed after %d consecutive uncredited detections (maxRetries=%d)", fails, c.N)
						case !closedNow && wantClose:
							fail("conn/not-closed-when-due", "not closed %v after the last received message (fails=%d)", vrt.Now().Sub(last), fails)
						}
						if c.KeepAlive && fires && !wantClose && !closedNow && len(newPings) != 1 {
							fail("conn/keepalive-ping-count", "%d pings written at an inactivity detection", len(newPings))
						}
						if closedNow {
							return
						}
					}
				}
			})
			return func() (string, []mcx.Finding) { return strings.Join(hist, " "), fs }
		},
	}
}

func addConnLevel(r *ev.Run, scs *[]*mcx.Scenario) {
	d := ev.Pick(r, 5, 6)
	for _, t := range []string{"udp", "tcp"} {
		*scs = append(*scs, connScenario(ccfg{T: t, Depth: d}))
		*scs = append(*scs, connScenario(ccfg{T: t, KeepAlive: true, N: 1, Depth: d}))
		*scs = append(*scs, connScenario(ccfg{T: t, KeepAlive: true, N: 2, Depth: d}))
	}
}

package main

// Non-sequence grids: path split/join round trip and the uint value codec.

import (
	"bytes"
	"context"
	"errors"
	"fmt"

	"github.com/plgd-dev/go-coap/v3/message"
	"github.com/plgd-dev/go-coap/v3/message/pool"
)

// pathGrid: every string of length <= 8 over {'/','a','b'} plus templates with 254/255/256-byte
// segments (written with the {n} macro).
func pathGrid() []string {
	var g []string
	var rec func(prefix []byte, n int)
	rec = func(prefix []byte, n int) {
		g = append(g, string(prefix))
		if n == 0 {
			return
		}
		for _, c := range []byte{'/', 'a', 'b'} {
			rec(append(prefix[:len(prefix):len(prefix)], c), n-1)
		}
	}
	rec(nil, 8)
	lens := []int{254, 255, 256}
	for _, n := range lens {
		for _, t := range []string{"{%d}", "/{%d}", "{%d}/", "//{%d}//", "/a/{%d}", "/{%d}/a", "a/{%d}/b/"} {
			g = append(g, fmt.Sprintf(t, n))
		}
		for _, k := range lens {
			g = append(g, fmt.Sprintf("/{%d}/{%d}", n, k), fmt.Sprintf("{%d}//{%d}/", n, k), fmt.Sprintf("/{%d}/a/{%d}", n, k))
		}
	}
	return g
}

type pathReplay struct {
	World   string `json:"world"` // "path"
	Path    string `json:"path"`
	Variant string `json:"variant"`
}

// checkPath runs all variants for one path; report(sig, what, variant).
func checkPath(spec string, report func(sig, what, variant string), only string) (evals int64) {
	p := expandPath(spec)
	segs, need, ok := splitPath(p)
	show := spec
	if len(show) > 40 {
		show = show[:40] + "..."
	}
	run := func(variant string, f func()) {
		if only != "" && only != variant {
			return
		}
		evals++
		if pv := safe(f); pv != nil {
			report("path-grid/panic", fmt.Sprintf("path %q, variant %s panicked: %v", show, variant, pv), variant)
		}
	}
	// expectation for a join after a successful split: normalised path, or "no such option"
	// when nothing but slashes was given (reading: see check.go, Path/absent-not-reported)
	expectJoin := func(variant, name string, s string, err error) {
		if len(segs) == 0 {
			if !isNotFound(err) {
				report("path-grid/"+name+"/absent-not-reported", fmt.Sprintf("path %q (%s): %s() = (%q,%v) without any segment", show, variant, name, s, err), variant)
			}
			return
		}
		if err != nil || s != normalise(segs) {
			report("path-grid/"+name+"/not-normalised", fmt.Sprintf("path %q (%s): %s() = (%s,%v), want %s", show, variant, name, fmtVal([]byte(s)), err, fmtVal([]byte(normalise(segs)))), variant)
		}
	}
	expectSegs := func(variant string, o message.Options, id message.OptionID, before []ent) {
		var m model
		m.resetTo(before)
		if !(p == "" && countID(o, id) > 0) { // R4: SetPath("") may leave the old path
			m.remove(id)
		}
		for _, s := range segs {
			m.add(id, []byte(s))
		}
		if !sameList(o, &m) {
			report("SetPath/list-differs", fmt.Sprintf("path %q (%s): options %s, want %s", show, variant, fmtOptions(o), fmtModel(&m)), variant)
		}
	}

	run("GetPathBufferSize", func() {
		n, err := message.GetPathBufferSize(p)
		if ok && (err != nil || n != need) {
			report("path-grid/buffer-size", fmt.Sprintf("GetPathBufferSize(%q) = (%d,%v), want (%d,nil)", show, n, err, need), "GetPathBufferSize")
		}
		if !ok && !errors.Is(err, message.ErrInvalidValueLength) {
			report("path-grid/long-segment-not-refused", fmt.Sprintf("GetPathBufferSize(%q) = (%d,%v) with a segment longer than 255 bytes", show, n, err), "GetPathBufferSize")
		}
	})

	type setter struct {
		name string
		id   message.OptionID
		set  func(o message.Options, buf []byte, p string) (message.Options, int, error)
		get  func(o message.Options) (string, error)
	}
	setters := []setter{
		{"Path", message.URIPath, message.Options.SetPath, message.Options.Path},
		{"LocationPath", message.LocationPath, message.Options.SetLocationPath, message.Options.LocationPath},
	}
	// pre-existing lists: empty, and an old path in the middle of other options
	prior := func() []ent {
		return []ent{{4, []byte("e")}, {8, []byte("oldL1")}, {8, []byte("oldL2")}, {11, []byte("old1")}, {11, []byte("old2")}, {15, []byte("q")}, {2000, []byte("z")}}
	}
	for _, st := range setters {
		for _, pre := range []string{"fresh", "prior"} {
			for _, bufKind := range []string{"exact", "big", "short"} {
				variant := "Options.Set" + st.name + "/" + pre + "/" + bufKind
				run(variant, func() {
					var before []ent
					o := make(message.Options, 0, 16)
					if pre == "prior" {
						before = prior()
						o = append(o, toOptions(before)...)
					}
					size := need
					switch bufKind {
					case "big":
						size = need + 64
					case "short":
						if need == 0 {
							return
						}
						size = need - 1
					}
					buf := make([]byte, size)
					o2, n, err := st.set(o, buf, p)
					switch {
					case !ok:
						if !errors.Is(err, message.ErrInvalidValueLength) && !(bufKind == "short" && isTooSmall(err)) {
							report("path-grid/long-segment-not-refused", fmt.Sprintf("path %q (%s): returned (n=%d,%v) with a segment longer than 255 bytes", show, variant, n, err), variant)
						}
					case bufKind == "short":
						if !isTooSmall(err) {
							report("path-grid/short-buffer-not-refused", fmt.Sprintf("path %q (%s): needs %d bytes, got a %d-byte buffer, returned (n=%d,%v)", show, variant, need, size, n, err), variant)
						}
					default:
						if err != nil || n != need {
							report("path-grid/set-failed", fmt.Sprintf("path %q (%s): returned (n=%d,%v), want (%d,nil)", show, variant, n, err, need), variant)
							return
						}
						expectSegs(variant, o2, st.id, before)
						if p == "" {
							return
						}
						s, gerr := st.get(o2)
						expectJoin(variant, st.name, s, gerr)
						return
					}
					// refused: the list must be what it was (R1)
					var m model
					m.resetTo(before)
					if !sameList(o2, &m) {
						report("SetPath/refused-but-list-changed", fmt.Sprintf("path %q (%s): refused with %v, but the list is now %s, it was %s", show, variant, err, fmtOptions(o2), fmtModel(&m)), variant)
					}
				})
			}
		}
	}

	// pool.Message: fresh / with an old path and other options / with the value buffer nearly used up
	for _, pre := range []string{"fresh", "prior", "prior-buffer-nearly-full"} {
		variant := "Message.SetPath/" + pre
		run(variant, func() {
			msg := pool.NewMessage(context.Background())
			var m model
			if pre != "fresh" {
				before := prior()
				if pre == "prior-buffer-nearly-full" {
					before = append(before, ent{2000, bytes.Repeat([]byte("f"), 230)})
				}
				msg.ResetOptionsTo(toOptions(before))
				m.resetTo(before)
			}
			err := msg.SetPath(p)
			if !ok {
				if !errors.Is(err, message.ErrInvalidValueLength) {
					report("path-grid/long-segment-not-refused", fmt.Sprintf("path %q (%s): returned %v with a segment longer than 255 bytes", show, variant, err), variant)
				}
				if !sameList(msg.Options(), &m) {
					report("SetPath/refused-but-list-changed", fmt.Sprintf("path %q (%s): refused with %v, but the list is now %s, it was %s", show, variant, err, fmtOptions(msg.Options()), fmtModel(&m)), variant)
				}
				return
			}
			if err != nil {
				report("path-grid/set-failed", fmt.Sprintf("path %q (%s): returned %v", show, variant, err), variant)
				return
			}
			if !(p == "" && countID(msg.Options(), message.URIPath) > 0) {
				m.remove(message.URIPath)
			}
			for _, s := range segs {
				m.add(message.URIPath, []byte(s))
			}
			if !sameList(msg.Options(), &m) {
				report("SetPath/list-differs", fmt.Sprintf("path %q (%s): options %s, want %s", show, variant, fmtOptions(msg.Options()), fmtModel(&m)), variant)
				return
			}
			if p == "" {
				return
			}
			s, gerr := msg.Path()
			expectJoin(variant, "Path", s, gerr)
		})
	}
	return evals
}

// ---- uint codec grid: boundary numbers x buffer sizes 0..5

var uintGridValues = []uint32{0, 1, 2, 0xfe, 0xff, 0x100, 0x101, 0xfffe, 0xffff, 0x10000, 0x10001, 0xfffffe, 0xffffff, 0x1000000, 0x1000001, 0x7fffffff, 0x80000000, 0xfffffffe, 0xffffffff}

func checkUint(v uint32, bufLen int, report func(sig, what string)) (evals int64) {
	want := uintBytes(v)
	fits := len(want) <= bufLen
	guard := func(name string, f func()) {
		evals++
		if p := safe(f); p != nil {
			report("uint-grid/panic", fmt.Sprintf("%s(%#x) with a %d-byte buffer panicked: %v", name, v, bufLen, p))
		}
	}
	guard("EncodeUint32", func() {
		buf := bytes.Repeat([]byte{0xEE}, bufLen+4)
		n, err := message.EncodeUint32(buf[:bufLen:bufLen], v)
		if !fits {
			if !isTooSmall(err) {
				report("uint-grid/short-buffer-not-refused", fmt.Sprintf("EncodeUint32(%d-byte buffer, %#x) = (%d,%v)", bufLen, v, n, err))
			}
			return
		}
		if err != nil || n != len(want) || !bytes.Equal(buf[:n], want) {
			report("uint-grid/encode-wrong", fmt.Sprintf("EncodeUint32(%d-byte buffer, %#x) = (%d,%v) % x, want % x", bufLen, v, n, err, buf[:bufLen], want))
			return
		}
		for i := len(want); i < len(buf); i++ {
			if buf[i] != 0xEE {
				report("uint-grid/encode-writes-beyond", fmt.Sprintf("EncodeUint32(%d-byte buffer, %#x) wrote byte %d", bufLen, v, i))
				return
			}
		}
		d, dn, derr := message.DecodeUint32(want)
		if derr != nil || d != v || dn != len(want) {
			report("uint-grid/decode-wrong", fmt.Sprintf("DecodeUint32(% x) = (%#x,%d,%v), want %#x", want, d, dn, derr, v))
		}
	})
	for _, k := range []string{"SetUint32", "AddUint32"} {
		guard("Options."+k, func() {
			o := make(message.Options, 0, 4)
			o = o.Add(message.Option{ID: 12, Value: []byte{7}})
			buf := make([]byte, bufLen)
			var n int
			var err error
			if k == "SetUint32" {
				o, n, err = o.SetUint32(buf, 12, v)
			} else {
				o, n, err = o.AddUint32(buf, 12, v)
			}
			var m model
			m.add(12, []byte{7})
			if !fits {
				if !isTooSmall(err) {
					report("uint-grid/short-buffer-not-refused", fmt.Sprintf("%s(%d-byte buffer, %#x) = (%d,%v)", k, bufLen, v, n, err))
				}
			} else {
				if err != nil || n != len(want) {
					report("uint-grid/set-wrong", fmt.Sprintf("%s(%d-byte buffer, %#x) = (%d,%v)", k, bufLen, v, n, err))
					return
				}
				if k == "SetUint32" {
					m.set(12, want)
				} else {
					m.add(12, want)
				}
			}
			if !sameList(o, &m) {
				report("uint-grid/list-wrong", fmt.Sprintf("%s(%d-byte buffer, %#x): list %s, want %s", k, bufLen, v, fmtOptions(o), fmtModel(&m)))
				return
			}
			if fits && k == "SetUint32" {
				g, gerr := o.GetUint32(12)
				if gerr != nil || g != v {
					report("uint-grid/roundtrip", fmt.Sprintf("GetUint32 after SetUint32(%#x) = (%#x,%v)", v, g, gerr))
				}
			}
		})
	}
	if bufLen == 0 {
		guard("Message.SetOptionUint32", func() {
			msg := pool.NewMessage(context.Background())
			msg.SetOptionUint32(2000, v)
			g, gerr := msg.GetOptionUint32(2000)
			b, _ := msg.GetOptionBytes(2000)
			if gerr != nil || g != v || !bytes.Equal(b, want) {
				report("uint-grid/roundtrip", fmt.Sprintf("Message.GetOptionUint32 after SetOptionUint32(%#x) = (%#x,%v), value % x", v, g, gerr, b))
			}
		})
	}
	return evals
}

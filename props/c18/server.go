package main

import (
	"context"
	"fmt"
	"net"
	"strings"
	"time"

	dtlsserver "github.com/plgd-dev/go-coap/v3/dtls/server"
	"github.com/plgd-dev/go-coap/v3/message"
	"github.com/plgd-dev/go-coap/v3/message/codes"
	"github.com/plgd-dev/go-coap/v3/message/pool"
	"github.com/plgd-dev/go-coap/v3/net/responsewriter"
	"github.com/plgd-dev/go-coap/v3/options"
	tcpclient "github.com/plgd-dev/go-coap/v3/tcp/client"
	tcpcoder "github.com/plgd-dev/go-coap/v3/tcp/coder"
	udpclient "github.com/plgd-dev/go-coap/v3/udp/client"
	udpserver "github.com/plgd-dev/go-coap/v3/udp/server"

	"verif/ev"
	"verif/mcx"
	"verif/vrt"
	"verif/worlds/srvw"
	"verif/worlds/tcpw"
)

// Server side: a real udp/server.Server whose per-peer connections get their monitor from the real
// options.WithInactivityMonitor; two peers send datagrams, the server's own housekeeping function
// (captured from its PeriodicRunner) is the tick. A peer's connection must be closed exactly at the
// first tick after a full silent period, and the other peer's connection must be unaffected.

func serverScenario(depth int, keepAlive uint32) *mcx.Scenario {
	name := fmt.Sprintf("udp-server inactivity monitor via options, 2 peers, period=%v depth=%d", P, depth)
	if keepAlive > 0 {
		name = fmt.Sprintf("udp-server keep-alive(maxRetries=%d) via options, 2 peers, period=%v depth=%d", keepAlive, P, depth)
	}
	return &mcx.Scenario{
		Name:   name,
		Bounds: mcx.Bounds{Preempt: 0, Env: -1, Select: 0, Delay: 1},
		Opt:    vrt.Options{MaxSteps: 600000},
		Body: func(s *vrt.Sched) func() (string, []mcx.Finding) {
			var hist []string
			var fs []mcx.Finding
			fail := func(sig, format string, a ...any) {
				fs = append(fs, mcx.Finding{Sig: sig, What: name + ": " + fmt.Sprintf(format, a...) + "; history [" + strings.Join(hist, " ") + "]"})
			}
			var u *srvw.UDP
			vrt.App("env", func() {
				closedAddr := map[string]int{}
				onInactive := func(cc *udpclient.Conn) {
					closedAddr[cc.RemoteAddr().String()]++
					_ = cc.Close()
				}
				var mon udpserver.Option = options.WithInactivityMonitor(P, onInactive)
				if keepAlive > 0 {
					mon = options.WithKeepAlive(keepAlive, P*time.Duration(keepAlive+1), onInactive)
				}
				fails := map[string]int{}
				t0 := vrt.Now()
				lastPing := map[string]*message.Message{}
				collectPings := func() map[string]int {
					n := map[string]int{}
					for _, o := range u.NewOuts() {
						m, err := srvw.DecodeUDP(o.Data)
						if err == nil && m.Code == codes.Empty && m.Type == message.Confirmable {
							mm := m
							lastPing[o.To.String()] = &mm
							n[o.To.String()]++
							_ = t0
						}
					}
					return n
				}
				u = srvw.NewUDP(srvw.UDPOpts{Extra: []udpserver.Option{mon}, Handler: func(w *responsewriter.ResponseWriter[*udpclient.Conn], r *pool.Message) {
					_ = w.SetResponse(codes.Content, message.TextPlain, nil)
				}})
				peers := []*net.UDPAddr{{IP: net.IPv4(10, 0, 0, 11), Port: 1}, {IP: net.IPv4(10, 0, 0, 12), Port: 1}}
				last := map[string]time.Time{} // last datagram per peer (absent = no live connection)
				mid := int32(0)
				vrt.Quiesce("env: server up")
				for step := 0; step < depth; step++ {
					opts := []string{"recv0", "recv1", "tick(P/2)", "tick(P+e)"}
					if keepAlive > 0 {
						opts = append(opts, "pong0", "pong1")
					}
					e := opts[vrt.Choose(len(opts), nil)]
					hist = append(hist, e)
					switch e {
					case "recv0", "recv1":
						p := peers[int(e[4]-'0')]
						mid++
						u.Send(p, srvw.EncodeUDP(message.Message{Type: message.NonConfirmable, Code: codes.GET, MessageID: mid, Token: message.Token{byte(mid)}, Options: message.Options{{ID: message.URIPath, Value: []byte("x")}}}))
						vrt.Quiesce("env: datagram handled")
						last[p.String()] = vrt.Now()
						fails[p.String()] = 0
						collectPings() // (the server checks a connection for expiry 10 ms ahead when a datagram arrives: a ping may be written then)
					case "pong0", "pong1":
						p := peers[int(e[4]-'0')]
						pg := lastPing[p.String()]
						if _, live := last[p.String()]; !live || pg == nil {
							hist[len(hist)-1] = e + "(none)"
							continue
						}
						lastPing[p.String()] = nil
						u.Send(p, srvw.EncodeUDP(message.Message{Type: message.Reset, Code: codes.Empty, MessageID: pg.MessageID}))
						vrt.Quiesce("env: pong handled")
						last[p.String()] = vrt.Now()
						fails[p.String()] = 0
						collectPings()
						lastPing[p.String()] = nil
					default:
						d := P / 2
						if e == "tick(P+e)" {
							d = P + eps
						}
						vrt.Advance(d)
						before := map[string]int{}
						for k, v := range closedAddr {
							before[k] = v
						}
						if u.Tick == nil {
							fail("server/no-housekeeping", "the server did not register its housekeeping function")
							return
						}
						u.Tick(vrt.Now())
						vrt.Quiesce("env: tick handled")
						newPings := collectPings()
						for _, p := range peers {
							k := p.String()
							t, live := last[k]
							closedNow := closedAddr[k] > before[k]
							due := live && vrt.Now().After(t.Add(P))
							if keepAlive > 0 {
								// a firing tick is an uncredited detection; closed only when more than maxRetries of this peer's own accumulated
								if due {
									fails[k]++
									due = fails[k] > int(keepAlive)
									if !due && !closedNow && newPings[k] != 1 {
										fail("server/keepalive-ping-count", "%d pings were written to %s at an inactivity detection of its connection", newPings[k], k)
									}
								}
								if closedNow && !due {
									fail("server/keepalive-closed-early", "connection of %s closed after %d consecutive unanswered rounds of its own (maxRetries=%d)", k, fails[k], keepAlive)
									delete(last, k)
									delete(fails, k)
									continue
								}
							}
							switch {
							case closedNow && !due:
								fail("server/closed-without-full-silent-period", "connection of %s closed although its last datagram is %v old (live=%v)", k, vrt.Now().Sub(t), live)
							case !closedNow && due:
								fail("server/not-closed-when-due", "connection of %s not closed %v after its last datagram", k, vrt.Now().Sub(t))
							}
							if closedNow {
								delete(last, k)
								delete(fails, k)
								lastPing[k] = nil
							}
						}
					}
				}
				u.S.Stop()
				vrt.Quiesce("env: stopped")
			})
			return func() (string, []mcx.Finding) {
				if u != nil {
					u.Cleanup()
				}
				return "srv:" + strings.Join(hist, " "), fs
			}
		},
	}
}

// A tcp server with its DEFAULT configuration (no keep-alive option given): the built-in keep-alive
// (maxRetries=2, timeout 16 s, i.e. one round every 16/3 s) guards every accepted connection.
func tcpDefaultServerScenario(depth int) *mcx.Scenario {
	const N = 2
	PD := 16 * time.Second / 3
	name := fmt.Sprintf("tcp-server default keep-alive (maxRetries=%d, period=%v), 1 peer, depth=%d", N, PD, depth)
	return &mcx.Scenario{
		Name:   name,
		Bounds: mcx.Bounds{Preempt: 0, Env: -1, Select: 0, Delay: 1},
		Opt:    vrt.Options{MaxSteps: 600000},
		Body: func(s *vrt.Sched) func() (string, []mcx.Finding) {
			var hist []string
			var fs []mcx.Finding
			fail := func(sig, format string, a ...any) {
				fs = append(fs, mcx.Finding{Sig: sig, What: name + ": " + fmt.Sprintf(format, a...) + "; history [" + strings.Join(hist, " ") + "]"})
			}
			vrt.App("env", func() {
				srv := srvw.NewTCP(srvw.StreamOpts{TCPHandler: func(w *responsewriter.ResponseWriter[*tcpclient.Conn], r *pool.Message) {
					_ = w.SetResponse(codes.Content, message.TextPlain, nil)
				}})
				vrt.Quiesce("env: server up")
				peer := srv.L.Connect("10.0.0.11:1000", nil)
				vrt.Quiesce("env: accepted")
				last, fails := vrt.Now(), 0
				var lastPing *message.Message
				parsed := 0
				newPings := func() int {
					n := 0
					out := peer.St.Out
					for parsed < len(out) {
						var m message.Message
						m.Options = make(message.Options, 0, 8)
						used, err := tcpcoder.DefaultCoder.Decode(out[parsed:], &m)
						if err != nil {
							break
						}
						if m.Code == codes.Ping {
							mm := m
							mm.Token = append(message.Token{}, m.Token...)
							lastPing = &mm
							n++
						}
						parsed += used
					}
					return n
				}
				for step := 0; step < depth; step++ {
					opts := []string{"recv", "tick(P/2)", "tick(P+e)", "pong"}
					e := opts[vrt.Choose(len(opts), nil)]
					hist = append(hist, e)
					switch e {
					case "recv":
						peer.Send(tcpw.Encode(message.Message{Code: codes.GET, Token: message.Token{0x31, byte(step)}, Options: message.Options{{ID: message.URIPath, Value: []byte("x")}}}))
						vrt.Quiesce("env: request handled")
						last, fails = vrt.Now(), 0
						newPings()
					case "pong":
						if lastPing == nil {
							hist[len(hist)-1] = "pong(none)"
							continue
						}
						peer.Send(tcpw.Encode(message.Message{Code: codes.Pong, Token: lastPing.Token}))
						lastPing = nil
						vrt.Quiesce("env: pong handled")
						last, fails = vrt.Now(), 0
					default:
						d := PD / 2
						if e == "tick(P+e)" {
							d = PD + eps
						}
						vrt.Advance(d)
						if srv.Tick == nil {
							fail("server/no-housekeeping", "the server did not register its housekeeping function")
							return
						}
						srv.Tick(vrt.Now())
						vrt.Quiesce("env: tick handled")
						closedNow := peer.St.Closed
						fires := vrt.Now().After(last.Add(PD))
						want := false
						if fires {
							fails++
							want = fails > N
						}
						np := newPings()
						switch {
						case closedNow && !want:
							fail("server/keepalive-closed-early", "connection closed after %d consecutive unanswered rounds (maxRetries=%d), last message %v ago", fails, N, vrt.Now().Sub(last))
							return
						case !closedNow && want:
							fail("server/not-closed-when-due", "connection not closed after %d consecutive unanswered rounds", fails)
							return
						case fires && !want && np != 1:
							fail("server/keepalive-ping-count", "%d pings written at an inactivity detection", np)
						}
						if closedNow {
							return
						}
					}
				}
				srv.S.Stop()
				vrt.Quiesce("env: stopped")
			})
			return func() (string, []mcx.Finding) { return "tcpsrv:" + strings.Join(hist, " "), fs }
		},
	}
}

// A dtls server whose per-connection monitor comes from the real options: the handshake of a peer takes a
// while (slow PSK / certificate callback, retransmissions). The time the handshake took is not silence of an
// established connection: the first period starts when the connection exists.
func dtlsHandshakeScenario(depth int) *mcx.Scenario {
	name := fmt.Sprintf("dtls-server inactivity monitor via options, slow handshake, period=%v depth=%d", P, depth)
	return &mcx.Scenario{
		Name:   name,
		Bounds: mcx.Bounds{Preempt: 0, Env: -1, Select: 0, Delay: 1},
		Opt:    vrt.Options{MaxSteps: 600000},
		Body: func(s *vrt.Sched) func() (string, []mcx.Finding) {
			var hist []string
			var fs []mcx.Finding
			fail := func(sig, format string, a ...any) {
				fs = append(fs, mcx.Finding{Sig: sig, What: name + ": " + fmt.Sprintf(format, a...) + "; history [" + strings.Join(hist, " ") + "]"})
			}
			vrt.App("env", func() {
				closedByMonitor := 0
				mon := options.WithInactivityMonitor(P, func(cc *udpclient.Conn) {
					closedByMonitor++
					_ = cc.Close()
				})
				established := false
				d := srvw.NewDTLS(srvw.StreamOpts{HSTimeout: 100 * P, DTLSExtra: func(cfg *dtlsserver.Config) { mon.DTLSServerApply(cfg) },
					OnNewDTLS: func(*udpclient.Conn) { established = true }})
				vrt.Quiesce("env: server up")
				hsGo := false
				d.L.Connect("10.0.0.11:1000", func(context.Context) error {
					vrt.WaitUntil("handshake in progress", func() bool { return hsGo })
					return nil
				})
				vrt.Quiesce("env: handshake started")
				hsDur := []time.Duration{0, P / 2, P - eps, P + eps, 3 * P}[vrt.Choose(5, nil)]
				hist = append(hist, fmt.Sprintf("handshake takes %v", hsDur))
				vrt.Advance(hsDur)
				hsGo = true
				vrt.Quiesce("env: handshake done")
				if !established {
					fail("ENGINE/setup", "the connection was not established")
					return
				}
				last := vrt.Now() // the connection exists from now on
				for step := 0; step < depth; step++ {
					e := []string{"tick(P/2)", "tick(P+e)"}[vrt.Choose(2, nil)]
					hist = append(hist, e)
					dd := P / 2
					if e == "tick(P+e)" {
						dd = P + eps
					}
					vrt.Advance(dd)
					before := closedByMonitor
					if d.Tick == nil {
						fail("server/no-housekeeping", "the server did not register its housekeeping function")
						return
					}
					d.Tick(vrt.Now())
					vrt.Quiesce("env: tick handled")
					due := vrt.Now().After(last.Add(P))
					closedNow := closedByMonitor > before
					switch {
					case closedNow && !due:
						fail("server/closed-without-full-silent-period", "the connection was closed %v after it was established (period %v): the handshake time was counted as silence", vrt.Now().Sub(last), P)
						return
					case !closedNow && due:
						fail("server/not-closed-when-due", "the connection was not closed %v after it was established", vrt.Now().Sub(last))
						return
					}
					if closedNow {
						return
					}
				}
				d.S.Stop()
				vrt.Quiesce("env: stopped")
			})
			return func() (string, []mcx.Finding) { return "dtlshs:" + strings.Join(hist, " "), fs }
		},
	}
}

func addServerLevel(r *ev.Run, scs *[]*mcx.Scenario) {
	*scs = append(*scs, dtlsHandshakeScenario(ev.Pick(r, 3, 4)))
	*scs = append(*scs, tcpDefaultServerScenario(ev.Pick(r, 6, 8)))
	*scs = append(*scs, serverScenario(ev.Pick(r, 5, 6), 0))
	*scs = append(*scs, serverScenario(ev.Pick(r, 5, 7), 2))
}

package main

import (
	"context"
	"encoding/json"
	"os"
	"os/exec"
	"time"

	"verif/ev"
	"verif/mcx"
)

// sockPass runs the plain (uninstrumented) binary that ./check built from props/c10/sock: every sequence of up to N
// datagrams to the two local addresses of a wildcard listener over real loopback sockets, one goroutine, send i / read i.
// It can only ADD a violation: whatever the environment refuses is recorded as skipped.
func sockPass(r *ev.Run) {
	bin := os.Getenv("VERIF_SOCK_BIN")
	if bin == "" || mcx.IsWorker() || ev.Arg("replay") != "" || ev.Arg("only") != "" || r.Part != "" {
		return
	}
	ctx, cancel := context.WithTimeout(context.Background(), 2*time.Minute)
	defer cancel()
	out, err := exec.CommandContext(ctx, bin, os.Getenv("VERIF_SOCK_ARG")).Output()
	var res struct {
		Sequences int    `json:"sequences"`
		Reads     int    `json:"reads"`
		Skipped   string `json:"skipped"`
		Findings  []struct {
			Sig    string   `json:"sig"`
			What   string   `json:"what"`
			Replay []string `json:"replay"`
		} `json:"findings"`
	}
	if ctx.Err() != nil {
		r.Set("socket_pass", map[string]any{"ran": true, "ended": false})
		return
	}
	if err != nil || json.Unmarshal(out, &res) != nil {
		ev.EngineError("socket pass %s failed: %v: %s", bin, err, string(out))
	}
	r.Set("socket_pass", map[string]any{"ran": true, "kind": "sequential, real loopback sockets, exhaustive over destination sequences up to the depth", "depth": os.Getenv("VERIF_SOCK_ARG"),
		"destination_sequences": res.Sequences, "datagrams_read": res.Reads, "skipped": res.Skipped})
	for _, f := range res.Findings {
		r.Violate(f.Sig, "socket pass: "+f.What, map[string]any{"cmd": bin, "arg": os.Getenv("VERIF_SOCK_ARG"), "datagrams": f.Replay})
	}
}

// C11 — each received message is processed once; handlers may call back.
// Engine E2, component world: the real ReceivedMessageReader with a fake client whose
// handler either returns or behaves like a handler that issues a nested blocking request
// (TryToReplaceLoop + wait for a later message); all interleavings within a preemption bound,
// select arbitration fully enumerated. The connection-level part (handler issuing Get on the
// same connection) lives in the udp-conn world (conn.go).
package main

import (
	"context"
	"fmt"
	"strings"
	"time"

	"github.com/plgd-dev/go-coap/v3/message/pool"
	"github.com/plgd-dev/go-coap/v3/net/client"

	"verif/ev"
	"verif/mcx"
	"verif/vrt"
)

type fakeCC struct {
	done     chan struct{}
	log      []uint64
	handled  map[uint64]int
	waitFor  map[uint64]uint64 // message -> later message its handler waits for (nested request); 99 = until the nested request is cancelled
	released bool
	r        **client.ReceivedMessageReader[*fakeCC]
	blocked  bool
}

func (f *fakeCC) Done() <-chan struct{} { return f.done }
func (f *fakeCC) ProcessReceivedMessage(req *pool.Message) {
	seq := req.Sequence()
	f.log = append(f.log, seq) // handler entry (taken at the loop's commitment, see DESIGN C11)
	if w, ok := f.waitFor[seq]; ok {
		// a handler that issues a blocking request on the same connection: Do() first lets
		// another loop take over, then waits for the response (a later message)
		f.blocked = true
		(*f.r).TryToReplaceLoop()
		vrt.WaitUntil(fmt.Sprintf("handler(%d) waits for message %d", seq, w), func() bool { return f.handled[w] > 0 || (w == 99 && f.released) })
	} else {
		vrt.Point(fmt.Sprintf("handler(%d) body", seq))
	}
	f.handled[seq]++
}

type cfg struct {
	Q        int
	N        int
	Nested   string // "", "1>2", "1>3,2>3"
	Replacer int    // application threads calling TryToReplaceLoop (a Do from another goroutine)
	Close    bool
	Preempt  int
}

func (c cfg) String() string {
	return fmt.Sprintf("reader queue=%d msgs=%d nested[%s] replacers=%d close=%v preempt<=%d", c.Q, c.N, c.Nested, c.Replacer, c.Close, c.Preempt)
}

func scenario(c cfg) *mcx.Scenario {
	return &mcx.Scenario{
		Name:   c.String(),
		Bounds: mcx.Bounds{Preempt: c.Preempt, Env: -1, Select: -1},
		Body: func(s *vrt.Sched) func() (string, []mcx.Finding) {
			cc := &fakeCC{done: make(chan struct{}), handled: map[uint64]int{}, waitFor: map[uint64]uint64{}}
			for _, p := range strings.Split(c.Nested, ",") {
				var a, b uint64
				if n, _ := fmt.Sscanf(p, "%d>%d", &a, &b); n == 2 {
					cc.waitFor[a] = b
				}
			}
			var r *client.ReceivedMessageReader[*fakeCC]
			cc.r = &r
			pushed := 0
			vrt.App("producer", func() {
				r = client.NewReceivedMessageReader(cc, c.Q)
				for i := 0; i < c.Replacer; i++ {
					vrt.App(fmt.Sprintf("replacer%d", i), func() { r.TryToReplaceLoop() })
				}
				if c.Close {
					vrt.App("closer", func() { vrt.Close(cc.done) })
				}
				if strings.Contains(c.Nested, ">99") {
					vrt.App("canceller", func() { cc.released = true }) // the outer nested request is cancelled at some point
				}
				for i := 1; i <= c.N; i++ {
					m := pool.NewMessage(context.Background())
					m.SetSequence(uint64(i))
					// as Conn.Process does: push unless the connection is done
					c0 := vrt.SendCase(r.C(), m)
					c1 := vrt.RecvCase(cc.Done())
					if sel := vrt.Select(false, c0, c1); sel.Index != 0 {
						return
					}
					pushed++
				}
			})
			return func() (string, []mcx.Finding) {
				var fs []mcx.Finding
				for seq, n := range cc.handled {
					if n > 1 {
						fs = append(fs, mcx.Finding{Sig: "message-processed-twice", What: fmt.Sprintf("%s: message %d handled %d times; entry log %v", c, seq, n, cc.log)})
					}
				}
				seen := map[uint64]int{}
				for _, q := range cc.log {
					seen[q]++
					if seen[q] > 1 {
						fs = append(fs, mcx.Finding{Sig: "message-dispatched-twice", What: fmt.Sprintf("%s: message %d dispatched twice; entry log %v", c, q, cc.log)})
					}
				}
				if !c.Close {
					for i := 1; i <= c.N; i++ {
						if cc.handled[uint64(i)] == 0 && !s.Deadlock {
							fs = append(fs, mcx.Finding{Sig: "message-dropped-while-open", What: fmt.Sprintf("%s: message %d was accepted but never handled although the connection is open; entry log %v", c, i, cc.log)})
						}
					}
					if len(cc.waitFor) == 0 {
						for i := range cc.log {
							if cc.log[i] != uint64(i+1) {
								fs = append(fs, mcx.Finding{Sig: "dispatch-out-of-arrival-order", What: fmt.Sprintf("%s: handlers return without blocking, yet handler entry order is %v", c, cc.log)})
								break
							}
						}
					}
				}
				return fmt.Sprint(cc.log, pushed, s.Deadlock), fs
			}
		},
	}
}

func main() {
	r := ev.Start("C11", "model_checking")
	var scs []*mcx.Scenario
	pb := ev.Pick(r, 2, 3)
	for _, q := range []int{0, 1, 2} {
		for _, nested := range []string{"", "1>2", "1>3,2>3", "1>3"} {
			for _, rep := range []int{0, 1} {
				scs = append(scs, scenario(cfg{Q: q, N: 3, Nested: nested, Replacer: rep, Preempt: pb}))
				scs = append(scs, scenario(cfg{Q: q, N: 3, Nested: nested, Replacer: rep, Close: true, Preempt: pb - 1}))
			}
		}
		scs = append(scs, scenario(cfg{Q: q, N: 3, Replacer: 2, Preempt: pb}))
		// an outer handler returns (its nested request was cancelled / answered by a deeper loop) while a later
		// handler is running and is about to issue its own nested request
		scs = append(scs, scenario(cfg{Q: q, N: 3, Nested: "1>99,2>3", Preempt: pb}))
		scs = append(scs, scenario(cfg{Q: q, N: 5, Nested: "1>3,2>5,4>5", Preempt: pb - 1}))
		scs = append(scs, scenario(cfg{Q: q, N: 4, Nested: "1>4,2>4,3>4", Preempt: pb - 1}))
		if r.Thorough() {
			scs = append(scs, scenario(cfg{Q: q, N: 4, Replacer: 1, Preempt: 3}))
		}
	}
	runConn(r, &scs)
	sum := mcx.Explore(r, scs, mcx.Config{Wall: ev.Pick(r, 3*time.Minute, 25*time.Minute)})
	mcx.Report(r, scs, sum)
	mcx.RacePass(r, 3, "net/client")
	r.Set("rule", "component world: real ReceivedMessageReader, queue sizes 0/1/2, a producer pushing 3-4 messages as Conn.Process does, handlers that return or wait for a later message after TryToReplaceLoop (nesting depth 1..3), 0-2 application threads calling TryToReplaceLoop (a Do issued from another goroutine), optional close at any point; all schedules within the preemption bound with every select arbitration; oracle: each message handled exactly once while open, handler entry order = push order when no handler blocks, no application thread parked forever; distinct outcome = distinct (entry log, pushed, deadlock)")
	r.Sample(map[string]any{"scenario": scs[1].Name})
	r.Assume("handler entry is observed at the dispatching loop's commitment (no scheduling point between the loop's readingMessages.Store(false) and the first statement of the handler)",
		"scheduling points at lock, atomic and channel operations; sequentially consistent interleavings")
	r.Finish()
}

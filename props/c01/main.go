// C01 — the datagram and stream codecs are exact inverses on every message that satisfies the
// wire-format preconditions; Size is exact; short buffers fail cleanly; out-of-precondition
// messages are refused.
//
// Engine E1: bounded-exhaustive enumeration (no sampling) of a declared finite grid of messages,
// walked simplest-first and sharded over runtime.NumCPU() workers. The oracle uses an independent
// size formula (props/codecref, written from RFC 7252 §3 / RFC 8323 §3.2) and field-wise
// comparison of the decoded message with the message that was encoded.
package main

import (
	"bytes"
	"context"
	"encoding/hex"
	"encoding/json"
	"errors"
	"fmt"
	"os"
	"runtime"
	"slices"
	"sort"
	"sync"
	"time"

	"github.com/plgd-dev/go-coap/v3/message"
	"github.com/plgd-dev/go-coap/v3/message/codes"
	"github.com/plgd-dev/go-coap/v3/message/pool"
	tcpcoder "github.com/plgd-dev/go-coap/v3/tcp/coder"
	udpcoder "github.com/plgd-dev/go-coap/v3/udp/coder"

	ref "verif/props/codecref"

	"verif/ev"
)

// ---------------------------------------------------------------------------------------------
// case description (also the replay format)

type optSpec struct {
	ID  int `json:"id"`
	Len int `json:"len"`
}

type caseDesc struct {
	Kind    string    `json:"kind"`  // "valid" | "refuse"
	Class   string    `json:"class"` // refusal class for kind=refuse
	Coder   string    `json:"coder"` // "udp" | "tcp"
	Type    int       `json:"type"`
	MID     int       `json:"mid"`
	Code    int       `json:"code"`
	TokLen  int       `json:"token_len"`
	TokVar  int       `json:"token_variant"` // 0: a0 a1 a2.., 1: all ff
	Opts    []optSpec `json:"options"`       // value bytes are the deterministic pattern valuePattern(position)
	PayLen  int       `json:"payload_len"`
	Sweep   int       `json:"sweep"`      // short-buffer sweep: every length 0..size-1 if size <= Sweep, else the ring
	Fresh   bool      `json:"fresh_pool"` // pooled messages created per case instead of recycled
	BufLen  int       `json:"buffer_len"` // for the record in short-buffer violations (-1 otherwise)
	HexWire string    `json:"wire_hex,omitempty"`
}

func (c *caseDesc) clone() caseDesc {
	d := *c
	d.Opts = append([]optSpec(nil), c.Opts...)
	return d
}

type reporter interface {
	Violate(signature, what string, replay any)
}

type printReporter struct{ n int }

func (p *printReporter) Violate(s, what string, replay any) {
	p.n++
	if what != "" {
		fmt.Printf("VIOLATION (replay) signature: %s\n  what: %s\n", s, what)
	}
}

// ---------------------------------------------------------------------------------------------
// deterministic byte patterns

const (
	maxWire  = 3 << 20 // largest encoding in the grid is < 3 MiB
	guardLen = 64
	valSlot  = 1021 // offset between the patterns of consecutive option positions
)

var (
	valPattern = func() []byte { // option values: every byte value occurs, 0xff included
		b := make([]byte, 8*valSlot+70000)
		for i := range b {
			b[i] = byte(i*167+13) ^ byte(i>>8)
		}
		return b
	}()
	payPattern = func() []byte { // payload: starts with 0xff to provoke marker confusion
		b := make([]byte, 1<<21)
		for i := range b {
			b[i] = byte(0xff - i*31)
		}
		return b
	}()
	tokPattern = func() [2][]byte {
		var t [2][]byte
		t[0] = make([]byte, 300)
		t[1] = make([]byte, 300)
		for i := range t[0] {
			t[0][i] = byte(0xa0 + i)
			t[1][i] = 0xff
		}
		return t
	}()
	pristine = func() []byte { // position dependent guard pattern
		b := make([]byte, maxWire+guardLen)
		for i := range b {
			b[i] = byte(i*131+17) ^ 0x5a
		}
		return b
	}()
)

// ---------------------------------------------------------------------------------------------
// worker

type coderAPI interface {
	Size(m message.Message) (int, error)
	Encode(m message.Message, buf []byte) (int, error)
	Decode(data []byte, m *message.Message) (int, error)
}

type worker struct {
	rep      reporter
	slot     *ref.Slot
	cur      *caseDesc // published for the watchdog
	curStep  string
	backing  []byte
	backing2 []byte
	optsB    message.Options
	optsD    message.Options
	pmEnc    *pool.Message
	pmDec    *pool.Message
	want     ref.Msg
	got      ref.Msg
	evals    int64
	calls    int64
	hashes   []uint64
	nontriv  int64
	verbose  bool
	mu       sync.Mutex
	best     map[string]*finding
}

func newWorker(rep reporter) *worker {
	w := &worker{rep: rep, slot: &ref.Slot{}, best: map[string]*finding{}}
	w.backing = append([]byte(nil), pristine...)
	w.backing2 = append([]byte(nil), pristine...)
	w.optsB = make(message.Options, 0, 16)
	w.optsD = make(message.Options, 0, 64)
	w.pmEnc = pool.NewMessage(context.Background())
	w.pmDec = pool.NewMessage(context.Background())
	w.slot.Describe(func() (string, string, any) {
		c := w.cur.clone()
		return "call-never-returns/" + c.Coder + "-" + w.curStep,
			fmt.Sprintf("%s did not return within the watchdog period for %s", w.curStep, describeCase(&c)), c
	})
	return w
}

func describeCase(c *caseDesc) string {
	b, _ := json.Marshal(c.Opts)
	return fmt.Sprintf("coder=%s type=%d mid=%d code=%d token=%s options(id,len)=%s payload_len=%d (values: valuePattern, payload: ff e0 c1..)",
		c.Coder, c.Type, c.MID, c.Code, hex.EncodeToString(tokPattern[c.TokVar&1][:min(c.TokLen, 300)]), b, c.PayLen)
}

func (w *worker) build(c *caseDesc) message.Message {
	w.optsB = w.optsB[:0]
	for i, o := range c.Opts {
		off := (i % 8) * valSlot
		w.optsB = append(w.optsB, message.Option{ID: message.OptionID(o.ID), Value: valPattern[off : off+o.Len]})
	}
	var tok []byte
	if c.TokLen > 0 {
		tok = tokPattern[c.TokVar&1][:c.TokLen]
	}
	var pay []byte
	if c.PayLen > 0 {
		pay = payPattern[:c.PayLen]
	}
	m := message.Message{Token: tok, Options: w.optsB, Payload: pay}
	// field types of the library: Code uint16, Type int16, MessageID int32
	m.Code = codes.Code(c.Code)
	m.Type = message.Type(c.Type)
	m.MessageID = int32(c.MID)
	return m
}

// finding is the smallest counterexample of one signature seen by a worker; "smallest" is by
// (message weight, description), so the reported case does not depend on scheduling.
type finding struct {
	count  int64
	weight int
	key    string
	what   string
	rc     caseDesc
}

func weight(c *caseDesc) int {
	w := c.TokLen + c.PayLen + abs(c.Type) + abs(c.MID) + abs(c.Code)
	for _, o := range c.Opts {
		w += 1 + o.Len + o.ID
	}
	return w
}

func abs(v int) int {
	if v < 0 {
		return -v
	}
	return v
}

func (w *worker) violate(sig, what string, c *caseDesc, bufLen int, wire []byte) {
	w.mu.Lock()
	defer w.mu.Unlock()
	f := w.best[sig]
	if f == nil {
		f = &finding{}
		w.best[sig] = f
	}
	f.count++
	wt, key := weight(c), fmt.Sprintf("%s/%d/%s", c.Coder, bufLen, describeCase(c))
	if f.count == 1 || wt < f.weight || (wt == f.weight && key < f.key) {
		d := c.clone()
		d.BufLen = bufLen
		if len(wire) > 0 && len(wire) <= 256 {
			d.HexWire = hex.EncodeToString(wire)
		}
		f.weight, f.key, f.what, f.rc = wt, key, what+" — message: "+describeCase(c), d
	}
}

// flush hands the merged findings to the reporter: the smallest case, then one call per further
// occurrence so that the occurrence count is right.
func flush(workers []*worker, rep reporter) {
	merged := map[string]*finding{}
	for _, w := range workers {
		w.mu.Lock()
		for sig, f := range w.best {
			m := merged[sig]
			if m == nil {
				c := *f
				merged[sig] = &c
				continue
			}
			m.count += f.count
			if f.weight < m.weight || (f.weight == m.weight && f.key < m.key) {
				m.weight, m.key, m.what, m.rc = f.weight, f.key, f.what, f.rc
			}
		}
		w.best = map[string]*finding{}
		w.mu.Unlock()
	}
	for sig, f := range merged {
		rep.Violate(sig, f.what, f.rc)
		for i := int64(1); i < f.count; i++ {
			rep.Violate(sig, "", nil)
		}
	}
}

func (w *worker) step(s string) { w.curStep = s; w.slot.Touch(); w.calls++ }

// restore puts the guard pattern back over backing[:n].
func restore(b []byte, n int) {
	if n > len(b) {
		n = len(b)
	}
	copy(b[:n], pristine[:n])
}

func firstDiff(a, b []byte) int {
	for i := range a {
		if a[i] != b[i] {
			return i
		}
	}
	return -1
}

func fnv(c *caseDesc) uint64 {
	h := uint64(14695981039346656037)
	mix := func(v uint64) {
		for i := 0; i < 8; i++ {
			h ^= v & 0xff
			h *= 1099511628211
			v >>= 8
		}
	}
	if c.Coder == "udp" {
		mix(1)
		mix(uint64(int64(c.Type)))
		mix(uint64(int64(c.MID)))
	} else {
		mix(2)
	}
	mix(uint64(int64(c.Code)))
	mix(uint64(c.TokLen)<<1 | uint64(c.TokVar&1))
	for _, o := range c.Opts {
		mix(uint64(o.ID)<<32 | uint64(o.Len))
	}
	mix(0xfffffffffffffff0)
	mix(uint64(c.PayLen))
	return h
}

// checkValid runs every clause of the property that applies to a message inside the preconditions.
func (w *worker) checkValid(c *caseDesc) {
	w.cur = c
	w.evals++
	defer func() {
		if p := recover(); p != nil {
			w.violate("panic/"+c.Coder+"-"+w.curStep, fmt.Sprintf("%s panicked: %v", w.curStep, p), c, -1, nil)
			restore(w.backing, len(w.backing))
			restore(w.backing2, len(w.backing2))
		}
	}()
	udp := c.Coder == "udp"
	var cd coderAPI = tcpcoder.DefaultCoder
	if udp {
		cd = udpcoder.DefaultCoder
	}
	// harness self-check: the grid must stay inside the preconditions
	for i, o := range c.Opts {
		if o.ID < 1 || o.ID > 65535 || (i > 0 && o.ID < c.Opts[i-1].ID) || o.Len > 65804 || !ref.LegalLen(!udp, c.Code, o.ID, o.Len) {
			ev.EngineError("grid produced a message outside the preconditions: %s", describeCase(c))
		}
	}
	m := w.build(c)
	ref.FromLib(&m, &w.want)
	want := ref.StreamSize(&w.want)
	if udp {
		want = ref.DatagramSize(&w.want)
	}
	if want > maxWire {
		ev.EngineError("grid message larger than maxWire: %d", want)
	}
	if len(c.Opts) > 0 || c.PayLen > 0 {
		w.hashes = append(w.hashes, fnv(c))
	}

	// --- size reported in advance
	w.step("Size")
	size, err := cd.Size(m)
	if err != nil {
		w.violate(c.Coder+"-size-refuses-valid", fmt.Sprintf("Size returned error %q for a message inside the preconditions", err), c, -1, nil)
		return
	}
	if size != want {
		w.violate(c.Coder+"-size-differs-from-rfc-formula", fmt.Sprintf("Size = %d, the RFC layout of this message has %d bytes", size, want), c, -1, nil)
		return
	}

	// --- too-small buffers: every length 0..size-1 (or the ring for large messages)
	w.step("Encode(short buffer)")
	G := size + guardLen
	tryShort := func(L int) bool {
		n, err := cd.Encode(m, w.backing[:L])
		w.calls++
		if n != size || !errors.Is(err, message.ErrTooSmall) {
			w.violate(c.Coder+"-short-buffer-wrong-result", fmt.Sprintf("Encode into a %d-byte buffer returned (%d, %v), want (%d, ErrTooSmall)", L, n, err, size), c, L, nil)
			restore(w.backing, G)
			return false
		}
		if !bytes.Equal(w.backing[:G], pristine[:G]) {
			i := firstDiff(w.backing[:G], pristine[:G])
			last := G - 1
			for last > i && w.backing[last] == pristine[last] {
				last--
			}
			restore(w.backing, G)
			if last >= L {
				w.violate(c.Coder+"-short-buffer-writes-beyond-buffer", fmt.Sprintf("Encode into a %d-byte buffer (cap larger) wrote at offset %d, beyond the buffer", L, last), c, L, nil)
				return false
			}
		}
		return true
	}
	if size <= c.Sweep {
		for L := 0; L < size; L++ {
			if !tryShort(L) {
				break
			}
		}
	} else {
		seen := -1
		for _, L := range []int{0, 1, 2, 3, 4, 5, 12, 13, 14, size / 2, size - 270, size - 14, size - 2, size - 1} {
			if L <= seen || L < 0 || L >= size {
				continue
			}
			seen = L
			if !tryShort(L) {
				break
			}
		}
	}

	// --- exact buffer (capacity continues into the guard region)
	w.step("Encode")
	n, err := cd.Encode(m, w.backing[:size])
	if err != nil {
		w.violate(c.Coder+"-encode-refuses-valid", fmt.Sprintf("Encode into a buffer of exactly Size()=%d bytes returned (%d, %v)", size, n, err), c, size, nil)
		restore(w.backing, G)
		return
	}
	defer restore(w.backing, G)
	if n != size {
		w.violate(c.Coder+"-encode-count-differs-from-size", fmt.Sprintf("Encode returned %d, Size reported %d", n, size), c, size, w.backing[:size])
		return
	}
	if !bytes.Equal(w.backing[size:G], pristine[size:G]) {
		w.violate(c.Coder+"-encode-writes-beyond-size", fmt.Sprintf("Encode wrote at offset %d, beyond the %d bytes it reported", size+firstDiff(w.backing[size:G], pristine[size:G]), size), c, size, nil)
		return
	}
	wire := w.backing[:size]

	// --- larger buffer gives the same bytes and count
	if size <= c.Sweep || size > 65000 {
		w.step("Encode(larger buffer)")
		n2, err := cd.Encode(m, w.backing2[:size+7])
		if err != nil || n2 != size || !bytes.Equal(w.backing2[:size], wire) || !bytes.Equal(w.backing2[size:G], pristine[size:G]) {
			w.violate(c.Coder+"-encode-depends-on-buffer-length", fmt.Sprintf("Encode into %d bytes returned (%d, %v) / different bytes / wrote past %d", size+7, n2, err, size), c, size+7, wire)
		}
		restore(w.backing2, G)
	}

	// --- decode: equal message, consumes exactly the bytes produced
	w.step("Decode")
	m2 := message.Message{Options: w.optsD[:0]}
	nd, err := cd.Decode(wire, &m2)
	if err != nil {
		w.violate(c.Coder+"-decode-rejects-own-encoding", fmt.Sprintf("Decode(Encode(m)) returned (%d, %v); wire=%s", nd, err, ref.Hex(wire)), c, -1, wire)
		return
	}
	if nd != size {
		w.violate(c.Coder+"-decode-consumed-differs", fmt.Sprintf("Decode consumed %d of the %d bytes produced; wire=%s", nd, size, ref.Hex(wire)), c, -1, wire)
		return
	}
	ref.FromLib(&m2, &w.got)
	if d := ref.Diff(&w.want, &w.got, udp); d != "" {
		w.violate(c.Coder+"-roundtrip-differs/"+d, fmt.Sprintf("Decode(Encode(m)) differs from m in %s: got %s; wire=%s", d, ref.Describe(&w.got, udp), ref.Hex(wire)), c, -1, wire)
		return
	}

	// --- stream: header pre-parse and DecodeWithHeader
	if !udp {
		w.step("DecodeHeader")
		var h tcpcoder.MessageHeader
		hn, err := tcpcoder.DefaultCoder.DecodeHeader(wire, &h)
		wantHdr := size - (ref.OptionsSize(w.want.Opts) + payloadBytes(c.PayLen))
		switch {
		case err != nil:
			w.violate("tcp-decodeheader-rejects-own-encoding", fmt.Sprintf("DecodeHeader returned (%d, %v); wire=%s", hn, err, ref.Hex(wire)), c, -1, wire)
			return
		case hn != wantHdr || int(h.Length) != wantHdr || int64(h.MessageLength) != int64(size) || int(h.Code) != c.Code || !bytes.Equal(h.Token, w.want.Token):
			w.violate("tcp-decodeheader-wrong-fields", fmt.Sprintf("DecodeHeader = (n=%d, Length=%d, MessageLength=%d, Code=%d, Token=%x), want header %d bytes, frame %d bytes, code %d, token %x", hn, h.Length, h.MessageLength, h.Code, h.Token, wantHdr, size, c.Code, w.want.Token), c, -1, wire)
			return
		}
		w.step("DecodeWithHeader")
		m3 := message.Message{Options: w.optsD[:0]}
		n3, err := tcpcoder.DefaultCoder.DecodeWithHeader(wire[h.Length:], h, &m3)
		if err != nil || n3 != size {
			w.violate("tcp-decodewithheader-wrong-result", fmt.Sprintf("DecodeWithHeader returned (%d, %v), want (%d, nil); wire=%s", n3, err, size, ref.Hex(wire)), c, -1, wire)
			return
		}
		ref.FromLib(&m3, &w.got)
		if d := ref.Diff(&w.want, &w.got, false); d != "" {
			w.violate("tcp-decodewithheader-roundtrip-differs/"+d, fmt.Sprintf("DecodeWithHeader result differs from m in %s: got %s", d, ref.Describe(&w.got, false)), c, -1, wire)
			return
		}
	}

	// --- pooled-message API
	w.step("pool.Message.MarshalWithEncoder")
	pe, pd := w.pmEnc, w.pmDec
	if c.Fresh {
		pe, pd = pool.NewMessage(context.Background()), pool.NewMessage(context.Background())
	}
	pe.SetMessage(m)
	data, err := pe.MarshalWithEncoder(cd)
	if err != nil {
		w.violate("pool-marshal-"+c.Coder+"-refuses-valid", fmt.Sprintf("MarshalWithEncoder returned error %q", err), c, -1, nil)
		return
	}
	if !bytes.Equal(data, wire) {
		w.violate("pool-marshal-"+c.Coder+"-differs-from-encode", fmt.Sprintf("MarshalWithEncoder produced %d bytes that differ from Encode's %d bytes at offset %d", len(data), size, firstDiff(data[:min(len(data), size)], wire[:min(len(data), size)])), c, -1, wire)
		return
	}
	w.step("pool.Message.UnmarshalWithDecoder")
	pd.Reset()
	np, err := pd.UnmarshalWithDecoder(cd, data)
	if err != nil || np != size {
		w.violate("pool-unmarshal-"+c.Coder+"-wrong-result", fmt.Sprintf("UnmarshalWithDecoder returned (%d, %v), want (%d, nil); wire=%s", np, err, size, ref.Hex(wire)), c, -1, wire)
		return
	}
	body, err := pd.ReadBody()
	if err != nil {
		w.violate("pool-unmarshal-"+c.Coder+"-body-unreadable", fmt.Sprintf("ReadBody after UnmarshalWithDecoder: %v", err), c, -1, wire)
		return
	}
	pm := message.Message{Token: pd.Token(), Options: pd.Options(), Code: pd.Code(), Payload: body, MessageID: pd.MessageID(), Type: pd.Type()}
	ref.FromLib(&pm, &w.got)
	if d := ref.Diff(&w.want, &w.got, udp); d != "" {
		w.violate("pool-"+c.Coder+"-roundtrip-differs/"+d, fmt.Sprintf("pooled Unmarshal(Marshal(m)) differs from m in %s: got %s", d, ref.Describe(&w.got, udp)), c, -1, wire)
		return
	}
	if w.verbose {
		fmt.Printf("ok: size=%d wire=%s\n", size, ref.Hex(wire))
	}
}

func payloadBytes(n int) int {
	if n > 0 {
		return n + 1
	}
	return 0
}

// checkRefused: a message outside the preconditions must be refused with an error by Encode
// (given a buffer that is large enough for anything the encoder could want to write).
func (w *worker) checkRefused(c *caseDesc) {
	w.cur = c
	w.evals++
	w.nontriv++
	defer func() {
		if p := recover(); p != nil {
			w.violate("panic/"+c.Coder+"-"+w.curStep+"/"+c.Class, fmt.Sprintf("%s panicked on an out-of-precondition message (%s): %v", w.curStep, c.Class, p), c, -1, nil)
		}
		restore(w.backing, len(w.backing))
	}()
	udp := c.Coder == "udp"
	var cd coderAPI = tcpcoder.DefaultCoder
	if udp {
		cd = udpcoder.DefaultCoder
	}
	m := w.build(c)
	w.step("Encode(out of precondition)")
	n, err := cd.Encode(m, w.backing[:maxWire])
	if err == nil {
		var back ref.Msg
		var v ref.Verdict
		if n >= 0 && n <= maxWire {
			if udp {
				v = ref.ParseDatagram(w.backing[:n], &back)
			} else {
				v = ref.ParseStream(w.backing[:n], &back)
			}
		}
		res := "which the RFC parser rejects (" + v.Reason + ")"
		if v.OK {
			res = "which is the encoding of a different message: " + ref.Describe(&back, udp)
		}
		sig := c.Coder + "-encode-accepts-" + c.Class
		if c.Class == "option-value>65804" { // option marshalling is shared by both coders
			sig = "encode-accepts-" + c.Class
		}
		w.violate(sig, fmt.Sprintf("Encode returned (%d, nil) for a message outside the preconditions (%s) and wrote %s, %s", n, c.Class, ref.Hex(w.backing[:max(0, min(n, maxWire))]), res), c, -1, nil)
		return
	}
	if errors.Is(err, message.ErrTooSmall) {
		w.violate(c.Coder+"-encode-toosmall-for-"+c.Class, fmt.Sprintf("Encode into a %d-byte buffer answered (%d, ErrTooSmall) for a message outside the preconditions (%s) instead of refusing it", maxWire, n, c.Class), c, -1, nil)
		return
	}
	w.step("pool.Message.MarshalWithEncoder(out of precondition)")
	pe := pool.NewMessage(context.Background())
	pe.SetMessage(m)
	data, err := pe.MarshalWithEncoder(cd)
	if err == nil {
		w.violate("pool-marshal-"+c.Coder+"-accepts-"+c.Class, fmt.Sprintf("MarshalWithEncoder accepted a message outside the preconditions (%s) and produced %s", c.Class, ref.Hex(data)), c, -1, nil)
	}
	if w.verbose {
		fmt.Printf("refused: Encode error = %v\n", err)
	}
}

// ---------------------------------------------------------------------------------------------
// grids

var optionIDs = []int{1, 4, 6, 11, 12, 13, 14, 15, 23, 60, 258, 268, 269, 270, 2000, 65535}
var lengthAlphabet = []int{0, 1, 8, 12, 13, 14, 255, 268, 269, 270, 1034, 65804}
var lengthAlphabetK4 = []int{0, 1, 12, 13, 14, 268, 269, 270, 65804} // lists of 4 options (thorough tier)

// elements returns every (id,len) pair of the alphabet that is registry-legal for ordinary
// codes, plus the registry maximum of each registered id; ordered by id, then length.
func elements(lens []int, addMax bool) []optSpec {
	var out []optSpec
	for _, id := range optionIDs {
		set := map[int]bool{}
		for _, l := range lens {
			if ref.LegalLen(false, 1, id, l) && ref.LegalLen(true, 1, id, l) {
				set[l] = true
			}
		}
		if mn, mx, ok := ref.Registered(false, 1, id); ok && addMax {
			set[mn], set[mx] = true, true
		}
		ls := make([]int, 0, len(set))
		for l := range set {
			ls = append(ls, l)
		}
		sort.Ints(ls)
		for _, l := range ls {
			out = append(out, optSpec{id, l})
		}
	}
	return out
}

// forEachList calls f for every sequence of exactly k elements with non-decreasing ids
// (elements with equal ids in every order: repeated options with different values are
// different messages). ord is the running ordinal used for sharding.
func forEachList(el []optSpec, k int, cur []optSpec, f func(l []optSpec)) {
	if len(cur) == k {
		f(cur)
		return
	}
	for i := 0; i < len(el); i++ {
		if len(cur) > 0 && el[i].ID < cur[len(cur)-1].ID {
			continue
		}
		forEachList(el, k, append(cur, el[i]), f)
	}
}

func countLists(el []optSpec, k int) int64 {
	var n int64
	forEachList(el, k, make([]optSpec, 0, k), func([]optSpec) { n++ })
	return n
}

func main() {
	if p := ev.Arg("replay"); p != "" {
		replay(p)
		return
	}
	r := ev.Start("C01", "exploration")
	nw := runtime.NumCPU()
	start := time.Now()
	workers := make([]*worker, nw)
	slots := make([]*ref.Slot, nw)
	for i := range workers {
		workers[i] = newWorker(r)
		slots[i] = workers[i].slot
	}
	var once sync.Once
	ref.Watch(slots, 20*time.Second, func(sig, what string, rep any) {
		once.Do(func() {
			r.Violate(sig, what, rep)
			r.Set("aborted_by_watchdog", true)
			r.Set("exhaustive", false)
			collect(r, workers, nil)
			r.Finish()
		})
	})
	gridSizes := map[string]int64{}
	phase := func(name string, f func(w *worker, sh int) int64) {
		t0 := time.Now()
		var mu sync.Mutex
		var total int64
		ev.Parallel(nw, func(sh int) {
			workers[sh].slot.Resume()
			n := f(workers[sh], sh)
			workers[sh].slot.End()
			mu.Lock()
			total += n
			mu.Unlock()
		})
		gridSizes[name] = total
		fmt.Fprintf(os.Stderr, "  grid %-28s %10d messages  %6.1fs\n", name, total, time.Since(t0).Seconds())
	}

	sweep := ev.Pick(r, 300, 600)
	maxK := ev.Pick(r, 3, 4)

	headerLists := [][]optSpec{nil, {{11, 1}}, {{1, 0}, {11, 13}, {11, 0}, {60, 4}}}
	mids := []int{0, 1, 255, 256, 65534, 65535}

	// ---- grid A: header fields crossed fully with 3 option lists and 2 payload lengths
	phase("A headers", func(w *worker, sh int) int64 {
		var ord, n int64
		for _, coder := range []string{"udp", "tcp"} {
			types, ms := []int{0, 1, 2, 3}, mids
			if coder == "tcp" {
				types, ms = []int{0}, []int{0}
			}
			for tl := 0; tl <= 8; tl++ {
				for tv := 0; tv < 2; tv++ {
					if tl == 0 && tv == 1 {
						continue
					}
					for code := 0; code < 256; code++ {
						for _, ty := range types {
							for _, mid := range ms {
								for _, ol := range headerLists {
									for _, pl := range []int{0, 1} {
										ord++
										if int(ord%int64(nw)) != sh {
											continue
										}
										n++
										c := caseDesc{Kind: "valid", Coder: coder, Type: ty, MID: mid, Code: code, TokLen: tl, TokVar: tv, Opts: ol, PayLen: pl, Sweep: sweep, Fresh: ord%64 == 0, BufLen: -1}
										w.checkValid(&c)
									}
								}
							}
						}
					}
				}
			}
		}
		return n
	})
	r.Sample(map[string]any{"grid": "A", "case": "coder=udp type=3 mid=65535 code=255 token=ffffffffffffffff options=[1:'' 11:<13B> 11:'' 60:<4B>] payload=ff"})

	// ---- grid A3: the datagram coder has one option registry for every code byte: option numbers that the stream
	// signalling registries (7.01-7.05) redefine (2, 4) keep their RFC 7252 meaning on udp whatever the code is
	phase("A3 udp: every code x options 2/4", func(w *worker, sh int) int64 {
		var ord, n int64
		for code := 0; code < 256; code++ {
			for _, ol := range [][]optSpec{{{4, 1}}, {{4, 8}}, {{2, 0}, {4, 2}}, {{2, 3}, {4, 8}, {11, 1}}} {
				for _, tl := range []int{0, 1} {
					for _, pl := range []int{0, 1} {
						ord++
						if int(ord%int64(nw)) != sh {
							continue
						}
						n++
						c := caseDesc{Kind: "valid", Coder: "udp", Type: 0, MID: 4660, Code: code, TokLen: tl, Opts: ol, PayLen: pl, Sweep: 0, BufLen: -1}
						w.checkValid(&c)
					}
				}
			}
		}
		return n
	})

	// ---- grid A2: every message ID x every type
	phase("A2 every MID x type", func(w *worker, sh int) int64 {
		var n int64
		lo, hi := 65536*sh/nw, 65536*(sh+1)/nw
		for mid := lo; mid < hi; mid++ {
			for ty := 0; ty < 4; ty++ {
				for v := 0; v < 2; v++ {
					c := caseDesc{Kind: "valid", Coder: "udp", Type: ty, MID: mid, Code: 69, Sweep: 0, BufLen: -1}
					if v == 1 {
						c.TokLen, c.Opts, c.PayLen = 2, headerLists[1], 3
					}
					n++
					w.checkValid(&c)
				}
			}
		}
		return n
	})
	r.Sample(map[string]any{"grid": "A2", "case": "coder=udp type=2 mid=32768 code=69 token=a0a1 options=[11:<1B>] payload_len=3"})

	// ---- grid E: full cross at the smallest sizes (spot-check of the independence assumption)
	elTiny := elements([]int{0, 1, 12, 13}, false)
	phase("E small full cross", func(w *worker, sh int) int64 {
		var ord, n int64
		for _, coder := range []string{"udp", "tcp"} {
			types, ms := []int{0, 1, 2, 3}, []int{0, 65535}
			if coder == "tcp" {
				types, ms = []int{0}, []int{0}
			}
			for _, tl := range []int{0, 1, 8} {
				for _, code := range []int{0, 1, 255} {
					for _, ty := range types {
						for _, mid := range ms {
							for e := -1; e < len(elTiny); e++ {
								for _, pl := range []int{0, 1, 13} {
									ord++
									if int(ord%int64(nw)) != sh {
										continue
									}
									c := caseDesc{Kind: "valid", Coder: coder, Type: ty, MID: mid, Code: code, TokLen: tl, PayLen: pl, Sweep: sweep, BufLen: -1}
									if e >= 0 {
										c.Opts = elTiny[e : e+1]
									}
									n++
									w.checkValid(&c)
								}
							}
						}
					}
				}
			}
		}
		return n
	})

	// ---- grid B: every ascending multiset of <= K options x 2 headers x payload {0,1,2}
	elFull := elements(lengthAlphabet, true)
	elK4 := elements(lengthAlphabetK4, false)
	type hdr struct{ ty, mid, code, tl int }
	hdrs := []hdr{{0, 0, 1, 0}, {3, 65535, 0x45, 8}}
	for k := 0; k <= maxK; k++ {
		el := elFull
		name := fmt.Sprintf("B lists of %d", k)
		if k == 4 {
			el = elK4
			name += " (class-boundary lengths)"
		}
		k := k
		phase(name, func(w *worker, sh int) int64 {
			var ord, n int64
			forEachList(el, k, make([]optSpec, 0, k), func(l []optSpec) {
				ord++
				if int(ord%int64(nw)) != sh {
					return
				}
				for _, coder := range []string{"udp", "tcp"} {
					for _, h := range hdrs {
						for pl := 0; pl <= 2; pl++ {
							c := caseDesc{Kind: "valid", Coder: coder, Type: h.ty, MID: h.mid, Code: h.code, TokLen: h.tl, Opts: l, PayLen: pl, Sweep: sweep, BufLen: -1}
							if coder == "tcp" {
								c.Type, c.MID = 0, 0
							}
							n++
							w.checkValid(&c)
						}
					}
				}
			})
			return n
		})
	}
	r.Set("option_elements_full", int64(len(elFull)))
	r.Set("option_elements_lists_of_4", int64(len(elK4)))
	r.Sample(map[string]any{"grid": "B", "case": "coder=tcp code=69 token=a0..a7 options(id,len)=[(13,268) (269,65804) (65535,14)] payload_len=2"})

	// ---- grid C: stream body length classes (and the same payload lengths on datagrams)
	targets := []int{}
	for t := 0; t <= 14; t++ {
		targets = append(targets, t)
	}
	targets = append(targets, 267, 268, 269, 270, 271, 65803, 65804, 65805, 65806, 65807, 70000, 131072, 1<<20+1)
	var cLists [][]optSpec
	cLists = append(cLists, nil)
	for i := range elFull {
		cLists = append(cLists, elFull[i:i+1])
	}
	cLists = append(cLists, []optSpec{{1, 0}, {11, 13}}, []optSpec{{270, 269}, {65535, 1}}, []optSpec{{11, 255}, {11, 255}, {15, 12}}, []optSpec{{13, 65804}, {2000, 65804}})
	phase("C stream length classes", func(w *worker, sh int) int64 {
		var ord, n int64
		for _, l := range cLists {
			var rm ref.Msg
			for _, o := range l {
				rm.Opts = append(rm.Opts, ref.Opt{Num: o.ID, Val: valPattern[:o.Len]})
			}
			S := ref.OptionsSize(rm.Opts)
			for _, t := range targets {
				pl := -1
				switch {
				case t == S:
					pl = 0
				case t >= S+2:
					pl = t - S - 1
				}
				if pl < 0 {
					continue
				}
				for _, tl := range []int{0, 8} {
					for _, coder := range []string{"tcp", "udp"} {
						ord++
						if int(ord%int64(nw)) != sh {
							continue
						}
						c := caseDesc{Kind: "valid", Coder: coder, Type: 1, MID: 4660, Code: 2, TokLen: tl, Opts: l, PayLen: pl, Sweep: sweep, BufLen: -1}
						if coder == "tcp" {
							c.Type, c.MID = 0, 0
						}
						n++
						w.checkValid(&c)
					}
				}
			}
		}
		return n
	})
	r.Sample(map[string]any{"grid": "C", "case": "coder=tcp code=2 token='' options=[] payload_len=65804 (stream body 65805 bytes: first length needing the 4-byte extension)"})

	// ---- grid D: outside the preconditions => refused
	type refusal struct {
		class string
		coder []string
		mut   func(c *caseDesc)
	}
	var refusals []refusal
	both, onlyUDP := []string{"udp", "tcp"}, []string{"udp"}
	for _, tl := range []int{9, 10, 15, 16, 17, 255, 256} {
		tl := tl
		refusals = append(refusals, refusal{"token>8", both, func(c *caseDesc) { c.TokLen = tl }})
	}
	for _, ty := range []int{-1, -2, -32768} {
		ty := ty
		refusals = append(refusals, refusal{"type<0", onlyUDP, func(c *caseDesc) { c.Type = ty }})
	}
	for ty := 4; ty <= 255; ty++ {
		ty := ty
		refusals = append(refusals, refusal{"type-4..255", onlyUDP, func(c *caseDesc) { c.Type = ty }})
	}
	for _, ty := range []int{256, 257, 260, 32767} {
		ty := ty
		refusals = append(refusals, refusal{"type>255", onlyUDP, func(c *caseDesc) { c.Type = ty }})
	}
	for _, mid := range []int{-1, -2, -65536, -1 << 31} {
		mid := mid
		refusals = append(refusals, refusal{"mid<0", onlyUDP, func(c *caseDesc) { c.MID = mid }})
	}
	for _, mid := range []int{65536, 65537, 1 << 17, 1<<31 - 1} {
		mid := mid
		refusals = append(refusals, refusal{"mid>65535", onlyUDP, func(c *caseDesc) { c.MID = mid }})
	}
	for _, code := range []int{256, 257, 325, 511, 0xff00, 65535} {
		code := code
		refusals = append(refusals, refusal{"code>255", both, func(c *caseDesc) { c.Code = code }})
	}
	for _, ol := range [][]optSpec{{{13, 65805}}, {{2000, 65806}}, {{11, 1}, {13, 65805 + 256}}} {
		ol := ol
		refusals = append(refusals, refusal{"option-value>65804", both, func(c *caseDesc) { c.Opts = ol }})
	}
	bases := []caseDesc{
		{Code: 1, Type: 0, MID: 1},
		{Code: 69, Type: 2, MID: 65535, TokLen: 8, Opts: []optSpec{{11, 1}}, PayLen: 1},
		{Code: 2, Type: 1, MID: 256, TokLen: 1, Opts: []optSpec{{1, 0}, {11, 13}, {60, 4}}, PayLen: 13},
	}
	phase("D refusals", func(w *worker, sh int) int64 {
		var ord, n int64
		for _, rf := range refusals {
			for _, coder := range rf.coder {
				for _, b := range bases {
					ord++
					if int(ord%int64(nw)) != sh {
						continue
					}
					c := b.clone()
					c.Kind, c.Class, c.Coder, c.BufLen = "refuse", rf.class, coder, -1
					if coder == "tcp" {
						c.Type, c.MID = 0, 0
					}
					rf.mut(&c)
					n++
					w.checkRefused(&c)
				}
			}
		}
		return n
	})
	r.Sample(map[string]any{"grid": "D", "case": "coder=udp type=4 mid=1 code=1 (type outside 0..3 must be refused)"})

	collect(r, workers, gridSizes)
	r.Set("exhaustive", true)
	r.Set("wall_enumeration_s", float64(int(time.Since(start).Seconds()*10))/10)
	r.Finish()
}

func collect(r *ev.Run, workers []*worker, grids map[string]int64) {
	flush(workers, r)
	var evals, calls, refusals int64
	var all []uint64
	for _, w := range workers {
		evals += w.evals
		calls += w.calls
		refusals += w.nontriv
		all = append(all, w.hashes...)
	}
	slices.Sort(all)
	var distinct int64
	for i := range all {
		if i == 0 || all[i] != all[i-1] {
			distinct++
		}
	}
	r.Set("evaluations", evals)
	r.Set("codec_calls", calls)
	r.Set("distinct_nontrivial", distinct+refusals)
	r.Set("refusal_cases", refusals)
	if grids != nil {
		g := map[string]any{}
		for k, v := range grids {
			g[k] = v
		}
		r.Set("grid_sizes", g)
	}
	r.Set("rule", "grid (simplest first): A = token length 0..8 (two byte patterns) x all 256 codes x type 0..3 x MID {0,1,255,256,65534,65535} x 3 option lists x payload {0,1}; A2 = every MID 0..65535 x every type x 2 messages; A3 = datagram coder, all 256 codes x 4 lists over option numbers 2 and 4 (redefined by the stream signalling registries only); E = full cross of small header values with every single short option; B = every ascending multiset (equal numbers in every value order) of up to 3 (thorough: 4) options over numbers {1,4,6,11,12,13,14,15,23,60,258,268,269,270,2000,65535} with value lengths {0,1,8,12,13,14,255,268,269,270,1034,65804} cut to the registry-legal ones plus each registry min/max (lists of 4: lengths {0,1,12,13,14,268,269,270,65804} cut to the legal ones) x 2 headers x payload {0,1,2}; C = for every single option and 4 longer lists the payload length that makes the stream body 0..14, 267..271, 65803..65807, 70000, 131072, 2^20+1; D = out-of-precondition ring (token 9..256 bytes, type <0 / 4..255 / >255, MID <0 / >65535, code >255, option value >65804 bytes). Every message goes through Size, Encode with every buffer length 0..size-1 when size <= sweep limit (300 quick / 600 thorough; a 14-point ring of lengths above), Encode exact, Decode, (stream) DecodeHeader + DecodeWithHeader, pool MarshalWithEncoder and UnmarshalWithDecoder, on both coders. Non-trivial = a distinct (by 64-bit hash of the message description) in-precondition message with at least one option or a payload, plus every refusal case.")
	r.Assume(
		"the size formula and the registry in props/codecref are written from RFC 7252 §3/§5.10, RFC 7641, RFC 7959, RFC 7967 and RFC 8323 §3.2, not from the implementation",
		"header fields, option lists and payload lengths are treated independently by the codec: grid A crosses all header values with 3 option lists, grids B/C cross all option lists / length classes with 2 headers; grid E is a full cross at the smallest sizes as a spot check of this assumption",
		"'untouched memory beyond the buffer' is observed as: bytes between len(buf) and cap(buf)+64 of the same backing array keep a position-dependent guard pattern (Go's bounds checks exclude anything further)",
		"'refused rather than silently truncated' is read as applying to every field whose wire width is smaller than its Go type: token length, type, message ID, code and option value length; unsorted options, option number 0 and registry-illegal lengths are not probed",
		"option values and payloads are one fixed byte pattern per position (containing every byte value, 0xff included); the codec copies values without inspecting them",
		"stream messages of 0x7fff0000 bytes and more (encoder limit) are outside the grid",
	)
}

func replay(path string) {
	b, err := os.ReadFile(path)
	if err != nil {
		ev.EngineError("replay: %v", err)
	}
	var f struct {
		Signature string   `json:"signature"`
		What      string   `json:"what"`
		Replay    caseDesc `json:"replay"`
	}
	if err := json.Unmarshal(b, &f); err != nil {
		ev.EngineError("replay: %v", err)
	}
	fmt.Printf("replaying %s\n  recorded signature: %s\n  case: %s\n", path, f.Signature, describeCase(&f.Replay))
	rep := &printReporter{}
	w := newWorker(rep)
	w.verbose = true
	var once sync.Once
	ref.Watch([]*ref.Slot{w.slot}, 10*time.Second, func(sig, what string, _ any) {
		once.Do(func() {
			fmt.Printf("VIOLATION (replay) signature: %s\n  what: %s\n", sig, what)
			os.Exit(1)
		})
	})
	c := f.Replay
	w.slot.Resume()
	if c.Kind == "refuse" {
		w.checkRefused(&c)
	} else {
		w.checkValid(&c)
	}
	flush([]*worker{w}, rep)
	if rep.n == 0 {
		fmt.Println("replay: no violation on this tree")
		os.Exit(0)
	}
	os.Exit(1)
}

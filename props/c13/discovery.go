package main

import (
	"context"
	"fmt"
	"net"
	"strings"

	"github.com/plgd-dev/go-coap/v3/message"
	"github.com/plgd-dev/go-coap/v3/message/codes"
	"github.com/plgd-dev/go-coap/v3/message/pool"
	"github.com/plgd-dev/go-coap/v3/net/responsewriter"
	"github.com/plgd-dev/go-coap/v3/udp/client"

	"verif/ev"
	"verif/mcx"
	"verif/vrt"
	"verif/worlds/srvw"
)

// Discovery exchanges of a udp server (round 8): every history up to the depth over
//
//	ok        - DiscoveryRequest with a live context: request on the wire, one answer, context cancelled, call returns
//	unsent    - DiscoveryRequest whose context has already ended: the datagram write is refused
//	badaddr   - DiscoveryRequest to an address that does not resolve: refused before anything is registered
//	reuse     - DiscoveryRequest re-using the token of the previous event (allowed once that exchange is over)
//
// After every event the exchange is over: the server's multicast tables (token -> receiver, token -> stored request)
// are empty again, whatever came before.
func discoveryHistories(depth int) *mcx.Scenario {
	name := fmt.Sprintf("udp server: discovery histories depth=%d over {ok, unsent (context ended), bad address, token re-used}", depth)
	return &mcx.Scenario{
		Name:   name,
		Bounds: mcx.Bounds{Preempt: 0, Env: -1, Select: 0},
		Opt:    vrt.Options{MaxSteps: 600000},
		Body: func(s *vrt.Sched) func() (string, []mcx.Finding) {
			var hist []string
			var fs []mcx.Finding
			fail := func(sig, format string, a ...any) {
				fs = append(fs, mcx.Finding{Sig: sig, What: name + ": " + fmt.Sprintf(format, a...) + "; history [" + strings.Join(hist, " ") + "]"})
			}
			vrt.App("env", func() {
				u := srvw.NewUDP(srvw.UDPOpts{Handler: func(w *responsewriter.ResponseWriter[*client.Conn], r *pool.Message) {}})
				kinds := []string{"ok", "unsent", "badaddr", "reuse"}
				lastTok := message.Token{0xA0, 0x00}
				for step := 0; step < depth; step++ {
					k := kinds[vrt.Choose(len(kinds), nil)]
					hist = append(hist, k)
					tok := message.Token{0xA0, byte(step + 1)}
					if k == "reuse" {
						tok = lastTok
					}
					lastTok = tok
					ctx, cancel := context.WithCancel(context.Background())
					if k == "unsent" {
						cancel()
					}
					req := pool.NewMessage(ctx)
					_ = req.SetupGet(fmt.Sprintf("/d%d", step), tok)
					req.SetMessageID(int32(700 + step))
					req.SetType(message.NonConfirmable)
					addr := "10.0.0.50:5683"
					if k == "badaddr" {
						addr = "not an address"
					}
					returned := false
					got := 0
					var derr error
					vrt.App(fmt.Sprintf("discover%d", step), func() {
						derr = u.S.DiscoveryRequest(req, addr, func(*client.Conn, *pool.Message) { got++ })
						returned = true
					})
					vrt.Quiesce("env: discovery started")
					if k == "ok" || k == "reuse" {
						if returned {
							fail("discovery/returned-early", "DiscoveryRequest(%s) with a live context returned at once: %v", k, derr)
						} else {
							u.Send(&net.UDPAddr{IP: net.IPv4(10, 0, 1, 1), Port: 5683}, srvw.EncodeUDP(message.Message{Type: message.NonConfirmable, Code: codes.Content, MessageID: int32(800 + step), Token: tok, Payload: []byte("dev")}))
							vrt.Quiesce("env: answer handled")
							if got != 1 {
								fail("discovery/answer-not-delivered", "the answer to discovery %d reached its receiver %d times", step, got)
							}
						}
					}
					cancel()
					vrt.Quiesce("env: discovery over")
					if !returned {
						fail("discovery/did-not-return", "DiscoveryRequest(%s) did not return after its context ended", k)
						return
					}
					if _, mr, mh := u.S.VerifSizes(); mr != 0 || mh != 0 {
						fail("discovery/state-outlives-exchange", "after DiscoveryRequest(%s) returned (%v) the server keeps %d stored request(s) and %d receiver(s)", k, derr, mr, mh)
						return
					}
				}
				u.Cleanup()
			})
			return func() (string, []mcx.Finding) { return strings.Join(hist, " "), fs }
		},
	}
}

func addDiscovery(r *ev.Run, scs *[]*mcx.Scenario) {
	*scs = append(*scs, discoveryHistories(ev.Pick(r, 3, 5)))
}

package main

import (
	"context"
	"fmt"
	"net"
	"sort"
	"strings"

	"github.com/plgd-dev/go-coap/v3/message"
	"github.com/plgd-dev/go-coap/v3/message/codes"
	"github.com/plgd-dev/go-coap/v3/message/pool"
	"github.com/plgd-dev/go-coap/v3/net/responsewriter"
	"github.com/plgd-dev/go-coap/v3/udp/client"

	"verif/ev"
	"verif/mcx"
	"verif/vrt"
	"verif/worlds/srvw"
)

// Discovery: one or two concurrent Discover calls (unicast target), 0..2 responders answering from
// their own addresses with the right token, plus answers carrying the other call's token and an
// unknown token, in every order.

type dcfg struct {
	Calls      int
	Responders int
	Preempt    int
}

func (c dcfg) String() string {
	return fmt.Sprintf("udp-server discovery calls=%d responders=%d preempt<=%d", c.Calls, c.Responders, c.Preempt)
}

func discoveryScenario(c dcfg) *mcx.Scenario {
	return &mcx.Scenario{
		Name:   c.String(),
		Bounds: mcx.Bounds{Preempt: c.Preempt, Env: -1, Select: 0, Delay: 2},
		Opt:    vrt.Options{MaxSteps: 600000},
		Body: func(s *vrt.Sched) func() (string, []mcx.Finding) {
			var hist []string
			var fs []mcx.Finding
			fail := func(sig, format string, a ...any) {
				fs = append(fs, mcx.Finding{Sig: sig, What: c.String() + ": " + fmt.Sprintf(format, a...) + "; order [" + strings.Join(hist, " ") + "]"})
			}
			var u *srvw.UDP
			got := make([][]string, c.Calls) // per call: "remote|token|payload"
			unknownHandled := 0
			vrt.App("env", func() {
				u = srvw.NewUDP(srvw.UDPOpts{Handler: func(w *responsewriter.ResponseWriter[*client.Conn], r *pool.Message) { unknownHandled++ }})
				cancels := make([]context.CancelFunc, c.Calls)
				done := make([]bool, c.Calls)
				for i := 0; i < c.Calls; i++ {
					i := i
					ctx, cancel := context.WithCancel(context.Background())
					cancels[i] = cancel
					vrt.App(fmt.Sprintf("discover%d", i), func() {
						err := u.S.Discover(ctx, "10.0.0.50:5683", fmt.Sprintf("/res%d", i), func(cc *client.Conn, resp *pool.Message) {
							b, _ := resp.ReadBody()
							got[i] = append(got[i], fmt.Sprintf("%s|%x|%s", cc.RemoteAddr(), []byte(resp.Token()), b))
						})
						if err != nil {
							fail("discovery/discover-error", "Discover(%d) failed: %v", i, err)
						}
						done[i] = true
					})
				}
				vrt.Quiesce("env: discovery requests sent")
				toks := map[int]message.Token{}
				for _, o := range u.NewOuts() {
					m, err := srvw.DecodeUDP(o.Data)
					if err != nil || m.Code != codes.GET {
						continue
					}
					p, _ := m.Options.Path()
					for i := 0; i < c.Calls; i++ {
						if p == fmt.Sprintf("/res%d", i) {
							toks[i] = m.Token
						}
					}
				}
				if len(toks) != c.Calls {
					fail("discovery/request-not-sent", "%d discovery requests on the wire, %d calls", len(toks), c.Calls)
					return
				}
				// the answers, delivered in every order
				type ans struct {
					from    *net.UDPAddr
					tok     message.Token
					payload string
				}
				var answers []ans
				want := make([][]string, c.Calls)
				for r := 0; r < c.Responders; r++ {
					from := &net.UDPAddr{IP: net.IPv4(10, 0, 1, byte(1+r)), Port: 5683}
					for i := 0; i < c.Calls; i++ {
						pl := fmt.Sprintf("dev%d-for-call%d", r, i)
						answers = append(answers, ans{from, toks[i], pl})
						want[i] = append(want[i], fmt.Sprintf("%s|%x|%s", from, []byte(toks[i]), pl))
					}
				}
				answers = append(answers, ans{&net.UDPAddr{IP: net.IPv4(10, 6, 6, 6), Port: 5683}, message.Token{0x99, 0x99}, "foreign-token"})
				mid := int32(500)
				for len(answers) > 0 {
					k := vrt.Choose(len(answers), nil)
					a := answers[k]
					answers = append(answers[:k], answers[k+1:]...)
					mid++
					hist = append(hist, a.payload)
					u.Send(a.from, srvw.EncodeUDP(message.Message{Type: message.NonConfirmable, Code: codes.Content, MessageID: mid, Token: a.tok, Payload: []byte(a.payload)}))
					vrt.Quiesce("env: answer handled")
				}
				for i := range cancels {
					cancels[i]()
				}
				vrt.Quiesce("env: discoveries ended")
				for i := 0; i < c.Calls; i++ {
					if !done[i] {
						fail("discovery/discover-did-not-return", "Discover(%d) did not return after its context was cancelled", i)
					}
					g := append([]string{}, got[i]...)
					w := append([]string{}, want[i]...)
					sort.Strings(w)
					gs := append([]string{}, g...)
					sort.Strings(gs)
					if fmt.Sprint(gs) != fmt.Sprint(w) {
						fail("discovery/receiver-got-wrong-answers", "receiver of call %d got %v, expected exactly %v", i, g, want[i])
					}
				}
				// a late answer after the call ended must not reach the receiver
				before := len(got[0])
				u.Send(&net.UDPAddr{IP: net.IPv4(10, 0, 1, 9), Port: 5683}, srvw.EncodeUDP(message.Message{Type: message.NonConfirmable, Code: codes.Content, MessageID: 900, Token: toks[0], Payload: []byte("late")}))
				vrt.Quiesce("env: late answer handled")
				if len(got[0]) != before {
					fail("discovery/answer-after-end-delivered", "an answer that arrived after Discover returned reached the receiver")
				}
				// a discovery whose request cannot be sent (context already cancelled) must leave nothing behind:
				// a request carrying the same token is then an ordinary request, and the token can be used again
				{
					cctx, ccancel := context.WithCancel(context.Background())
					ccancel()
					reqTok := message.Token{0xAB, 0xCD}
					failedGot := 0
					dreq := pool.NewMessage(cctx)
					_ = dreq.SetupGet("/failed", reqTok)
					dreq.SetMessageID(777)
					dreq.SetType(message.NonConfirmable)
					var derr error
					ddone := false
					vrt.App("discover-failing", func() {
						derr = u.S.DiscoveryRequest(dreq, "10.0.0.50:5683", func(*client.Conn, *pool.Message) { failedGot++ })
						ddone = true
					})
					vrt.Quiesce("env: failed discovery returned")
					if !ddone {
						fail("discovery/discover-did-not-return", "DiscoveryRequest with a cancelled context did not return")
					} else if derr == nil {
						// a cancelled context may also be reported as a normal end; either way nothing may stay registered
						_ = derr
					}
					before := unknownHandled
					u.Send(&net.UDPAddr{IP: net.IPv4(10, 0, 2, 2), Port: 5683}, srvw.EncodeUDP(message.Message{Type: message.NonConfirmable, Code: codes.GET, MessageID: 901, Token: reqTok, Options: message.Options{{ID: message.URIPath, Value: []byte("a")}}}))
					vrt.Quiesce("env: request with the same token handled")
					if failedGot != 0 {
						fail("discovery/stale-receiver-invoked", "a request carrying the token of a discovery that had already returned reached its receiver")
					}
					if unknownHandled != before+1 {
						fail("discovery/request-swallowed-by-stale-receiver", "a request carrying the token of a finished discovery was not handed to the server handler")
					}
				}
				if _, mr, mh := u.S.VerifSizes(); mr != 0 || mh != 0 {
					fail("discovery/tables-not-empty", "after all discoveries returned the server keeps %d stored requests and %d receivers", mr, mh)
				}
				u.S.Stop()
				vrt.Quiesce("env: stopped")
			})
			return func() (string, []mcx.Finding) {
				if u != nil {
					u.Cleanup()
				}
				return strings.Join(hist, " "), fs
			}
		},
	}
}

func addDiscovery(r *ev.Run, scs *[]*mcx.Scenario) {
	for _, calls := range []int{1, 2} {
		for _, resp := range []int{0, 1, 2} {
			*scs = append(*scs, discoveryScenario(dcfg{Calls: calls, Responders: resp}))
		}
	}
	*scs = append(*scs, discoveryScenario(dcfg{Calls: 2, Responders: 1, Preempt: 1}))
}

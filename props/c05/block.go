package main

import (
	"bytes"
	"fmt"
	"strings"
	"time"

	"github.com/plgd-dev/go-coap/v3/message"
	"github.com/plgd-dev/go-coap/v3/message/codes"
	"github.com/plgd-dev/go-coap/v3/message/pool"
	"github.com/plgd-dev/go-coap/v3/net/blockwise"
	"github.com/plgd-dev/go-coap/v3/net/responsewriter"
	"github.com/plgd-dev/go-coap/v3/udp/client"

	"verif/mcx"
	"verif/vrt"
	"verif/worlds/udpw"
)

// De-duplication under a block-wise reply: a request whose 40-byte reply is fetched in three blocks
// (each block request is a message of its own, with its own message ID). Afterwards - and at every
// point in between - copies of any of the requests sent so far arrive again: none may run the
// handler a second time, each is answered with the reply its first copy got.
func blockScenario(method codes.Code, con bool, depth int) *mcx.Scenario {
	name := fmt.Sprintf("dedup under a block-wise reply: method=%v con=%v, duplicates of every request of the transfer, depth=%d", method, con, depth)
	return &mcx.Scenario{
		Name:   name,
		Bounds: mcx.Bounds{Preempt: 0, Env: -1, Select: 0},
		Body: func(s *vrt.Sched) func() (string, []mcx.Finding) {
			var hist []string
			var fs []mcx.Finding
			fail := func(sig, format string, a ...any) {
				fs = append(fs, mcx.Finding{Sig: sig, What: name + ": " + fmt.Sprintf(format, a...) + "; history [" + strings.Join(hist, " ") + "]"})
			}
			calls := 0
			vrt.App("env", func() {
				w := udpw.New(udpw.Opts{MaxRetransmit: 0, QueueSize: 4, LimitTotal: 4, LimitEndpoint: 4, BlockWise: true, SZX: blockwise.SZX16, BWTimeout: 3 * time.Second,
					Handler: func(rw *responsewriter.ResponseWriter[*client.Conn], r *pool.Message) {
						calls++
						_ = rw.SetResponse(codes.Content, message.TextPlain, bytes.NewReader([]byte(fmt.Sprintf("call-%d:%s", calls, strings.Repeat("x", 33)))))
					}})
				typ := message.NonConfirmable
				if con {
					typ = message.Confirmable
				}
				tok := message.Token{0xC5, 0x07}
				mkReq := func(i int) message.Message {
					m := message.Message{Type: typ, Code: method, MessageID: int32(6000 + i), Token: tok, Options: message.Options{{ID: message.URIPath, Value: []byte("big")}}}
					if i > 0 {
						bo, _ := blockwise.EncodeBlockOption(blockwise.SZX16, int64(i), false)
						b := make([]byte, 4)
						n, _ := message.EncodeUint32(b, bo)
						m.Options = append(m.Options, message.Option{ID: message.Block2, Value: b[:n]})
					}
					return m
				}
				first := map[int]string{} // request index -> signature of the reply to its first copy
				sent := 0
				send := func(i int) string {
					_ = w.Inject(mkReq(i))
					vrt.Quiesce("env: processed")
					var sigs []string
					for _, o := range w.NewOuts() {
						sigs = append(sigs, fmt.Sprintf("%v/%v/%s", o.M.Code, o.M.Options, o.M.Payload))
					}
					return strings.Join(sigs, ";")
				}
				for step := 0; step < depth; step++ {
					// alphabet: the next request of the transfer, a copy of an earlier one, a tick, 4 s of silence
					var evs []string
					if sent < 3 {
						evs = append(evs, "next")
					}
					for i := 0; i < sent; i++ {
						evs = append(evs, fmt.Sprintf("dup%d", i))
					}
					evs = append(evs, "tick", "+4s")
					e := evs[vrt.Choose(len(evs), nil)]
					hist = append(hist, e)
					switch {
					case e == "next":
						// (a later block request is a NEW message: after the stored reply has expired the server may run an
						// idempotent handler again for it - that is C04's business; here only copies of one message count)
						first[sent] = send(sent)
						sent++
					case strings.HasPrefix(e, "dup"):
						i := int(e[3] - '0')
						before := calls
						got := send(i)
						if calls != before {
							fail("block/duplicate-re-executed-handler", "a copy of request %d of the transfer (message ID %d) ran the handler again", i, 6000+i)
							return
						}
						if got != first[i] {
							fail("block/duplicate-answered-differently", "a copy of request %d was answered with %q, its first copy with %q", i, got, first[i])
							return
						}
					case e == "tick":
						w.CC.CheckExpirations(vrt.Now())
					default:
						vrt.Advance(4 * time.Second)
						w.CC.CheckExpirations(vrt.Now())
					}
				}
			})
			return func() (string, []mcx.Finding) { return strings.Join(hist, " ") + fmt.Sprint("|", calls), fs }
		},
	}
}

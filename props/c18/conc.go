package main

import (
	"fmt"
	"strings"

	"github.com/plgd-dev/go-coap/v3/net/monitor/inactivity"

	"verif/ev"
	"verif/mcx"
	"verif/vrt"
)

// The monitor is used by two goroutines of a connection: the housekeeping tick and the reader that reports every
// received message. Here a tick that detects inactivity runs concurrently with the report of a received message
// (every interleaving at the granularity of the monitor's atomics); whatever the interleaving, the received message
// resets the count: afterwards the connection is closed only after maxRetries (the concurrent detection counted
// behind the message) or maxRetries+1 (counted in front of it, or not a detection at all) further silent rounds.
func concScenario(maxRetries uint32, pre int) *mcx.Scenario {
	name := fmt.Sprintf("keep-alive maxRetries=%d: %d unanswered round(s), then a detecting tick concurrent with a received message, then silence", maxRetries, pre)
	return &mcx.Scenario{
		Name:   name,
		Bounds: mcx.Bounds{Preempt: -1, Env: -1, Select: -1},
		Body: func(s *vrt.Sched) func() (string, []mcx.Finding) {
			var fs []mcx.Finding
			var hist []string
			fail := func(sig, format string, a ...any) {
				fs = append(fs, mcx.Finding{Sig: sig, What: name + ": " + fmt.Sprintf(format, a...) + "; history [" + strings.Join(hist, " ") + "]"})
			}
			vrt.App("env", func() {
				cc := &fakeConn{}
				closed := 0
				pingsSent := 0
				ka := inactivity.NewKeepAlive(maxRetries, func(x *fakeConn) { closed++; _ = x.Close() }, func(x *fakeConn, receivePong func()) (func(), error) {
					pingsSent++
					return func() {}, nil
				})
				mon := inactivity.NewKeepAliveMonitor(P, ka)
				for i := 0; i < pre; i++ {
					vrt.Advance(P + eps)
					mon.CheckInactivity(vrt.Now(), cc)
				}
				hist = append(hist, fmt.Sprintf("%d silent round(s): %d ping(s), closed=%d", pre, pingsSent, closed))
				if closed != 0 {
					fail("ENGINE/setup", "closed during the prefix")
					return
				}
				vrt.Advance(P + eps)
				now := vrt.Now()
				doneT, doneR := false, false
				vrt.Lib("tick", func() { mon.CheckInactivity(now, cc); doneT = true })
				vrt.Lib("reader", func() { mon.Notify(); doneR = true })
				vrt.WaitUntil("tick and reader done", func() bool { return doneT && doneR })
				hist = append(hist, fmt.Sprintf("tick || recv: closed=%d pings=%d", closed, pingsSent))
				if closed > 0 {
					if pre+1 <= int(maxRetries) {
						fail("conc/closed-by-a-tick-concurrent-with-a-message", "closed by detection %d with maxRetries=%d", pre+1, maxRetries)
					}
					return
				}
				rounds := 0
				for closed == 0 && rounds < int(maxRetries)+4 {
					vrt.Advance(P + eps)
					mon.CheckInactivity(vrt.Now(), cc)
					rounds++
				}
				hist = append(hist, fmt.Sprintf("closed after %d further silent round(s)", rounds))
				if closed == 0 {
					fail("conc/not-closed", "not closed after %d silent rounds", rounds)
				} else if rounds < int(maxRetries) {
					fail("conc/received-message-did-not-reset-the-count", "a message was received concurrently with a tick, yet the connection was closed after only %d further silent round(s) (maxRetries=%d): the reset was lost", rounds, maxRetries)
				} else if rounds > int(maxRetries)+1 {
					fail("conc/closed-late", "closed after %d silent rounds, maxRetries=%d", rounds, maxRetries)
				}
			})
			return func() (string, []mcx.Finding) { return strings.Join(hist, " | "), fs }
		},
	}
}

func addConc(r *ev.Run, scs *[]*mcx.Scenario) {
	for _, mr := range []uint32{1, 2, 3} {
		for pre := 0; pre <= int(mr); pre++ {
			*scs = append(*scs, concScenario(mr, pre))
		}
	}
}

// Package srvw holds the server worlds: real udp/tcp/dtls servers over harness-owned sockets.
package srvw

import (
	"net"
	"time"

	"github.com/plgd-dev/go-coap/v3/message"
	"github.com/plgd-dev/go-coap/v3/message/pool"
	coapNet "github.com/plgd-dev/go-coap/v3/net"
	"github.com/plgd-dev/go-coap/v3/udp/client"
	udpcoder "github.com/plgd-dev/go-coap/v3/udp/coder"
	"github.com/plgd-dev/go-coap/v3/udp/server"

	"verif/vrt"
	_ "verif/worlds/track" // C12 builds: every world runs under the pool lifecycle tracker
)

type udpOpt func(cfg *server.Config)

func (o udpOpt) UDPServerApply(cfg *server.Config) { o(cfg) }

type UDP struct {
	S         *server.Server
	L         *coapNet.UDPConn
	PC        *coapNet.VerifPacketConn
	Sock      *net.UDPConn
	Errors    []string
	ServeErr  error
	ServeDone bool
	seen      int
	NewConns  int
	Tick      func(now time.Time) bool // the housekeeping function the server handed to its PeriodicRunner
}

type UDPOpts struct {
	Handler      server.HandlerFunc
	Monitor      func() client.InactivityMonitor
	MaxMsgSize   uint32
	OnNewConn    func(cc *client.Conn)
	BlockWise    bool
	Extra        []server.Option // real options (e.g. options.WithInactivityMonitor) applied after the harness defaults
	Transmission *Transmission
	QueueSize    int  // ReceivedMessageQueueSize of the per-peer connections (0 = library default)
	Wildcard     bool // bind the listener to 0.0.0.0 (destination addresses then come from control messages)
}

// NewUDP builds the server and starts Serve in a library thread (call from a managed thread).
func NewUDP(o UDPOpts) *UDP {
	u := &UDP{}
	bind := net.IPv4(127, 0, 0, 1)
	if o.Wildcard {
		bind = net.IPv4zero
	}
	sock, err := net.ListenUDP("udp4", &net.UDPAddr{IP: bind})
	if err != nil {
		panic(err)
	}
	u.Sock = sock
	mid := int32(30000)
	tok := byte(0)
	all := []server.Option{udpOpt(func(cfg *server.Config) {
		cfg.Handler = o.Handler
		cfg.Errors = func(err error) { u.Errors = append(u.Errors, err.Error()) }
		cfg.PeriodicRunner = func(f func(time.Time) bool) { u.Tick = f }
		cfg.MessagePool = pool.New(0, 0)
		cfg.GetMID = func() int32 { mid++; return mid }
		cfg.GetToken = func() (message.Token, error) { tok++; return message.Token{0xdd, tok}, nil }
		cfg.BlockwiseEnable = o.BlockWise
		cfg.TransmissionMaxRetransmit = 1
		if o.Transmission != nil {
			cfg.TransmissionNStart, cfg.TransmissionAcknowledgeTimeout, cfg.TransmissionMaxRetransmit = o.Transmission.NStart, o.Transmission.AckTimeout, o.Transmission.MaxRetransmit
		}
		if o.MaxMsgSize != 0 {
			cfg.MaxMessageSize = o.MaxMsgSize
		}
		if o.Monitor != nil {
			cfg.CreateInactivityMonitor = o.Monitor
		}
		if o.QueueSize != 0 {
			cfg.ReceivedMessageQueueSize = o.QueueSize
		}
		cfg.OnNewConn = func(cc *client.Conn) {
			u.NewConns++
			if o.OnNewConn != nil {
				o.OnNewConn(cc)
			}
		}
	})}
	for _, e := range o.Extra {
		e := e
		all = append(all, udpOpt(func(cfg *server.Config) {
			onNew := cfg.OnNewConn
			e.UDPServerApply(cfg)
			cfg.OnNewConn = onNew
		}))
	}
	u.S = server.New(all...)
	u.L, u.PC = coapNet.NewUDPConnVerif(sock, func(err error) { u.Errors = append(u.Errors, err.Error()) })
	vrt.Lib("udp-server-serve", func() {
		u.ServeErr = u.S.Serve(u.L)
		u.ServeDone = true
	})
	return u
}

// Send queues a datagram from the given peer.
func (u *UDP) Send(from *net.UDPAddr, data []byte) {
	u.PC.In = append(u.PC.In, coapNet.VerifPacket{Data: append([]byte{}, data...), From: from})
}

// SendDst queues a datagram whose control message reports dst as its destination address.
func (u *UDP) SendDst(from *net.UDPAddr, dst net.IP, data []byte) {
	u.PC.In = append(u.PC.In, coapNet.VerifPacket{Data: append([]byte{}, data...), From: from, Dst: dst})
}

// NewOuts returns what the server wrote since the last call.
func (u *UDP) NewOuts() []coapNet.VerifOut {
	o := u.PC.Out[u.seen:]
	u.seen = len(u.PC.Out)
	return o
}

// Cleanup releases the real socket (call after the execution).
func (u *UDP) Cleanup() { _ = u.Sock.Close() }

func EncodeUDP(m message.Message) []byte {
	size, err := udpcoder.DefaultCoder.Size(m)
	if err != nil {
		panic(err)
	}
	b := make([]byte, size)
	n, err := udpcoder.DefaultCoder.Encode(m, b)
	if err != nil {
		panic(err)
	}
	return b[:n]
}

func DecodeUDP(b []byte) (message.Message, error) {
	var m message.Message
	m.Options = make(message.Options, 0, 16)
	_, err := udpcoder.DefaultCoder.Decode(b, &m)
	if err == nil {
		m.Payload = append([]byte{}, m.Payload...)
		m.Token = append(message.Token{}, m.Token...)
	}
	return m, err
}

package main

import (
	"bytes"
	"context"
	"fmt"
	"strings"

	"github.com/plgd-dev/go-coap/v3/message"
	"github.com/plgd-dev/go-coap/v3/message/codes"
	"github.com/plgd-dev/go-coap/v3/message/pool"
	"github.com/plgd-dev/go-coap/v3/net/responsewriter"
	tcpclient "github.com/plgd-dev/go-coap/v3/tcp/client"
	udpclient "github.com/plgd-dev/go-coap/v3/udp/client"

	"verif/ev"
	"verif/mcx"
	"verif/vrt"
	"verif/worlds/tcpw"
	"verif/worlds/udpw"
)

// Connection-level part: real udp/tcp client conns. A burst of requests arrives (Conn.Process /
// the stream reader); the application handler either returns at once or issues a blocking Get on
// the same connection (nested once or twice), the peer answers the nested requests.

type ccfg struct {
	T       string // udp | tcp
	Q       int
	N       int
	Nest    int // 0: handlers return; 1: handler of request 1 issues a Get; 2: the nested exchange's... second request also nests
	Preempt int
	NestOp  string // "" = Get | "ping": the blocking call issued from inside the handler
	OwnMID  bool   // udp: the peer's confirmable request 1 carries the message ID this endpoint uses next for its own messages, and the nested request is confirmable
	Drop    int    // >0: the connection's request monitor drops request number Drop (it must not stop the ones behind it)
	Big     int    // tcp, >0: request 1 carries a payload of Big bytes (larger than the read buffer) and the whole burst arrives in one segment
}

func (c ccfg) String() string {
	x := ""
	if c.NestOp != "" {
		x += " nested-call=" + c.NestOp
	}
	if c.Big > 0 {
		x += fmt.Sprintf(" request-1-payload=%d-bytes one-segment", c.Big)
	}
	if c.Drop > 0 {
		x += fmt.Sprintf(" request-monitor-drops=req%d", c.Drop)
	}
	if c.OwnMID {
		x += " peer-request-carries-our-next-message-id nested-confirmable"
	}
	return fmt.Sprintf("%s-conn burst of %d requests queue=%d nesting=%d preempt<=%d%s", c.T, c.N, c.Q, c.Nest, c.Preempt, x)
}

func connScenario(c ccfg) *mcx.Scenario {
	return &mcx.Scenario{
		Name:   c.String(),
		Bounds: mcx.Bounds{Preempt: c.Preempt, Env: -1, Select: -1},
		Body: func(s *vrt.Sched) func() (string, []mcx.Finding) {
			var fs []mcx.Finding
			var entry []string
			handled := map[string]int{}
			nestedDone := 0
			vrt.App("peer", func() {
				var doGet func(path string, tok byte) error
				body := func(r *pool.Message) {
					p, _ := r.Path()
					entry = append(entry, p)
					if c.Nest >= 1 && p == "/req1" || c.Nest >= 2 && p == "/req2" {
						// a handler that calls back into the same connection and blocks on the answer
						if err := doGet("/nested"+p[4:], byte(0x50+len(entry))); err != nil {
							fs = append(fs, mcx.Finding{Sig: "conn/nested-request-failed", What: fmt.Sprintf("%s: nested Get inside the handler of %s failed: %v", c, p, err)})
						}
						nestedDone++
					} else {
						vrt.Point("handler body")
					}
					handled[p]++
				}
				var inject func(m message.Message)
				injectRaw := func(message.Message) {}
				ackFor := func(_ message.Message, resp message.Message) message.Message { return resp }
				var injectBurst func(ms []message.Message)
				var outs func() []message.Message
				dropPath := fmt.Sprintf("/req%d", c.Drop)
				if c.T == "udp" {
					w := udpw.New(udpw.Opts{NStart: 4, MaxRetransmit: 1, LimitTotal: 8, LimitEndpoint: 8, QueueSize: c.Q,
						RequestMonitor: func(_ *udpclient.Conn, r *pool.Message) (bool, error) {
							p, _ := r.Path()
							return c.Drop > 0 && p == dropPath, nil
						},
						Handler: func(_ *responsewriter.ResponseWriter[*udpclient.Conn], r *pool.Message) { body(r) }})
					doGet = func(path string, tok byte) error {
						if c.NestOp == "ping" {
							return w.CC.Ping(context.Background())
						}
						typ := message.NonConfirmable
						if c.OwnMID {
							typ = message.Confirmable
						}
						req := w.Request(context.Background(), codes.GET, path, message.Token{0xF0, tok}, typ, nil)
						_, err := w.CC.Do(req)
						return err
					}
					injected := 0
					inject = func(m message.Message) {
						injected++
						m.Type, m.MessageID = message.NonConfirmable, w.PeerMID()
						if c.OwnMID && injected == 1 {
							m.Type, m.MessageID = message.Confirmable, 1000 // udpw: the connection's own message IDs start at 1000
						}
						_ = w.Inject(m)
					}
					ackFor = func(req message.Message, resp message.Message) message.Message {
						if req.Type == message.Confirmable {
							resp.Type, resp.MessageID = message.Acknowledgement, req.MessageID
						}
						return resp
					}
					injectRaw = func(m message.Message) { _ = w.Inject(m) }
					outs = func() []message.Message {
						var ms []message.Message
						for _, o := range w.NewOuts() {
							ms = append(ms, o.M)
						}
						return ms
					}
				} else {
					w := tcpw.New(tcpw.Opts{LimitTotal: 8, LimitEndpoint: 8, QueueSize: c.Q, DisableCSM: true,
						RequestMonitor: func(_ *tcpclient.Conn, r *pool.Message) (bool, error) {
							p, _ := r.Path()
							return c.Drop > 0 && p == dropPath, nil
						},
						Handler: func(_ *responsewriter.ResponseWriter[*tcpclient.Conn], r *pool.Message) { body(r) }})
					doGet = func(path string, tok byte) error {
						if c.NestOp == "ping" {
							return w.CC.Ping(context.Background())
						}
						req := w.CC.AcquireMessage(context.Background())
						req.SetCode(codes.GET)
						req.SetToken(message.Token{0xF0, tok})
						_ = req.SetPath(path)
						_, err := w.CC.Do(req)
						return err
					}
					inject = func(m message.Message) { w.Inject(m) }
					injectBurst = func(ms []message.Message) {
						// one TCP segment carrying all frames: one read, one pass over the buffer
						var seg []byte
						for _, m := range ms {
							seg = append(seg, tcpw.Encode(m)...)
						}
						w.InjectChunks(seg)
					}
					outs = w.NewOuts
				}
				// the burst: all requests arrive back to back (the producer blocks only when the queue is full)
				var burst []message.Message
				for i := 1; i <= c.N; i++ {
					burst = append(burst, message.Message{Code: codes.POST, Token: message.Token{0x30 + byte(i)}, Options: message.Options{{ID: message.URIPath, Value: []byte(fmt.Sprintf("req%d", i))}}})
				}
				if c.Big > 0 {
					burst[0].Payload = bytes.Repeat([]byte{0x5a}, c.Big)
				}
				if (c.Drop > 0 || c.Big > 0) && injectBurst != nil {
					injectBurst(burst)
				} else {
					for _, m := range burst {
						inject(m)
					}
				}
				// the peer answers nested requests as they appear
				for round := 0; round < 8; round++ {
					vrt.Quiesce("peer: settle")
					acted := false
					for _, m := range outs() {
						if m.Code == codes.GET {
							resp := ackFor(m, message.Message{Code: codes.Content, Token: m.Token, Payload: []byte("nested-answer")})
							if resp.Type == message.Acknowledgement {
								injectRaw(resp) // piggybacked: message ID of the nested request
							} else {
								inject(resp)
							}
							acted = true
						}
						if m.Code == codes.Ping {
							inject(message.Message{Code: codes.Pong, Token: m.Token})
							acted = true
						}
						if c.T == "udp" && m.Code == codes.Empty && m.Type == message.Confirmable {
							injectRaw(message.Message{Type: message.Reset, Code: codes.Empty, MessageID: m.MessageID})
							acted = true
						}
					}
					if !acted {
						break
					}
				}
			})
			return func() (string, []mcx.Finding) {
				for i := 1; i <= c.N; i++ {
					p := fmt.Sprintf("/req%d", i)
					if c.Drop == i {
						if handled[p] != 0 {
							fs = append(fs, mcx.Finding{Sig: "conn/dropped-message-handled", What: fmt.Sprintf("%s: %s was dropped by the request monitor and still handled", c, p)})
						}
						continue
					}
					if handled[p] != 1 && !s.Deadlock {
						fs = append(fs, mcx.Finding{Sig: "conn/message-not-handled-exactly-once", What: fmt.Sprintf("%s: %s handled %d times; entry order %v", c, p, handled[p], entry)})
					}
				}
				if c.Nest == 0 {
					want := 0
					for _, p := range entry {
						want++
						if want == c.Drop {
							want++
						}
						if p != fmt.Sprintf("/req%d", want) {
							fs = append(fs, mcx.Finding{Sig: "conn/dispatch-out-of-arrival-order", What: fmt.Sprintf("%s: handlers return without blocking, yet entry order is %v", c, entry)})
							break
						}
					}
				}
				return strings.Join(entry, ",") + fmt.Sprint(nestedDone), fs
			}
		},
	}
}

func runConn(r *ev.Run, scs *[]*mcx.Scenario) {
	for _, t := range []string{"udp", "tcp"} {
		for _, q := range []int{0, 1, 16} {
			*scs = append(*scs, obsNestScenario(t, q, ev.Pick(r, 1, 2)))
		}
		for _, q := range []int{0, 1, 16} {
			*scs = append(*scs, connScenario(ccfg{T: t, Q: q, N: 4, Nest: 0, Preempt: ev.Pick(r, 1, 2)}))
			*scs = append(*scs, connScenario(ccfg{T: t, Q: q, N: 3, Nest: 1, Preempt: ev.Pick(r, 1, 2)}))
		}
		*scs = append(*scs, connScenario(ccfg{T: t, Q: 1, N: 3, Nest: 2, Preempt: ev.Pick(r, 0, 1)}))
		for _, q := range []int{0, 1, 16} {
			*scs = append(*scs, connScenario(ccfg{T: t, Q: q, N: 3, Nest: 1, NestOp: "ping", Preempt: ev.Pick(r, 1, 2)}))
		}
		*scs = append(*scs, connScenario(ccfg{T: t, Q: 1, N: 3, Nest: 2, NestOp: "ping", Preempt: ev.Pick(r, 0, 1)}))
		if t == "udp" {
			for _, q := range []int{0, 1, 16} {
				*scs = append(*scs, connScenario(ccfg{T: t, Q: q, N: 3, Nest: 1, OwnMID: true, Preempt: ev.Pick(r, 0, 1)}))
			}
		}
		if t == "tcp" {
			// a frame larger than the read buffer with the next messages already behind it in the stream
			for _, big := range []int{5000, 9000, 16384 + 7} {
				*scs = append(*scs, connScenario(ccfg{T: t, Q: 16, N: 3, Nest: 0, Big: big, Preempt: 0}))
			}
		}
		for _, d := range []int{1, 2, 4} {
			*scs = append(*scs, connScenario(ccfg{T: t, Q: 16, N: 4, Nest: 0, Drop: d, Preempt: ev.Pick(r, 0, 1)}))
		}
	}
}

// An observation callback that issues a blocking request while a further notification of the same
// observation - and then the awaited response - arrive behind it.
func obsNestScenario(t string, q int, preempt int) *mcx.Scenario {
	name := fmt.Sprintf("%s-conn observation callback issues a blocking Get; a second notification and then the response arrive behind it; queue=%d preempt<=%d", t, q, preempt)
	return &mcx.Scenario{
		Name:   name,
		Bounds: mcx.Bounds{Preempt: preempt, Env: -1, Select: -1},
		Body: func(s *vrt.Sched) func() (string, []mcx.Finding) {
			var fs []mcx.Finding
			var seen []string
			nestedErr := "not-run"
			vrt.App("peer", func() {
				var observe func(cb func(*pool.Message)) error
				var doGet func() error
				var inject func(m message.Message)
				var outs func() []message.Message
				if t == "udp" {
					w := udpw.New(udpw.Opts{NStart: 4, MaxRetransmit: 1, LimitTotal: 8, LimitEndpoint: 8, QueueSize: q})
					observe = func(cb func(*pool.Message)) error {
						_, err := w.CC.Observe(context.Background(), "/obs", cb)
						return err
					}
					doGet = func() error {
						_, err := w.CC.Do(w.Request(context.Background(), codes.GET, "/slow", message.Token{0xF1}, message.NonConfirmable, nil))
						return err
					}
					inject = func(m message.Message) {
						if m.Type != message.Acknowledgement {
							m.Type, m.MessageID = message.NonConfirmable, w.PeerMID()
						}
						_ = w.Inject(m)
					}
					outs = func() []message.Message {
						var ms []message.Message
						for _, o := range w.NewOuts() {
							ms = append(ms, o.M)
						}
						return ms
					}
				} else {
					w := tcpw.New(tcpw.Opts{LimitTotal: 8, LimitEndpoint: 8, QueueSize: q, DisableCSM: true})
					observe = func(cb func(*pool.Message)) error {
						_, err := w.CC.Observe(context.Background(), "/obs", cb)
						return err
					}
					doGet = func() error {
						r := w.CC.AcquireMessage(context.Background())
						_ = r.SetupGet("/slow", message.Token{0xF1})
						_, err := w.CC.Do(r)
						return err
					}
					inject = func(m message.Message) { m.Type, m.MessageID = 0, 0; w.Inject(m) }
					outs = w.NewOuts
				}
				obsOpt := func(v uint32) message.Options {
					b := make([]byte, 4)
					o, _, _ := message.Options{}.SetUint32(b, message.Observe, v)
					return o
				}
				var obsTok message.Token
				registered := false
				vrt.App("observer", func() {
					err := observe(func(n *pool.Message) {
						b, _ := n.ReadBody()
						seen = append(seen, string(b))
						if string(b) == "n1" {
							if e := doGet(); e != nil {
								nestedErr = e.Error()
							} else {
								nestedErr = "ok"
							}
						}
					})
					if err != nil {
						fs = append(fs, mcx.Finding{Sig: "ENGINE/setup", What: name + ": registration failed: " + err.Error()})
					}
					registered = true
				})
				slowSeen := false
				for round := 0; round < 12; round++ {
					vrt.Quiesce("peer: settle")
					acted := false
					for _, m := range outs() {
						if m.Code != codes.GET {
							continue
						}
						p, _ := m.Options.Path()
						switch p {
						case "/obs":
							obsTok = append(message.Token{}, m.Token...)
							resp := message.Message{Code: codes.Content, Token: m.Token, Options: obsOpt(10), Payload: []byte("reg")}
							if t == "udp" && m.Type == message.Confirmable {
								resp.Type, resp.MessageID = message.Acknowledgement, m.MessageID
							}
							inject(resp)
							acted = true
						case "/slow":
							if !slowSeen {
								slowSeen = true
								// behind the request the peer first sends another notification, then the answer
								inject(message.Message{Code: codes.Content, Token: obsTok, Options: obsOpt(12), Payload: []byte("n2")})
								inject(message.Message{Code: codes.Content, Token: m.Token, Payload: []byte("slow-done")})
								acted = true
							}
						}
					}
					if registered && len(seen) == 1 && !acted {
						inject(message.Message{Code: codes.Content, Token: obsTok, Options: obsOpt(11), Payload: []byte("n1")})
						acted = true
					}
					if !acted {
						break
					}
				}
			})
			return func() (string, []mcx.Finding) {
				if !s.Deadlock {
					if nestedErr != "ok" {
						fs = append(fs, mcx.Finding{Sig: "conn/nested-request-from-callback-failed", What: fmt.Sprintf("%s: the Get issued from the observation callback ended with %q; callback saw %v", name, nestedErr, seen)})
					}
					if fmt.Sprint(seen) != "[reg n1 n2]" {
						fs = append(fs, mcx.Finding{Sig: "conn/notifications-not-delivered-once-in-order", What: fmt.Sprintf("%s: the callback saw %v, the peer sent [reg n1 n2]", name, seen)})
					}
				}
				return fmt.Sprint(seen, nestedErr), fs
			}
		},
	}
}

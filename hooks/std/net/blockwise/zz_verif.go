//go:build verif

package blockwise

// VerifSizes: entries in the sending and receiving caches (verification overlay only).
func (b *BlockWise[C]) VerifSizes() (sending, receiving int) {
	return b.sendingMessagesCache.Length(), b.receivingMessagesCache.Length()
}

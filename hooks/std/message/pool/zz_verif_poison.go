//go:build verif

package pool

// Poison-on-release (all instrumented variants): Pool.ReleaseMessage first overwrites the message's
// private buffers (marshal, unmarshal and option-value buffers) with a pattern. The real pool hands
// a released object to its next user, who overwrites exactly these buffers; whoever still holds a
// slice into them (a cached encoding, a token, an option value) then reads foreign bytes. Poisoning
// makes that visible deterministically in every execution, to the oracles of whatever check runs.
var VerifPoison = true

var VerifPoisoned int

const verifPoisonByte = 0xDB

func verifPoison(m *Message) {
	if !VerifPoison || m == nil {
		return
	}
	VerifPoisoned++
	fill := func(b []byte) {
		b = b[:cap(b)]
		for i := range b {
			b[i] = verifPoisonByte
		}
	}
	fill(m.bufferMarshal)
	fill(m.bufferUnmarshal)
	fill(m.origValueBuffer)
}

// Package tcpw is the tcp-conn world: a real tcp/client.Conn (+ its Session.Run read loop) over
// an in-memory byte stream whose Read returns harness-chosen chunks.
package tcpw

import (
	"context"
	"errors"
	"fmt"
	"io"
	"net"
	"time"

	"github.com/plgd-dev/go-coap/v3/message"
	"github.com/plgd-dev/go-coap/v3/message/codes"
	"github.com/plgd-dev/go-coap/v3/message/pool"
	coapNet "github.com/plgd-dev/go-coap/v3/net"
	"github.com/plgd-dev/go-coap/v3/net/blockwise"
	"github.com/plgd-dev/go-coap/v3/tcp/client"
	tcpcoder "github.com/plgd-dev/go-coap/v3/tcp/coder"

	"verif/vrt"
	_ "verif/worlds/track" // C12 builds: every world runs under the pool lifecycle tracker
)

// Stream is the fake net.Conn.
type Stream struct {
	In            [][]byte // chunks waiting to be read; each Read returns (a prefix of) the head chunk
	Out           []byte   // everything written
	Writes        [][]byte // the individual Write calls (datagram boundaries for DTLS-style conns)
	Closed        bool     // closed locally
	PeerClosed    bool     // peer sent FIN: Read returns io.EOF once In is drained
	ReadErr       error    // Read fails with this error once In is drained
	Reads         int      // number of Read calls that returned
	ReadsAfter    int      // Reads counter snapshot helper for oracles
	WriteErr      error
	BlockWrites   bool // the peer stopped reading and the socket buffers are full: Write blocks until the conn is closed
	WritesBlocked int
	Handshake     func(ctx context.Context) error // non-nil: the conn has a HandshakeContext (TLS/DTLS path)
	CloseCalls    int
}

type addr string

func (a addr) Network() string { return "tcp" }
func (a addr) String() string  { return string(a) }

func (s *Stream) Read(b []byte) (int, error) {
	vrt.WaitUntil("net.Conn.Read", func() bool { return len(s.In) > 0 || s.Closed || s.PeerClosed || s.ReadErr != nil })
	s.Reads++
	if s.Closed {
		return 0, net.ErrClosed
	}
	if len(s.In) == 0 {
		if s.ReadErr != nil {
			return 0, s.ReadErr
		}
		return 0, io.EOF
	}
	n := copy(b, s.In[0])
	if n == len(s.In[0]) {
		s.In = s.In[1:]
	} else {
		s.In[0] = s.In[0][n:]
	}
	return n, nil
}

func (s *Stream) Write(b []byte) (int, error) {
	if s.BlockWrites && !s.Closed {
		s.WritesBlocked++
		vrt.WaitUntil("net.Conn.Write (peer not reading)", func() bool { return !s.BlockWrites || s.Closed })
	}
	if s.Closed {
		return 0, net.ErrClosed
	}
	if s.WriteErr != nil {
		return 0, s.WriteErr
	}
	s.Out = append(s.Out, b...)
	s.Writes = append(s.Writes, append([]byte{}, b...))
	return len(b), nil
}

func (s *Stream) Close() error {
	s.CloseCalls++
	if s.Closed {
		return net.ErrClosed
	}
	s.Closed = true
	return nil
}
func (s *Stream) LocalAddr() net.Addr              { return addr("10.0.0.2:40000") }
func (s *Stream) RemoteAddr() net.Addr             { return addr("10.0.0.1:5683") }
func (s *Stream) SetDeadline(time.Time) error      { return nil }
func (s *Stream) SetReadDeadline(time.Time) error  { return nil }
func (s *Stream) SetWriteDeadline(time.Time) error { return nil }

// hsStream adds HandshakeContext (the code path TLS connections take inside go-coap).
type hsStream struct{ *Stream }

func (h hsStream) HandshakeContext(ctx context.Context) error { return h.Stream.Handshake(ctx) }

type Opts struct {
	BlockWise      bool
	SZX            blockwise.SZX
	MaxMsgSize     uint32
	CacheSize      uint16
	DisableCSM     bool
	NoCloseSocket  bool
	Handler        client.HandlerFunc
	LimitTotal     int64
	LimitEndpoint  int64
	QueueSize      int
	Monitor        func() client.InactivityMonitor
	Handshake      func(ctx context.Context) error
	BWTimeout      time.Duration
	OnSignal       func(codes.Code)
	RequestMonitor client.RequestMonitorFunc
	PoolSize       uint32   // >0: the connection's message pool really recycles (up to this many objects; LIFO in the overlay)
	WriteErr       error    // every write fails from the start (the CSM sent at construction cannot be written)
	OnClose        []func() // on-close callbacks registered before the read loop starts
}

type World struct {
	CC      *client.Conn
	St      *Stream
	Pool    *pool.Pool
	Errors  []string
	parsed  int // bytes of St.Out already decoded
	RunErr  error
	RunDone bool
}

// New builds the conn and starts its read loop (call from inside a managed thread).
func New(o Opts) *World {
	w := &World{St: &Stream{Handshake: o.Handshake, WriteErr: o.WriteErr}}
	cfg := client.DefaultConfig
	w.Pool = pool.New(o.PoolSize, 0)
	cfg.MessagePool = w.Pool
	cfg.Errors = func(err error) { w.Errors = append(w.Errors, err.Error()) }
	cfg.LimitClientParallelRequests = o.LimitTotal
	cfg.LimitClientEndpointParallelRequests = o.LimitEndpoint
	cfg.ReceivedMessageQueueSize = o.QueueSize
	if o.MaxMsgSize != 0 {
		cfg.MaxMessageSize = o.MaxMsgSize
	}
	if o.CacheSize != 0 {
		cfg.ConnectionCacheSize = o.CacheSize
	}
	cfg.DisableTCPSignalMessageCSM = o.DisableCSM
	cfg.CloseSocket = !o.NoCloseSocket
	if o.Handler != nil {
		cfg.Handler = o.Handler
	}
	tok := byte(0x70)
	cfg.GetToken = func() (message.Token, error) { tok++; return message.Token{0xee, tok}, nil }
	cfg.PeriodicRunner = func(func(time.Time) bool) {}
	if o.BWTimeout == 0 {
		o.BWTimeout = 3 * time.Second
	}
	var nc net.Conn = w.St
	if o.Handshake != nil {
		nc = hsStream{w.St}
	}
	opts := []client.Option{}
	if o.BlockWise {
		cfg.BlockwiseSZX = o.SZX
		opts = append(opts, client.WithBlockWise(func(cc *client.Conn) *blockwise.BlockWise[*client.Conn] {
			return blockwise.New(cc, o.BWTimeout, cfg.Errors, func(token message.Token) (*pool.Message, bool) {
				return cc.GetObservationRequest(token)
			})
		}))
	}
	if o.Monitor != nil {
		opts = append(opts, client.WithInactivityMonitor(o.Monitor()))
	}
	if o.RequestMonitor != nil {
		opts = append(opts, client.WithRequestMonitor(o.RequestMonitor))
	}
	w.CC = client.NewConnWithOpts(coapNet.NewConn(nc), &cfg, opts...)
	if o.OnSignal != nil {
		w.CC.SetTCPSignalReceivedHandler(o.OnSignal)
	}
	for _, f := range o.OnClose {
		w.CC.AddOnClose(f)
	}
	vrt.Lib("tcp-session-run", func() {
		w.RunErr = w.CC.Run()
		w.RunDone = true
	})
	return w
}

func Encode(m message.Message) []byte {
	size, err := tcpcoder.DefaultCoder.Size(m)
	if err != nil {
		panic(err)
	}
	b := make([]byte, size)
	n, err := tcpcoder.DefaultCoder.Encode(m, b)
	if err != nil {
		panic(fmt.Sprintf("tcpw.Encode: %v", err))
	}
	return b[:n]
}

// Inject queues one message as a single chunk.
func (w *World) Inject(m message.Message) { w.St.In = append(w.St.In, Encode(m)) }

// InjectChunks queues raw byte chunks.
func (w *World) InjectChunks(chunks ...[]byte) {
	for _, c := range chunks {
		if len(c) > 0 {
			w.St.In = append(w.St.In, append([]byte{}, c...))
		}
	}
}

// NewOuts decodes the frames written since the last call.
func (w *World) NewOuts() []message.Message {
	var out []message.Message
	for w.parsed < len(w.St.Out) {
		var m message.Message
		m.Options = make(message.Options, 0, 16)
		n, err := tcpcoder.DefaultCoder.Decode(w.St.Out[w.parsed:], &m)
		if errors.Is(err, message.ErrShortRead) {
			break
		}
		if err != nil {
			panic(fmt.Sprintf("tcpw: conn wrote an undecodable frame: %v (%x)", err, w.St.Out[w.parsed:]))
		}
		m.Payload = append([]byte{}, m.Payload...)
		m.Token = append(message.Token{}, m.Token...)
		for i := range m.Options {
			m.Options[i].Value = append([]byte{}, m.Options[i].Value...)
		}
		out = append(out, m)
		w.parsed += n
	}
	return out
}

func Describe(m message.Message) string {
	return fmt.Sprintf("code=%v tok=%x opts=%d payload=%q", m.Code, []byte(m.Token), len(m.Options), string(m.Payload))
}

//go:build verif

package server

// VerifSizes: read-only sizes of the server tables (verification overlay only).
func (s *Server) VerifSizes() (conns, multicastRequests, multicastHandlers int) {
	s.connsMutex.Lock()
	conns = len(s.conns)
	s.connsMutex.Unlock()
	return conns, s.multicastRequests.Length(), s.multicastHandler.Length()
}

//go:build tools

package verif

import (
	_ "github.com/anishathalye/porcupine"
	_ "golang.org/x/tools/go/packages"
)

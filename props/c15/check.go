package main

// Per-step oracle: list comparison and the full query set against the model.

import (
	"bytes"
	"errors"
	"fmt"

	"github.com/plgd-dev/go-coap/v3/message"
)

// nodeKey orders counterexamples: shortest sequence first, then runner, then alphabet order,
// so the example reported for a signature is the minimal one and does not depend on scheduling.
type nodeKey struct {
	run int
	seq []int
}

func (a nodeKey) less(b nodeKey) bool {
	if len(a.seq) != len(b.seq) {
		return len(a.seq) < len(b.seq)
	}
	if a.run != b.run {
		return a.run < b.run
	}
	for i := range a.seq {
		if a.seq[i] != b.seq[i] {
			return a.seq[i] < b.seq[i]
		}
	}
	return false
}

type best struct {
	key    nodeKey
	what   string
	replay any
	count  int64 // number of sequences on which the signature fired
}

// agg collects violations of one worker.
type agg struct{ m map[string]*best }

func newAgg() *agg { return &agg{m: map[string]*best{}} }

func (a *agg) merge(b *agg) {
	for s, v := range b.m {
		cur, ok := a.m[s]
		if !ok {
			a.m[s] = v
			continue
		}
		cur.count += v.count
		if v.key.less(cur.key) {
			cur.key, cur.what, cur.replay = v.key, v.what, v.replay
		}
	}
}

// reporter receives the findings of one executed sequence (only for its last step: every earlier
// step is the last step of a shorter sequence that is executed on its own).
type reporter struct {
	a       *agg
	key     nodeKey
	replay  func() any
	ctx     func() string // the concrete sequence, prefixed to every finding
	seen    []string
	verbose bool
}

func (r *reporter) add(sig, format string, args ...any) {
	if r == nil {
		return
	}
	for _, s := range r.seen {
		if s == sig {
			return
		}
	}
	r.seen = append(r.seen, sig)
	if r.verbose {
		fmt.Printf("    !! %s: %s\n", sig, fmt.Sprintf(format, args...))
	}
	b, ok := r.a.m[sig]
	if !ok {
		b = &best{}
		r.a.m[sig] = b
	}
	b.count++
	if b.count == 1 || r.key.less(b.key) {
		b.key = nodeKey{run: r.key.run, seq: append([]int(nil), r.key.seq...)}
		b.what = r.ctx() + ": " + fmt.Sprintf(format, args...)
		b.replay = r.replay()
	}
}

func fmtVal(b []byte) string {
	if len(b) <= 8 {
		return fmt.Sprintf("%q", b)
	}
	return fmt.Sprintf("%q..(%dB)", b[:4], len(b))
}

func fmtOptions(o message.Options) string {
	var sb bytes.Buffer
	sb.WriteByte('[')
	for i, e := range o {
		if i > 0 {
			sb.WriteByte(' ')
		}
		fmt.Fprintf(&sb, "%d:%s", e.ID, fmtVal(e.Value))
	}
	sb.WriteByte(']')
	return sb.String()
}

func fmtModel(m *model) string {
	var sb bytes.Buffer
	sb.WriteByte('[')
	for i, e := range m.e {
		if i > 0 {
			sb.WriteByte(' ')
		}
		fmt.Fprintf(&sb, "%d:%s", e.id, fmtVal(e.val))
	}
	sb.WriteByte(']')
	return sb.String()
}

// sameList: same length, same ids in the same order, values byte-exact.
func sameList(got message.Options, m *model) bool {
	if len(got) != len(m.e) {
		return false
	}
	for i, e := range m.e {
		if got[i].ID != e.id || !bytes.Equal(got[i].Value, e.val) {
			return false
		}
	}
	return true
}

func isNotFound(err error) bool {
	return err == message.ErrOptionNotFound || errors.Is(err, message.ErrOptionNotFound)
}

func isTooSmall(err error) bool {
	return err == message.ErrTooSmall || errors.Is(err, message.ErrTooSmall)
}

// ---- panic-safe wrappers around the query methods (one recover per call, so a crash in one
// query does not hide the answers of the others)

func safe(f func()) (p any) {
	defer func() { p = recover() }()
	f()
	return nil
}

// typed panic-safe wrappers (no closures: nothing escapes to the heap on the hot path)

func sFind(o message.Options, id message.OptionID) (f, l int, err error, p any) {
	defer func() { p = recover() }()
	f, l, err = o.Find(id)
	return
}

func sHas(o message.Options, id message.OptionID) (has bool, p any) {
	defer func() { p = recover() }()
	has = o.HasOption(id)
	return
}

func sGetUint32(o message.Options, id message.OptionID) (u uint32, err error, p any) {
	defer func() { p = recover() }()
	u, err = o.GetUint32(id)
	return
}

func sGetString(o message.Options, id message.OptionID) (s string, err error, p any) {
	defer func() { p = recover() }()
	s, err = o.GetString(id)
	return
}

func sGetBytes(o message.Options, id message.OptionID) (b []byte, err error, p any) {
	defer func() { p = recover() }()
	b, err = o.GetBytes(id)
	return
}

func sGetUint32s(o message.Options, id message.OptionID, r []uint32) (n int, err error, p any) {
	defer func() { p = recover() }()
	n, err = o.GetUint32s(id, r)
	return
}

func sGetStrings(o message.Options, id message.OptionID, r []string) (n int, err error, p any) {
	defer func() { p = recover() }()
	n, err = o.GetStrings(id, r)
	return
}

func sGetBytess(o message.Options, id message.OptionID, r [][]byte) (n int, err error, p any) {
	defer func() { p = recover() }()
	n, err = o.GetBytess(id, r)
	return
}

func sPath(o message.Options, loc bool) (s string, err error, p any) {
	defer func() { p = recover() }()
	if loc {
		s, err = o.LocationPath()
	} else {
		s, err = o.Path()
	}
	return
}

func sQueries(o message.Options) (q []string, err error, p any) {
	defer func() { p = recover() }()
	q, err = o.Queries()
	return
}

// which: 0 ContentFormat, 1 Accept, 2 Observe
func sTyped(o message.Options, which int) (u uint32, err error, p any) {
	defer func() { p = recover() }()
	switch which {
	case 0:
		var v message.MediaType
		v, err = o.ContentFormat()
		u = uint32(v)
	case 1:
		var v message.MediaType
		v, err = o.Accept()
		u = uint32(v)
	default:
		u, err = o.Observe()
	}
	return
}

type scratch struct {
	vals [][]byte
	u    []uint32
	s    []string
	b    [][]byte
	sb   []byte
}

const sentinelU = 0xDEADBEEF
const sentinelS = "\x00sentinel"

var sentinelB = []byte("\x00sentinelB")

// valuesOf is model.values without allocation; the result is valid until the next call.
func (sc *scratch) valuesOf(m *model, id message.OptionID) [][]byte {
	sc.vals = sc.vals[:0]
	for _, e := range m.e {
		if e.id == id {
			sc.vals = append(sc.vals, e.val)
		}
	}
	return sc.vals
}

func newScratch() *scratch {
	return &scratch{u: make([]uint32, 64), s: make([]string, 64), b: make([][]byte, 64)}
}

// queryOptions runs the full query set on a message.Options value.
func queryOptions(got message.Options, m *model, sc *scratch, rep *reporter) {
	for _, id := range queryIDs {
		first, cnt := m.find(id)
		vals := sc.valuesOf(m, id)

		// Find
		f, l, err, p := sFind(got, id)
		if p != nil {
			rep.add("Find/panic", "Find(%d) panicked: %v", id, p)
		} else if cnt == 0 {
			if !isNotFound(err) {
				rep.add("Find/absent-not-reported", "Find(%d) = (%d,%d,%v) although no such option is in the list", id, f, l, err)
			}
		} else if err != nil || f != first || l != first+cnt {
			rep.add("Find/wrong-range", "Find(%d) = (%d,%d,%v), want (%d,%d,nil)", id, f, l, err, first, first+cnt)
		}

		// HasOption
		has, p := sHas(got, id)
		if p != nil {
			rep.add("HasOption/panic", "HasOption(%d) panicked: %v", id, p)
		} else if has != (cnt > 0) {
			rep.add("HasOption/wrong", "HasOption(%d) = %v with %d such options in the list", id, has, cnt)
		}

		// GetUint32 (first option; compared when the value is a legal uint of <= 4 bytes)
		u, err, p := sGetUint32(got, id)
		if p != nil {
			rep.add("GetUint32/panic", "GetUint32(%d) panicked: %v", id, p)
		} else if cnt == 0 {
			if !isNotFound(err) {
				rep.add("GetUint32/absent-not-reported", "GetUint32(%d) = (%d,%v) although absent", id, u, err)
			}
		} else if len(vals[0]) <= 4 && (err != nil || u != uintValue(vals[0])) {
			rep.add("GetUint32/wrong", "GetUint32(%d) = (%d,%v), first value is %s", id, u, err, fmtVal(vals[0]))
		}

		// GetString
		s, err, p := sGetString(got, id)
		if p != nil {
			rep.add("GetString/panic", "GetString(%d) panicked: %v", id, p)
		} else if cnt == 0 {
			if !isNotFound(err) {
				rep.add("GetString/absent-not-reported", "GetString(%d) = (%q,%v) although absent", id, s, err)
			}
		} else if err != nil || s != string(vals[0]) {
			rep.add("GetString/wrong", "GetString(%d) = (%s,%v), first value is %s", id, fmtVal([]byte(s)), err, fmtVal(vals[0]))
		}

		// GetBytes
		b, err, p := sGetBytes(got, id)
		if p != nil {
			rep.add("GetBytes/panic", "GetBytes(%d) panicked: %v", id, p)
		} else if cnt == 0 {
			if !isNotFound(err) {
				rep.add("GetBytes/absent-not-reported", "GetBytes(%d) = (%s,%v) although absent", id, fmtVal(b), err)
			}
		} else if err != nil || !bytes.Equal(b, vals[0]) {
			rep.add("GetBytes/wrong", "GetBytes(%d) = (%s,%v), first value is %s", id, fmtVal(b), err, fmtVal(vals[0]))
		}

		// multi-value getters with result slices of length count-1, count, count+1
		for rl := cnt - 1; rl <= cnt+1; rl++ {
			if rl < 0 {
				continue
			}
			multiUint(got, id, vals, rl, sc, rep)
			multiString(got, id, vals, rl, sc, rep)
			multiBytes(got, id, vals, rl, sc, rep)
		}
	}

	// Path / LocationPath
	for k, name := range [2]string{"Path", "LocationPath"} {
		pid := message.URIPath
		if k == 1 {
			pid = message.LocationPath
		}
		want, present := m.joined(pid)
		s, err, p := sPath(got, k == 1)
		if p != nil {
			rep.add(name+"/panic", "%s() panicked: %v", name, p)
		} else if !present {
			// reading (options_test.go/pool message_test.go "Empty" cases expect an error from
			// Path() when there is no Uri-Path option): absent -> ErrOptionNotFound
			if !isNotFound(err) {
				rep.add(name+"/absent-not-reported", "%s() = (%q,%v) without any such option", name, s, err)
			}
		} else if err != nil || s != want {
			rep.add(name+"/wrong", "%s() = (%s,%v), want %s", name, fmtVal([]byte(s)), err, fmtVal([]byte(want)))
		}
	}

	// Queries
	{
		vals := sc.valuesOf(m, message.URIQuery)
		q, err, p := sQueries(got)
		if p != nil {
			rep.add("Queries/panic", "Queries() panicked: %v", p)
		} else if len(vals) == 0 {
			if !isNotFound(err) {
				rep.add("Queries/absent-not-reported", "Queries() = (%d entries,%v) without any Uri-Query", len(q), err)
			}
		} else {
			ok := err == nil && len(q) == len(vals)
			for i := 0; ok && i < len(vals); i++ {
				ok = q[i] == string(vals[i])
			}
			if !ok {
				rep.add("Queries/wrong", "Queries() = (%d entries,%v), want the %d Uri-Query values in order", len(q), err, len(vals))
			}
		}
	}

	// typed uint getters
	for k, name := range [3]string{"ContentFormat", "Accept", "Observe"} {
		tid, max := message.ContentFormat, 2 // max: longest legal encoding of the target type
		switch k {
		case 1:
			tid = message.Accept
		case 2:
			tid, max = message.Observe, 4
		}
		vals := sc.valuesOf(m, tid)
		u, err, p := sTyped(got, k)
		if p != nil {
			rep.add(name+"/panic", "%s() panicked: %v", name, p)
		} else if len(vals) == 0 {
			if !isNotFound(err) {
				rep.add(name+"/absent-not-reported", "%s() = (%d,%v) although absent", name, u, err)
			}
		} else if len(vals[0]) <= max && (err != nil || u != uintValue(vals[0])) {
			rep.add(name+"/wrong", "%s() = (%d,%v), first value is %s", name, u, err, fmtVal(vals[0]))
		}
	}
}

func allShort(vals [][]byte) bool {
	for _, v := range vals {
		if len(v) > 4 {
			return false
		}
	}
	return true
}

// Multi-value getters. Reading of the contract ("gets all options with same id", pool: "Writes
// ... values to output array, returns number of written values or error"):
//   - no such option: ErrOptionNotFound;
//   - result slice shorter than the number of options: ErrTooSmall;
//   - otherwise: nil error, n = number of options, r[:n] = the values in list order and nothing
//     written beyond r[n].
func multiUint(got message.Options, id message.OptionID, vals [][]byte, rl int, sc *scratch, rep *reporter) {
	cnt := len(vals)
	r := sc.u[:rl:rl]
	for i := range r {
		r[i] = sentinelU
	}
	n, err, p := sGetUint32s(got, id, r)
	if p != nil {
		rep.add("GetUint32s/panic", "GetUint32s(%d, len %d) with %d such options panicked: %v", id, rl, cnt, p)
		return
	}
	switch {
	case cnt == 0:
		if !isNotFound(err) {
			rep.add("GetUint32s/absent-not-reported", "GetUint32s(%d, len %d) = (%d,%v) although absent", id, rl, n, err)
		}
	case rl < cnt:
		if !isTooSmall(err) {
			rep.add("GetUint32s/short-slice-not-refused", "GetUint32s(%d, len %d) = (%d,%v) with %d such options", id, rl, n, err, cnt)
		}
	default:
		if !allShort(vals) {
			// values longer than 4 bytes are not uints: only "no crash, nothing out of bounds" is required
			return
		}
		if err != nil || n != cnt {
			rep.add("GetUint32s/wrong-count", "GetUint32s(%d, len %d) = (%d,%v) with %d such options", id, rl, n, err, cnt)
			return
		}
		for i := 0; i < cnt; i++ {
			if r[i] != uintValue(vals[i]) {
				rep.add("GetUint32s/wrong-value", "GetUint32s(%d, len %d): r[%d] = %d, want %d", id, rl, i, r[i], uintValue(vals[i]))
				return
			}
		}
		for i := cnt; i < rl; i++ {
			if r[i] != sentinelU {
				rep.add("GetUint32s/writes-beyond-count", "GetUint32s(%d, len %d) with %d such options wrote r[%d] = %d", id, rl, cnt, i, r[i])
				return
			}
		}
	}
}

func multiString(got message.Options, id message.OptionID, vals [][]byte, rl int, sc *scratch, rep *reporter) {
	cnt := len(vals)
	r := sc.s[:rl:rl]
	for i := range r {
		r[i] = sentinelS
	}
	n, err, p := sGetStrings(got, id, r)
	if p != nil {
		rep.add("GetStrings/panic", "GetStrings(%d, len %d) with %d such options panicked: %v", id, rl, cnt, p)
		return
	}
	switch {
	case cnt == 0:
		if !isNotFound(err) {
			rep.add("GetStrings/absent-not-reported", "GetStrings(%d, len %d) = (%d,%v) although absent", id, rl, n, err)
		}
	case rl < cnt:
		if !isTooSmall(err) {
			rep.add("GetStrings/short-slice-not-refused", "GetStrings(%d, len %d) = (%d,%v) with %d such options", id, rl, n, err, cnt)
		}
	default:
		if err != nil || n != cnt {
			rep.add("GetStrings/wrong-count", "GetStrings(%d, len %d) = (%d,%v) with %d such options", id, rl, n, err, cnt)
			return
		}
		for i := 0; i < cnt; i++ {
			if r[i] != string(vals[i]) {
				rep.add("GetStrings/wrong-value", "GetStrings(%d, len %d): r[%d] = %s, want %s", id, rl, i, fmtVal([]byte(r[i])), fmtVal(vals[i]))
				return
			}
		}
		for i := cnt; i < rl; i++ {
			if r[i] != sentinelS {
				rep.add("GetStrings/writes-beyond-count", "GetStrings(%d, len %d) with %d such options wrote r[%d]", id, rl, cnt, i)
				return
			}
		}
	}
}

func multiBytes(got message.Options, id message.OptionID, vals [][]byte, rl int, sc *scratch, rep *reporter) {
	cnt := len(vals)
	r := sc.b[:rl:rl]
	for i := range r {
		r[i] = sentinelB
	}
	n, err, p := sGetBytess(got, id, r)
	if p != nil {
		rep.add("GetBytess/panic", "GetBytess(%d, len %d) with %d such options panicked: %v", id, rl, cnt, p)
		return
	}
	switch {
	case cnt == 0:
		if !isNotFound(err) {
			rep.add("GetBytess/absent-not-reported", "GetBytess(%d, len %d) = (%d,%v) although absent", id, rl, n, err)
		}
	case rl < cnt:
		if !isTooSmall(err) {
			rep.add("GetBytess/short-slice-not-refused", "GetBytess(%d, len %d) = (%d,%v) with %d such options", id, rl, n, err, cnt)
		}
	default:
		if err != nil || n != cnt {
			rep.add("GetBytess/wrong-count", "GetBytess(%d, len %d) = (%d,%v) with %d such options", id, rl, n, err, cnt)
			return
		}
		for i := 0; i < cnt; i++ {
			if !bytes.Equal(r[i], vals[i]) {
				rep.add("GetBytess/wrong-value", "GetBytess(%d, len %d): r[%d] = %s, want %s", id, rl, i, fmtVal(r[i]), fmtVal(vals[i]))
				return
			}
		}
		for i := cnt; i < rl; i++ {
			if len(r[i]) != len(sentinelB) || &r[i][0] != &sentinelB[0] {
				rep.add("GetBytess/writes-beyond-count", "GetBytess(%d, len %d) with %d such options wrote r[%d]", id, rl, cnt, i)
				return
			}
		}
	}
}

package main

import (
	"fmt"
	"strings"

	"github.com/plgd-dev/go-coap/v3/message"
)

// Op is one editing operation; it is also the JSON replay format.
type Op struct {
	K  string `json:"op"`
	ID uint16 `json:"id,omitempty"`
	V  string `json:"val,omitempty"`    // value class, see valLen
	U  uint32 `json:"u,omitempty"`      // number for the uint setters
	P  string `json:"path,omitempty"`   // path; "{n}" stands for n times 'x'
	N  int    `json:"preset,omitempty"` // preset index for ResetOptionsTo
}

func (o Op) String() string {
	switch o.K {
	case "Set", "Add", "SetBytes", "AddBytes", "SetString", "AddString":
		return fmt.Sprintf("%s(%d,%s)", o.K, o.ID, o.V)
	case "Remove":
		return fmt.Sprintf("Remove(%d)", o.ID)
	case "SetUint32", "AddUint32":
		return fmt.Sprintf("%s(%d,%#x)", o.K, o.ID, o.U)
	case "SetContentFormat", "SetObserve", "SetAccept":
		return fmt.Sprintf("%s(%#x)", o.K, o.U)
	case "SetPath", "SetLocationPath", "MustSetPath":
		return fmt.Sprintf("%s(%q)", o.K, o.P)
	case "ResetOptionsTo":
		return fmt.Sprintf("ResetOptionsTo(preset%d)", o.N)
	case "ResetOptionsToOwn":
		return map[int]string{0: "ResetOptionsTo(own Options())", 1: "ResetOptionsTo(list built from own values)"}[o.N]
	case "AddQuery", "SetETag", "AddETag":
		return fmt.Sprintf("%s(%s)", o.K, o.V)
	}
	return o.K
}

func seqString(ops []Op) string {
	s := make([]string, len(ops))
	for i, o := range ops {
		s[i] = o.String()
	}
	return strings.Join(s, "; ")
}

// value classes: lengths around the 255-byte Uri-Path limit and the 256-byte inline value buffer
// of pool.Message; 300 forces the value buffer to grow in one go.
var valLen = map[string]int{"E": 0, "S": 1, "B8": 8, "B9": 9, "M": 255, "X": 256, "L": 300}

// val materialises a value of the class for the given step: filled with a digit that is unique
// per step, so that two entries written by different steps are always distinguishable (a swapped
// insertion order or a value overwritten by a later edit cannot go unnoticed).
func val(cls string, step int) []byte {
	n, ok := valLen[cls]
	if !ok {
		panic("unknown value class " + cls)
	}
	b := make([]byte, n)
	for i := range b {
		b[i] = byte('0' + step%10)
	}
	return b
}

// uintArg: the numbers in the alphabet leave room so that adding the step keeps the encoded length.
func uintArg(u uint32, step int) uint32 {
	if u == 0 {
		return 0
	}
	return u + uint32(step)
}

func expandPath(p string) string {
	for {
		i := strings.IndexByte(p, '{')
		if i < 0 {
			return p
		}
		j := strings.IndexByte(p[i:], '}') + i
		var n int
		fmt.Sscanf(p[i+1:j], "%d", &n)
		p = p[:i] + strings.Repeat("x", n) + p[j+1:]
	}
}

// presets for ResetOptionsTo (0-2 already ascending; 3 unsorted).
// preset 0: empty; preset 1: 17 short options with repeats (more than the 16-option initial
// capacity of pool.Message, long enough for the binary search to take several steps);
// preset 2: contains a 300-byte value (value-buffer growth inside ResetOptionsTo).
func preset(n, step int) []ent {
	d := byte('0' + step%10)
	mk := func(id message.OptionID, s string) ent { return ent{id, append([]byte(s), d)} }
	switch n {
	case 0:
		return nil
	case 1:
		return []ent{
			mk(4, "e1"), mk(4, "e2"), mk(4, "e3"),
			mk(8, "l1"), mk(8, "l2"), mk(8, "l3"),
			mk(11, "p1"), mk(11, "p2"), mk(11, "p3"),
			{12, []byte{1, d}},
			mk(15, "q1"), mk(15, "q2"), mk(15, "q3"), mk(15, "q4"),
			mk(2000, "z1"), mk(2000, "z2"), mk(2000, "z3"),
		}
	case 2:
		long := make([]byte, 300)
		for i := range long {
			long[i] = d
		}
		return []ent{mk(11, "p"), {15, long}, mk(15, "q")}
	case 3:
		// caller-supplied options that are NOT in ascending order (SetupGet(..., opts...) and
		// ResetOptionsTo accept any list; the result must still be ascending, repeats in input order)
		return []ent{mk(15, "q1"), mk(4, "e1"), mk(2000, "z1"), mk(11, "p1"), mk(4, "e2"), mk(8, "l1"), mk(15, "q2"), mk(11, "p2")}
	}
	panic("unknown preset")
}

func toOptions(in []ent) message.Options {
	out := make(message.Options, 0, len(in))
	for _, e := range in {
		out = append(out, message.Option{ID: e.id, Value: cp(e.val)})
	}
	return out
}

// ids of the alphabet: ETag 4, Location-Path 8, Uri-Path 11, Content-Format 12, Uri-Query 15
// and an unregistered high number; Observe 6 and Accept 17 enter through the typed setters.
var alphaIDs = []uint16{4, 8, 11, 12, 15, 2000}
var miniIDs = []uint16{4, 11, 15, 2000}

// ids probed after every step (the alphabet's ids, the typed setters' ids and both ends).
var queryIDs = []message.OptionID{0, 4, 6, 8, 11, 12, 15, 17, 2000, 65535}

var corePaths = []string{"", "/", "/a//b/", "/{255}", "/{256}", "/{255}/{255}/c"}

// optionsAlphabet: operations on message.Options with an explicit buffer.
//
// core: every structural operation on every id with a short value; the buffer-copying and typed
// variants on a selection of (id, length) pairs that keeps each id and each length present.
// wide: the full product operation x id x value length (explored to a smaller depth).
// mini: the structural operations on four ids (first, Uri-Path, Uri-Query, last) and one
// representative of every other operation and of every length class (explored one step deeper).
func optionsAlphabet(level string) []Op {
	var a []Op
	wide := level == "wide"
	ids := alphaIDs
	if level == "mini" {
		ids = miniIDs
	}
	for _, k := range []string{"Set", "Add"} {
		for _, id := range ids {
			a = append(a, Op{K: k, ID: id, V: "S"})
		}
	}
	for _, id := range ids {
		a = append(a, Op{K: "Remove", ID: id})
	}
	if level == "mini" {
		a = append(a,
			Op{K: "SetBytes", ID: 11, V: "X"}, Op{K: "AddBytes", ID: 11, V: "M"}, Op{K: "AddBytes", ID: 2000, V: "L"},
			Op{K: "SetString", ID: 15, V: "L"}, Op{K: "AddString", ID: 4, V: "E"},
			Op{K: "SetUint32", ID: 12, U: 0x100}, Op{K: "AddUint32", ID: 12, U: 0},
			Op{K: "SetContentFormat", U: 0xfff0}, Op{K: "SetObserve", U: 0xfffff0},
		)
		for _, p := range []string{"", "/", "/a//b/", "/{256}", "/{255}/{255}/c"} {
			a = append(a, Op{K: "SetPath", P: p})
		}
		a = append(a, Op{K: "SetLocationPath", P: "/a/b"}, Op{K: "SetLocationPath", P: "/{256}/a"})
	} else if wide {
		for _, k := range []string{"Set", "Add"} {
			for _, id := range alphaIDs {
				for _, v := range []string{"E", "M", "X", "L"} {
					a = append(a, Op{K: k, ID: id, V: v})
				}
			}
		}
		for _, k := range []string{"SetBytes", "AddBytes", "SetString", "AddString"} {
			for _, id := range alphaIDs {
				for _, v := range []string{"E", "S", "M", "X", "L"} {
					a = append(a, Op{K: k, ID: id, V: v})
				}
			}
		}
		for _, k := range []string{"SetUint32", "AddUint32"} {
			for _, id := range alphaIDs {
				for _, u := range []uint32{0, 0xf0, 0x100, 0xfffff0, 0xfffffff0} {
					a = append(a, Op{K: k, ID: id, U: u})
				}
			}
		}
		for _, u := range []uint32{0, 50, 0xfff0} {
			a = append(a, Op{K: "SetContentFormat", U: u}, Op{K: "SetAccept", U: u})
		}
		for _, u := range []uint32{0, 0xf0, 0xfffff0} {
			a = append(a, Op{K: "SetObserve", U: u})
		}
		for _, p := range []string{"", "/", "a", "/a//b/", "//", "/{254}", "/{255}", "/{256}", "a/{256}/b", "/{255}/{255}/c"} {
			a = append(a, Op{K: "SetPath", P: p}, Op{K: "SetLocationPath", P: p})
		}
	} else {
		a = append(a,
			Op{K: "SetBytes", ID: 11, V: "X"}, Op{K: "SetBytes", ID: 4, V: "L"},
			Op{K: "AddBytes", ID: 11, V: "M"}, Op{K: "AddBytes", ID: 4, V: "E"}, Op{K: "AddBytes", ID: 2000, V: "L"},
			Op{K: "SetString", ID: 15, V: "L"},
			Op{K: "AddString", ID: 8, V: "E"}, Op{K: "AddString", ID: 11, V: "S"}, Op{K: "AddString", ID: 15, V: "M"},
			Op{K: "SetUint32", ID: 12, U: 0}, Op{K: "SetUint32", ID: 2000, U: 0x100},
			Op{K: "AddUint32", ID: 12, U: 0x100},
			Op{K: "SetContentFormat", U: 0xfff0},
			Op{K: "SetObserve", U: 0xfffff0}, Op{K: "SetAccept", U: 50},
		)
		for _, p := range corePaths {
			a = append(a, Op{K: "SetPath", P: p})
		}
		for _, p := range []string{"/a/b", "/{256}/a"} {
			a = append(a, Op{K: "SetLocationPath", P: p})
		}
	}
	for n := 0; n < 4; n++ {
		a = append(a, Op{K: "ResetOptionsTo", N: n})
	}
	// Clone: keep editing the original, the clone is watched; CloneEdit: keep editing the clone,
	// the original is watched.
	a = append(a, Op{K: "Clone"}, Op{K: "CloneEdit"})
	return a
}

// poolAlphabet: operations on the pool.Message builder.
func poolAlphabet(level string) []Op {
	var a []Op
	wide := level == "wide"
	ids := alphaIDs
	if level == "mini" {
		ids = miniIDs
	}
	for _, id := range ids {
		a = append(a, Op{K: "Remove", ID: id})
	}
	if level == "mini" {
		for _, id := range ids {
			a = append(a, Op{K: "SetBytes", ID: id, V: "S"}, Op{K: "AddBytes", ID: id, V: "S"})
		}
		a = append(a,
			Op{K: "SetBytes", ID: 11, V: "X"}, Op{K: "AddBytes", ID: 2000, V: "L"}, Op{K: "AddBytes", ID: 11, V: "M"},
			Op{K: "SetString", ID: 15, V: "L"}, Op{K: "AddString", ID: 4, V: "E"}, Op{K: "AddString", ID: 11, V: "X"},
			Op{K: "SetUint32", ID: 12, U: 0x100}, Op{K: "AddUint32", ID: 12, U: 0}, Op{K: "SetObserve", U: 0xfffff0},
			Op{K: "SetETag", V: "B8"}, Op{K: "AddETag", V: "B9"},
		)
		for _, p := range []string{"", "/", "/a//b/", "/{256}", "/{255}/{255}/c"} {
			a = append(a, Op{K: "SetPath", P: p})
		}
	} else if wide {
		for _, k := range []string{"SetBytes", "AddBytes", "SetString", "AddString"} {
			for _, id := range alphaIDs {
				for _, v := range []string{"E", "S", "M", "X", "L"} {
					a = append(a, Op{K: k, ID: id, V: v})
				}
			}
		}
		for _, k := range []string{"SetUint32", "AddUint32"} {
			for _, id := range alphaIDs {
				for _, u := range []uint32{0, 0xf0, 0x100, 0xfffff0, 0xfffffff0} {
					a = append(a, Op{K: k, ID: id, U: u})
				}
			}
		}
		for _, u := range []uint32{0, 50, 0xfff0} {
			a = append(a, Op{K: "SetContentFormat", U: u}, Op{K: "SetAccept", U: u})
		}
		for _, u := range []uint32{0, 0xf0, 0xfffff0} {
			a = append(a, Op{K: "SetObserve", U: u})
		}
		for _, p := range []string{"", "/", "a", "/a//b/", "//", "/{254}", "/{255}", "/{256}", "a/{256}/b", "/{255}/{255}/c"} {
			a = append(a, Op{K: "SetPath", P: p})
		}
		a = append(a, Op{K: "MustSetPath", P: "/a/b"}, Op{K: "MustSetPath", P: "/{255}/b"})
		for _, v := range []string{"E", "S", "M", "X", "L"} {
			a = append(a, Op{K: "AddQuery", V: v})
		}
		for _, v := range []string{"E", "S", "B8", "B9"} {
			a = append(a, Op{K: "SetETag", V: v}, Op{K: "AddETag", V: v})
		}
	} else {
		for _, id := range alphaIDs {
			a = append(a, Op{K: "SetBytes", ID: id, V: "S"}, Op{K: "AddBytes", ID: id, V: "S"})
		}
		a = append(a,
			Op{K: "SetBytes", ID: 11, V: "X"}, Op{K: "SetBytes", ID: 4, V: "L"},
			Op{K: "AddBytes", ID: 11, V: "M"}, Op{K: "AddBytes", ID: 2000, V: "L"},
			Op{K: "SetString", ID: 11, V: "X"}, Op{K: "SetString", ID: 15, V: "L"},
			Op{K: "AddString", ID: 8, V: "E"}, Op{K: "AddString", ID: 11, V: "S"},
			Op{K: "SetUint32", ID: 12, U: 0}, Op{K: "SetUint32", ID: 2000, U: 0x100},
			Op{K: "AddUint32", ID: 12, U: 0x100},
			Op{K: "SetContentFormat", U: 0xfff0}, Op{K: "SetObserve", U: 0xfffff0}, Op{K: "SetAccept", U: 50},
			Op{K: "AddQuery", V: "S"}, Op{K: "SetETag", V: "B8"}, Op{K: "AddETag", V: "B9"},
		)
		for _, p := range corePaths {
			a = append(a, Op{K: "SetPath", P: p})
		}
	}
	for n := 0; n < 4; n++ {
		a = append(a, Op{K: "ResetOptionsTo", N: n})
	}
	a = append(a, Op{K: "ResetOptionsToOwn", N: 0}, Op{K: "ResetOptionsToOwn", N: 1})
	// Clone: copy the edited message A into the second message B (created on first use, later
	// reused without Reset); Swap: continue editing the other message; Reset: message reset + reuse.
	a = append(a, Op{K: "Clone"}, Op{K: "Swap"}, Op{K: "Reset"})
	return a
}

package main

import (
	"verif/ev"
	"verif/mcx"
)

// runConn adds the connection-level scenarios (filled in with the udp-conn world).
func runConn(r *ev.Run, scs *[]*mcx.Scenario) {}

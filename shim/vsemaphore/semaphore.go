// Copyright 2017 The Go Authors. All rights reserved.
// Use of this source code is governed by a BSD-style
// license that can be found in the LICENSE file.

// Package semaphore provides a weighted semaphore implementation.
package semaphore

import (
	"container/list"
	"context"
	"sync"
)

type waiter struct {
	n     int64
	ready chan<- struct{} // Closed when semaphore acquired.
}

// NewWeighted creates a new weighted semaphore with the given
// maximum combined weight for concurrent access.
func NewWeighted(n int64) *Weighted {
	w := &Weighted{size: n}
	return w
}

// Weighted provides a way to bound concurrent access to a resource.
// The callers can request access with a given weight.
type Weighted struct {
	size    int64
	cur     int64
	mu      sync.Mutex
	waiters list.List
}

// Acquire acquires the semaphore with a weight of n, blocking until resources
// are available or ctx is done. On success, returns nil. On failure, returns
// ctx.Err() and leaves the semaphore unchanged.
func (s *Weighted) Acquire(ctx context.Context, n int64) error {
	done := ctx.Done()

	s.mu.Lock()
	select {
	case <-done:
		// ctx becoming done has "happened before" acquiring the semaphore,
		// whether it became done before the call began or while we were
		// waiting for the mutex. We prefer to fail even if we could acquire
		// the mutex without blocking.
		s.mu.Unlock()
		return ctx.Err()
	default:
	}
	if s.size-s.cur >= n && s.waiters.Len() == 0 {
		// Since we hold s.mu and haven't synchronized since checking done, if
		// ctx becomes done before we return here, it becoming done must have
		// "happened concurrently" with this call - it cannot "happen before"
		// we return in this branch. So, we're ok to always acquire here.
		s.cur += n
		s.mu.Unlock()
		return nil
	}

	if n > s.size {
		// Don't make other Acquire calls block on one that's doomed to fail.
		s.mu.Unlock()
		<-done
		return ctx.Err()
	}

	ready := make(chan struct{})
	w := waiter{n: n, ready: ready}
	elem := s.waiters.PushBack(w)
	s.mu.Unlock()

	select {
	case <-done:
		s.mu.Lock()
		select {
		case <-ready:
			// Acquired the semaphore after we were canceled.
			// Pretend we didn't and put the tokens back.
			s.cur -= n
			s.notifyWaiters()
		default:
			isFront := s.waiters.Front() == elem
			s.waiters.Remove(elem)
			// If we're at the front and there're extra tokens left, notify other waiters.
			if isFront && s.size > s.cur {
				s.notifyWaiters()
			}
		}
		s.mu.Unlock()
		return ctx.Err()

	case <-ready:
		// Acquired the semaphore. Check that ctx isn't already done.
		// We check the done channel instead of calling ctx.Err because we
		// already have the channel, and ctx.Err is O(n) with the nesting
		// depth of ctx.
		select {
		case <-done:
			s.Release(n)
			return ctx.Err()
		default:
		}
		return nil
	}
}

// TryAcquire acquires the semaphore with a weight of n without blocking.
// On success, returns true. On failure, returns false and leaves the semaphore unchanged.
func (s *Weighted) TryAcquire(n int64) bool {
	s.mu.Lock()
	success := s.size-s.cur >= n && s.waiters.Len() == 0
	if success {
		s.cur += n
	}
	s.mu.Unlock()
	return success
}

// Release releases the semaphore with a weight of n.
func (s *Weighted) Release(n int64) {
	s.mu.Lock()
	s.cur -= n
	if s.cur < 0 {
		s.mu.Unlock()
		panic("semaphore: released more than held")
	}
	s.notifyWaiters()
	s.mu.Unlock()
}

func (s *Weighted) notifyWaiters() {
	for {
		next := s.waiters.Front()
		if next == nil {
			break // No more waiters blocked.
		}

		w := next.Value.(waiter)
		if s.size-s.cur < w.n {
			// Not enough tokens for the next waiter.  We could keep going (to try to
			// find a waiter with a smaller request), but under load that could cause
			// starvation for large requests; instead, we leave all remaining waiters
			// blocked.
			//
			// Consider a semaphore used as a read-write lock, with N tokens, N
			// readers, and one writer.  Each reader can Acquire(1) to obtain a read
			// lock.  The writer can Acquire(N) to obtain a write lock, excluding all
			// of the readers.  If we allow the readers to jump ahead in the queue,
			// the writer will starve — there is always one token available for every
			// reader.
			break
		}

		s.cur += w.n
		s.waiters.Remove(next)
		close(w.ready)
	}
}

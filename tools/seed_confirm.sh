#!/bin/bash
# tools/seed_confirm.sh <ID> <n> <pkgdir> <TestRegex> : confirm a seeded change in its scratch worktree:
# demo fails with the change, passes without; build ok; pinned suite passes with the change.
ID=$1; N=$2; PKG=$3; RX=$4
WT=/tmp/wt/$ID; S=${SEEDDIR:-/tmp/seed}/$ID
export GOFLAGS=-mod=mod GOPROXY=off
cd $WT || exit 2
git checkout -q -- . ; git clean -fdq
cp $S/demo${N}_test.go $WT/$PKG/zz_seed_${N}_test.go
echo "--- demo without change"; go test -vet=off -count=1 -run "$RX" ./$PKG/ 2>&1 | tail -3
git apply $S/change$N.diff || { echo "PATCH DOES NOT APPLY"; exit 2; }
echo "--- build with change"; go build ./... && echo build-ok
echo "--- demo with change"; go test -vet=off -count=1 -run "$RX" ./$PKG/ 2>&1 | tail -6
rm -f $WT/$PKG/zz_seed_${N}_test.go
echo "--- pinned suite with change"; /verif/tools/baseline.sh $WT
git checkout -q -- . ; git clean -fdq

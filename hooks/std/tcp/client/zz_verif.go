//go:build verif

package client

// VerifSizes: read-only sizes of the per-exchange tables (verification overlay only).
func (cc *Conn) VerifSizes() map[string]int {
	m := map[string]int{
		"tokenHandlers": cc.tokenHandlerContainer.Length(),
		"observations":  cc.observationHandler.VerifSize(),
	}
	if cc.blockWise != nil {
		s, r := cc.blockWise.VerifSizes()
		m["blockwiseSending"], m["blockwiseReceiving"] = s, r
	}
	q, w, p := cc.Client.LimitParallelRequests.VerifSizes()
	m["limiterQueues"], m["limiterWaiters"], m["limiterProcessed"] = q, w, int(p)
	return m
}

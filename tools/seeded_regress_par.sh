#!/bin/bash
# tools/seeded_regress_par.sh [-j N] [seed-dir-names...]: like seeded_regress.sh, but every seeded change is applied to
# its own scratch worktree of /repo (tools/seed_check_alt.sh) so that N seeds run side by side and /repo is never touched.
cd /verif
J=3; [ "$1" = "-j" ] && { J=$2; shift 2; }
OUT=${OUT:-seeded/RESULTS.md}
seeds=${@:-$(ls seeded | grep -E '^C[0-9]+-[0-9]+$' | sort -V)}
T=$(mktemp -d /tmp/regress.XXXXXX)
mkdir -p .build/alt-root; cp known_findings.json .build/alt-root/
one() {
  sd=$1
  id=$(python3 -c "
import json,re
m=json.load(open('seeded/$sd/meta.json'))
print(re.match(r'\s*(C\d+)',m['detection']['caught_by']).group(1))")
  out=$(tools/seed_check_alt.sh seeded/$sd/patch.diff $id 2>&1)
  rc=$(echo "$out" | sed -n 's/^== .* exit=//p' | head -1)
  sigs=$(echo "$out" | grep "signature:" | sed 's/.*signature: //' | sort -u | head -4 | paste -sd';' | cut -c1-160)
  echo "| $sd | $id | ${rc:-patch does not apply} | $sigs |" > $T/$sd.row
}
export -f one; export T
echo $seeds | tr ' ' '\n' | xargs -P $J -I{} bash -c 'one {}'
{
echo "# Seeded changes against the current checks (quick tier)"
echo
echo "Produced by tools/seeded_regress_par.sh on $(date -u +%Y-%m-%dT%H:%MZ), /repo at $(git -C /repo log --format=%h -1), /verif at $(git log --format=%h -1); each change applied to a scratch worktree of /repo."
echo
echo "| seed | check | exit | signatures reported |"
echo "|---|---|---|---|"
for sd in $seeds; do cat $T/$sd.row; done
echo
echo "seeds not reported as a violation by their check: $(for sd in $seeds; do cat $T/$sd.row; done | awk -F'|' '$4 !~ /^ 1 $/' | wc -l)"
} > $OUT
rm -rf $T
tail -2 $OUT

#!/bin/bash
# tools/seed_check.sh <seed-ID> <n> <check IDs...> : apply the seeded change to /repo, run the quick checks, undo.
ID=$1; N=$2; shift 2
P=${SEEDDIR:-/tmp/seed}/$ID/change$N.diff; [ -f "$P" ] || P=/verif/seeded/$ID-$N/patch.diff
/verif/tools/mutant.sh $P "$@"

#!/bin/bash
# tools/baseline.sh [repo-dir]: runs the repository's pinned test suite and compares with BASELINE.json stable_pass.
# exit 0 iff every stable_pass test passed.
R=${1:-/repo}
export GOFLAGS=-mod=mod GOPROXY=off
OUT=$(mktemp /tmp/baseline.XXXXXX.json)
(cd $R && go test -json -vet=off -count=1 -timeout 25m ./... > $OUT 2>/dev/null)
python3 - "$OUT" <<'PY'
import json,sys
passed=set();failed=set()
for l in open(sys.argv[1]):
    try: e=json.loads(l)
    except: continue
    if e.get('Test') and e.get('Action') in('pass','fail'):
        (passed if e['Action']=='pass' else failed).add(e['Package']+'::'+e['Test'])
sp=set(json.load(open('/root/.vp/BASELINE.json'))['stable_pass'])
missing=sorted(sp-passed)
print(f"baseline: stable_pass={len(sp)} passed_now={len(passed&sp)} missing_or_failed={len(missing)}")
for m in missing[:30]: print("  NOT PASSING:",m)
sys.exit(1 if missing else 0)
PY
rc=$?; rm -f $OUT; exit $rc

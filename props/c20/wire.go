package main

import "verif/ev"

// runWire is filled in by the connection-level world (E2).
func runWire(r *ev.Run) {}

package main

import (
	"bytes"
	"fmt"
	"net"

	"github.com/plgd-dev/go-coap/v3/message"
	"github.com/plgd-dev/go-coap/v3/message/codes"
	"github.com/plgd-dev/go-coap/v3/mux"
	"github.com/plgd-dev/go-coap/v3/options"
	"github.com/plgd-dev/go-coap/v3/udp/server"

	"verif/mcx"
	"verif/vrt"
	"verif/worlds/srvw"
)

// Two peers of a server whose handler is a router with a parametrised route (the real options.WithMux wiring). The
// handler of the first peer is still running when the second peer's request is dispatched: each peer is answered
// with the route variable of its own request - what a handler sees of its request never changes under it.
func muxPeersScenario(preempt int) *mcx.Scenario {
	name := fmt.Sprintf("udp-server with a router (options.WithMux), route /v/{id}: two peers whose handlers overlap, preempt<=%d", preempt)
	return &mcx.Scenario{
		Name:   name,
		Bounds: mcx.Bounds{Preempt: preempt, Env: -1, Select: 0, Delay: 1},
		Opt:    vrt.Options{MaxSteps: 600000},
		Body: func(s *vrt.Sched) func() (string, []mcx.Finding) {
			var fs []mcx.Finding
			fail := func(sig, format string, a ...any) {
				fs = append(fs, mcx.Finding{Sig: sig, What: name + ": " + fmt.Sprintf(format, a...)})
			}
			var u *srvw.UDP
			out := ""
			vrt.App("env", func() {
				gate := false
				r := mux.NewRouter()
				_ = r.Handle("/v/{id}", mux.HandlerFunc(func(w mux.ResponseWriter, m *mux.Message) {
					before := m.RouteParams.Vars["id"]
					if bytes.Equal(m.Token(), message.Token{0xA1}) {
						vrt.WaitUntil("handler of the first peer is busy", func() bool { return gate })
					}
					after := m.RouteParams.Vars["id"]
					_ = w.SetResponse(codes.Content, message.TextPlain, bytes.NewReader([]byte(before+"|"+after+"|"+m.RouteParams.PathTemplate)))
				}))
				u = srvw.NewUDP(srvw.UDPOpts{Extra: []server.Option{options.WithMux(r)}})
				P := &net.UDPAddr{IP: net.IPv4(10, 0, 0, 11), Port: 40001}
				Q := &net.UDPAddr{IP: net.IPv4(10, 0, 0, 12), Port: 40001}
				vrt.Quiesce("env: server up")
				get := func(tok byte, id string) []byte {
					return srvw.EncodeUDP(message.Message{Type: message.Confirmable, Code: codes.GET, MessageID: int32(tok), Token: message.Token{tok},
						Options: message.Options{{ID: message.URIPath, Value: []byte("v")}, {ID: message.URIPath, Value: []byte(id)}}})
				}
				u.Send(P, get(0xA1, "alpha"))
				vrt.Quiesce("env: first handler busy")
				u.Send(Q, get(0xB2, "beta"))
				vrt.Quiesce("env: second request handled")
				gate = true
				vrt.Quiesce("env: first handler done")
				got := map[string]string{}
				for _, o := range u.NewOuts() {
					if m, err := srvw.DecodeUDP(o.Data); err == nil && m.Code == codes.Content {
						got[o.To.String()] = string(m.Payload)
					}
				}
				out = fmt.Sprint(got)
				if got[P.String()] != "alpha|alpha|/v/{id}" {
					fail("mux/peer-answered-with-another-peers-route-variable", "the first peer asked for /v/alpha and was answered %q (the second peer asked for /v/beta meanwhile and got %q)", got[P.String()], got[Q.String()])
				}
				if got[Q.String()] != "beta|beta|/v/{id}" {
					fail("mux/peer-answered-with-another-peers-route-variable", "the second peer asked for /v/beta and was answered %q", got[Q.String()])
				}
				if u.ServeDone {
					fail("serve-returned", "Serve returned (%v) although the server was not stopped", u.ServeErr)
				}
				u.S.Stop()
				vrt.Quiesce("env: stopped")
			})
			return func() (string, []mcx.Finding) {
				if u != nil {
					u.Cleanup()
				}
				return out, fs
			}
		},
	}
}

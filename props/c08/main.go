// C08 — observers only ever see a resource move forward in time.
// Part 1 (E1): the freshness predicate over every sequence-number pair around the boundaries and
// every inter-arrival time around 128 s, against RFC 7641 §3.4 written as a formula.
// Part 2 (E2): notification streams on a real udp/client.Conn: every registration answer, every
// sequence of notifications over a boundary alphabet with virtual inter-arrival times, cancel at
// every position, two simultaneous observations with cross-token notifications.
package main

import (
	"bytes"
	"context"
	"fmt"
	"runtime"
	"strings"
	"sync/atomic"
	"time"

	"github.com/plgd-dev/go-coap/v3/message"
	"github.com/plgd-dev/go-coap/v3/message/codes"
	"github.com/plgd-dev/go-coap/v3/message/pool"
	"github.com/plgd-dev/go-coap/v3/net/observation"
	"github.com/plgd-dev/go-coap/v3/net/responsewriter"
	"github.com/plgd-dev/go-coap/v3/options/config"
	"github.com/plgd-dev/go-coap/v3/udp/client"

	"verif/ev"
	"verif/mcx"
	"verif/vrt"
	"verif/worlds/tcpw"
	"verif/worlds/track"
	"verif/worlds/udpw"
)

// RFC 7641 §3.4: V1/T1 last delivered, V2/T2 incoming.
func fresh(v1, v2 uint32, dt time.Duration) bool {
	return (v1 < v2 && v2-v1 < 1<<23) || (v1 > v2 && v1-v2 > 1<<23) || dt > 128*time.Second
}

var boundary = []uint32{0, 1, 2, 1<<23 - 1, 1 << 23, 1<<23 + 1, 1<<24 - 2, 1<<24 - 1}

func runPredicate(r *ev.Run) {
	dts := []time.Duration{0, 127 * time.Second, 128 * time.Second, 128*time.Second + 1, 129 * time.Second}
	var evals, nontriv atomic.Int64
	t0 := time.Date(2030, 1, 1, 0, 0, 0, 0, time.UTC)
	nw := runtime.NumCPU()
	ev.Parallel(nw, func(sh int) {
		var n, nt int64
		for v2 := uint32(sh); v2 < 1<<24; v2 += uint32(nw) {
			for _, v1 := range boundary {
				for _, dt := range dts {
					want := fresh(v1, v2, dt)
					got := observation.ValidSequenceNumber(v1, v2, t0, t0.Add(dt))
					n++
					if want {
						nt++
					}
					if got != want {
						kind := "stale-accepted"
						if want {
							kind = "fresh-rejected"
						}
						r.Violate("predicate/"+kind, fmt.Sprintf("ValidSequenceNumber(old=%d, new=%d, dt=%v) = %v, RFC 7641 §3.4 says %v", v1, v2, dt, got, want), map[string]any{"old": v1, "new": v2, "dt_ns": int64(dt)})
					}
				}
			}
		}
		evals.Add(n)
		nontriv.Add(nt)
	})
	r.Set("predicate_evaluations", evals.Load())
	r.Set("predicate_fresh_cases", nontriv.Load())
	r.Sample(map[string]any{"part": "predicate", "old": 1<<24 - 1, "new": 0, "dt": "0s", "rfc_fresh": true})
}

// ---------------------------------------------------------------- stream part

type cfg struct {
	Reg        string // "205obs" "205" "203obs" "404" "none"
	Depth      int
	Two        bool // two simultaneous observations, notifications for either token
	Preempt    int
	CON        bool // notifications are confirmable
	DeregFails bool // the peer never answers the deregistration request: Cancel ends with its (virtual) deadline
	ETag       bool // every registration answer and notification carries the same ETag (a re-confirmed, unchanged representation)
	TCP        bool // the same notification streams on a real tcp/client.Conn (Session.Run read loop over an in-memory stream)
	CancelInCb bool // the cancel command is carried out by the observation's own callback, at its next notification (Cancel called from inside the callback)
	Conc       bool // every received message is processed in its own thread (exported ProcessReceivedMessage option); notifications injected back to back
}

func (c cfg) String() string {
	d := ""
	if c.DeregFails {
		d = " deregistration-unanswered"
	}
	if c.TCP {
		d += " transport=tcp"
	}
	if c.ETag {
		d += " same-etag"
	}
	if c.CancelInCb {
		d += " cancel-from-inside-the-callback"
	}
	return fmt.Sprintf("observe reg=%s depth=%d two=%v con-notifications=%v concurrent-processing=%v preempt<=%d%s", c.Reg, c.Depth, c.Two, c.CON, c.Conc, c.Preempt, d)
}

var seqAlphabet = []uint32{0, 1, 2, 1 << 23, 1<<23 + 1, 1<<24 - 1}
var dtAlphabet = []time.Duration{0, 127 * time.Second, 129 * time.Second}

type obsState struct {
	token         message.Token
	regDone       bool
	regErr        error
	cancelReq     bool
	cancelDone    bool
	cancelErr     error
	log           []string // payloads seen by the callback
	ocancel       func(context.Context) error
	cancelStarted bool
}

func scenario(c cfg) *mcx.Scenario {
	return &mcx.Scenario{
		Name:   c.String(),
		Bounds: mcx.Bounds{Preempt: c.Preempt, Env: -1, Select: 0},
		Body: func(s *vrt.Sched) func() (string, []mcx.Finding) {
			var hist []string
			var fs []mcx.Finding
			fail := func(sig, format string, a ...any) {
				fs = append(fs, mcx.Finding{Sig: sig, What: c.String() + ": " + fmt.Sprintf(format, a...) + "; history [" + strings.Join(hist, " ") + "]"})
			}
			nobs := 1
			if c.Two {
				nobs = 2
			}
			obs := make([]*obsState, nobs)
			delivered := 0
			finishing := false
			vrt.App("peer", func() {
				uo := udpw.Opts{NStart: 4, MaxRetransmit: 0, LimitTotal: 8, LimitEndpoint: 8, QueueSize: 4,
					Handler: func(_ *responsewriter.ResponseWriter[*client.Conn], r *pool.Message) {}}
				if c.Conc {
					uo.Process = func(req *pool.Message, cc *client.Conn, h config.HandlerFunc[*client.Conn]) {
						vrt.Lib("process-msg", func() { cc.ProcessReceivedMessageWithHandler(req, h) })
					}
				}
				type worldT struct {
					observe func(ctx context.Context, path string, cb func(*pool.Message)) (func(context.Context) error, error)
					inject  func(m message.Message) error
					outs    func() []message.Message
					peerMID func() int32
					tick    func()
				}
				var w worldT
				if c.TCP {
					tw := tcpw.New(tcpw.Opts{LimitTotal: 8, LimitEndpoint: 8, QueueSize: 4, DisableCSM: true})
					pm := int32(0)
					w = worldT{
						observe: func(ctx context.Context, path string, cb func(*pool.Message)) (func(context.Context) error, error) {
							o, err := tw.CC.Observe(ctx, path, cb)
							if err != nil {
								return nil, err
							}
							return func(ctx context.Context) error { return o.Cancel(ctx) }, nil
						},
						inject: func(m message.Message) error { m.Type, m.MessageID = 0, 0; tw.Inject(m); return nil },
						outs: func() []message.Message {
							ms := tw.NewOuts()
							for i := range ms {
								ms[i].Type = message.NonConfirmable
							}
							return ms
						},
						peerMID: func() int32 { pm++; return pm },
						tick:    func() { tw.CC.CheckExpirations(vrt.Now()) },
					}
				} else {
					uw := udpw.New(uo)
					w = worldT{
						observe: func(ctx context.Context, path string, cb func(*pool.Message)) (func(context.Context) error, error) {
							o, err := uw.CC.Observe(ctx, path, cb)
							if err != nil {
								return nil, err
							}
							return func(ctx context.Context) error { return o.Cancel(ctx) }, nil
						},
						inject: uw.Inject,
						outs: func() []message.Message {
							var ms []message.Message
							for _, o := range uw.NewOuts() {
								ms = append(ms, o.M)
							}
							return ms
						},
						peerMID: uw.PeerMID,
						tick:    func() { uw.CC.CheckExpirations(vrt.Now()) },
					}
				}
				ctxs := make([]context.CancelFunc, nobs)
				for i := range obs {
					i := i
					obs[i] = &obsState{}
					ctx, cancel := context.WithCancel(context.Background())
					ctxs[i] = cancel
					vrt.App(fmt.Sprintf("observer%d", i), func() {
						ocancel, err := w.observe(ctx, fmt.Sprintf("/obs%d", i), func(n *pool.Message) {
							track.Hold(n, "notification inside a callback")
							defer track.Unhold(n)
							b, _ := n.ReadBody()
							obs[i].log = append(obs[i].log, string(b))
							if c.CancelInCb && obs[i].cancelReq && !obs[i].cancelStarted && obs[i].ocancel != nil {
								// the application ends the observation from inside its callback
								obs[i].cancelStarted = true
								obs[i].cancelErr = obs[i].ocancel(context.Background())
								obs[i].cancelDone = true
							}
						})
						obs[i].regErr, obs[i].regDone = err, true
						if err != nil {
							return
						}
						obs[i].ocancel = ocancel
						vrt.WaitUntil("observer waits for the cancel command", func() bool {
							return obs[i].cancelReq && (!c.CancelInCb || finishing || obs[i].cancelStarted)
						})
						if obs[i].cancelStarted {
							vrt.WaitUntil("observer waits for the cancel issued by its callback", func() bool { return obs[i].cancelDone })
							return
						}
						obs[i].cancelStarted = true
						cctx, ccancel := context.Background(), context.CancelFunc(func() {})
						if c.DeregFails {
							cctx, ccancel = vrt.WithTimeout(context.Background(), 5*time.Second)
						}
						obs[i].cancelErr = ocancel(cctx)
						ccancel()
						obs[i].cancelDone = true
					})
				}
				// reference state per observation: last delivered (V,T)
				type ref struct {
					have bool
					v    uint32
					t    time.Time
				}
				refs := make([]ref, nobs)
				type note struct {
					obs          int
					v            uint32
					t            time.Time
					afterEnd     bool // injected after Cancel returned / registration failed
					isReg        bool
					hasObserveOp bool
				}
				notes := map[string]note{}
				nid := 0
				checked := make([]int, nobs)
				// after every settle: account for what the callbacks saw since the last look
				account := func() {
					for i, o := range obs {
						for ; checked[i] < len(o.log); checked[i]++ {
							p := o.log[checked[i]]
							n, ok := notes[p]
							if !ok {
								fail("callback-unknown-notification", "observation %d callback got payload %q that was never injected", i, p)
								continue
							}
							delivered++
							if n.obs != i {
								fail("notification-for-foreign-token", "observation %d callback got a notification injected for observation %d", i, n.obs)
								continue
							}
							if n.afterEnd {
								fail("notification-after-cancel-or-failed-registration", "observation %d callback got %q injected after the observation had ended", i, p)
							}
							if !n.hasObserveOp {
								continue // responses without Observe option carry no ordering information
							}
							if refs[i].have && !fresh(refs[i].v, n.v, n.t.Sub(refs[i].t)) {
								fail("stale-notification-delivered", "observation %d callback got seq=%d at +%v although the last delivered was seq=%d at +%v (not fresher per RFC 7641 §3.4)", i, n.v, n.t.Sub(vrtStart), refs[i].v, refs[i].t.Sub(vrtStart))
							}
							refs[i] = ref{true, n.v, n.t}
						}
					}
				}
				mkNote := func(i int, tok message.Token, typ message.Type, mid int32, code codes.Code, withObs bool, v uint32, isReg bool) message.Message {
					nid++
					p := fmt.Sprintf("n%d", nid)
					ended := obs[i].cancelDone || (obs[i].regDone && obs[i].regErr != nil)
					notes[p] = note{obs: i, v: v, t: vrt.Now(), afterEnd: ended && !isReg, isReg: isReg, hasObserveOp: withObs}
					m := message.Message{Type: typ, MessageID: mid, Code: code, Token: tok, Payload: []byte(p)}
					if withObs {
						bo := make([]byte, 4)
						m.Options, _, _ = message.Options{}.SetUint32(bo, message.Observe, v)
					}
					if c.ETag {
						m.Options = append(message.Options{{ID: message.ETag, Value: []byte{0xE7}}}, m.Options...)
					}
					return m
				}
				regAnswered := make([]bool, nobs)
				deregSeen := make([]bool, nobs)
				cancelsIssued := 0
				foreignSent := 0
				serve := func() {
					for _, om := range w.outs() {
						o := struct{ M message.Message }{om}
						if o.M.Code != codes.GET {
							continue
						}
						ov, err := o.M.Options.GetUint32(message.Observe)
						if err != nil {
							continue
						}
						idx := -1
						for i := range obs {
							if obs[i].token == nil && ov == 0 {
								p, _ := o.M.Options.Path()
								if p == fmt.Sprintf("/obs%d", i) {
									obs[i].token = o.M.Token
								}
							}
							if string(obs[i].token) == string(o.M.Token) {
								idx = i
							}
						}
						if idx < 0 {
							continue
						}
						ackOrNon := func(code codes.Code, withObs bool, v uint32, isReg bool) message.Message {
							typ, mid := message.NonConfirmable, w.peerMID()
							if o.M.Type == message.Confirmable {
								typ, mid = message.Acknowledgement, o.M.MessageID
							}
							return mkNote(idx, o.M.Token, typ, mid, code, withObs, v, isReg)
						}
						if ov == 0 && !regAnswered[idx] {
							regAnswered[idx] = true
							switch c.Reg {
							case "205obs":
								_ = w.inject(ackOrNon(codes.Content, true, 1, true))
							case "203obs":
								_ = w.inject(ackOrNon(codes.Valid, true, 1, true))
							case "205":
								_ = w.inject(ackOrNon(codes.Content, false, 0, true))
							case "404":
								_ = w.inject(ackOrNon(codes.NotFound, false, 0, true))
							case "204obs":
								_ = w.inject(ackOrNon(codes.Changed, true, 1, true))
							case "201obs":
								_ = w.inject(ackOrNon(codes.Created, true, 1, true))
							case "none":
								if o.M.Type == message.Confirmable {
									_ = w.inject(message.Message{Type: message.Acknowledgement, Code: codes.Empty, MessageID: o.M.MessageID})
								}
								ctxs[idx]() // the caller gives up
							}
							hist = append(hist, fmt.Sprintf("reg%d:%s", idx, c.Reg))
						}
						if ov == 1 && !deregSeen[idx] {
							deregSeen[idx] = true
							if et, eerr := o.M.Options.GetBytes(message.ETag); c.ETag && eerr == nil && !bytes.Equal(et, []byte{0xE7}) {
								// the entity tag a deregistration carries is one the peer sent on this observation - not bytes of a
								// notification buffer that went back to the pool (and was poisoned or refilled) in the meantime
								fail("pool/deregistration-carries-foreign-etag", "the deregistration of observation %d carries ETag %x; every message of the peer carried e7", idx, et)
							}
							if !c.DeregFails {
								_ = w.inject(ackOrNon(codes.Content, false, 0, true))
							}
						}
					}
				}
				for step := 0; ; step++ {
					vrt.Quiesce("peer: settle")
					account()
					serve()
					vrt.Quiesce("peer: settle after answers")
					account()
					if step >= c.Depth {
						break
					}
					// choose the next event
					type evt struct {
						kind string
						i    int
						v    uint32
						dt   time.Duration
					}
					var evs []evt
					evs = append(evs, evt{kind: "stop"})
					for i := range obs {
						if !regAnswered[i] || obs[i].token == nil {
							continue
						}
						sa, da := seqAlphabet, dtAlphabet
						if c.Two {
							sa, da = []uint32{2, 1}, []time.Duration{0, 129 * time.Second} // the point of this family is the token, not the boundary
						}
						for _, v := range sa {
							for _, dt := range da {
								evs = append(evs, evt{"notify", i, v, dt})
							}
						}
						if !c.Two && foreignSent < 1 {
							evs = append(evs, evt{kind: "notify-zero-padded-token", i: i, v: 2})
						}
						if obs[i].regDone && obs[i].regErr == nil && !obs[i].cancelReq && cancelsIssued < 1 {
							evs = append(evs, evt{kind: "cancel", i: i})
						}
					}
					e := evs[vrt.Choose(len(evs), nil)]
					if e.kind == "stop" {
						break
					}
					switch e.kind {
					case "notify":
						hist = append(hist, fmt.Sprintf("notify%d(seq=%d,+%v)", e.i, e.v, e.dt))
						vrt.Advance(e.dt)
						typ := message.NonConfirmable
						if c.CON {
							typ = message.Confirmable
						}
						_ = w.inject(mkNote(e.i, obs[e.i].token, typ, w.peerMID(), codes.Content, true, e.v, false))
						if c.Conc {
							// a duplicate (same sequence number, same instant) right behind it, processed concurrently
							hist = append(hist, fmt.Sprintf("dup%d(seq=%d)", e.i, e.v))
							_ = w.inject(mkNote(e.i, obs[e.i].token, typ, w.peerMID(), codes.Content, true, e.v, false))
						}
					case "notify-zero-padded-token":
						// a fresh notification for a DIFFERENT token: the observation's token with a leading zero byte
						foreignSent++
						hist = append(hist, fmt.Sprintf("notify%d(token 00||own)", e.i))
						typ := message.NonConfirmable
						if c.CON {
							typ = message.Confirmable
						}
						ft := append(message.Token{0x00}, obs[e.i].token...)
						m := mkNote(e.i, ft, typ, w.peerMID(), codes.Content, true, 1<<22, false)
						nt := notes[string(m.Payload)]
						nt.obs = -1
						notes[string(m.Payload)] = nt
						_ = w.inject(m)
					case "cancel":
						hist = append(hist, fmt.Sprintf("cancel%d", e.i))
						cancelsIssued++
						obs[e.i].cancelReq = true
						if c.DeregFails {
							// the deregistration request goes unanswered; Cancel returns with its deadline
							vrt.Quiesce("peer: deregistration on the wire")
							serve()
							vrt.Advance(6 * time.Second)
							w.tick()
							vrt.Quiesce("peer: cancel returned")
							if !obs[e.i].cancelDone {
								fail("cancel-did-not-return", "Cancel has not returned 1 s after its deadline")
							}
						}
					}
				}
				// registration outcome
				for i, o := range obs {
					if !o.regDone {
						continue
					}
					ok := c.Reg == "205obs" || c.Reg == "203obs" || c.Reg == "205"
					if o.regErr == nil && !ok {
						fail("registration-succeeded-on-wrong-answer", "Observe(%d) returned success although the answer was %s", i, c.Reg)
					}
				}
				vrt.Metric("notifications_delivered_in_one_stream", int64(delivered))
				finishing = true
				for _, o := range obs {
					o.cancelReq = true // let observers finish so the execution ends without parked application threads
				}
				for k := 0; k < 4; k++ {
					vrt.Quiesce("peer: final drain")
					serve()
					if c.DeregFails && k == 1 {
						vrt.Advance(6 * time.Second) // the final Cancel is not answered either: its deadline ends it
						w.tick()
					}
				}
				account()
				for i := range ctxs {
					_ = i
				}
			})
			return func() (string, []mcx.Finding) {
				var out []string
				for _, o := range obs {
					if o != nil {
						out = append(out, fmt.Sprintf("%v/%v/%v|%s", o.regDone, o.regErr != nil, o.cancelDone, strings.Join(o.log, ",")))
					}
				}
				return strings.Join(hist, " ") + "|" + strings.Join(out, ";"), fs
			}
		},
	}
}

var vrtStart = time.Date(2030, 1, 1, 0, 0, 0, 0, time.UTC)

func main() {
	r := ev.Start("C08", "model_checking")
	if !mcx.IsWorker() && ev.Arg("replay") == "" {
		runPredicate(r)
	}
	var scs []*mcx.Scenario
	d := ev.Pick(r, 3, 4)
	if r.Lite() {
		d = 2
	}
	scs = append(scs, scenario(cfg{Reg: "205obs", Depth: d}))
	scs = append(scs, scenario(cfg{Reg: "205obs", Depth: d - 1, CON: true}))
	for _, reg := range []string{"203obs", "205", "404", "none", "204obs", "201obs"} {
		scs = append(scs, scenario(cfg{Reg: reg, Depth: 2}))
	}
	scs = append(scs, scenario(cfg{Reg: "205obs", Depth: ev.Pick(r, 2, 3), Two: true}))
	scs = append(scs, scenario(cfg{Reg: "205obs", Depth: ev.Pick(r, 3, 4), Two: true, CancelInCb: true}))
	scs = append(scs, scenario(cfg{Reg: "205obs", Depth: ev.Pick(r, 3, 4), CancelInCb: true}))
	scs = append(scs, scenario(cfg{Reg: "205obs", Depth: ev.Pick(r, 3, 4), Two: true, CancelInCb: true, TCP: true}))
	scs = append(scs, scenario(cfg{Reg: "205obs", Depth: ev.Pick(r, 2, 3), DeregFails: true}))
	scs = append(scs, scenario(cfg{Reg: "205obs", Depth: 2, DeregFails: true, CON: true}))
	scs = append(scs, scenario(cfg{Reg: "205obs", Depth: ev.Pick(r, 3, 4), ETag: true}))
	// the same streams over a tcp connection (same observation handler, other conn code)
	scs = append(scs, scenario(cfg{Reg: "205obs", Depth: ev.Pick(r, 2, 3), TCP: true}))
	scs = append(scs, scenario(cfg{Reg: "205obs", Depth: 2, Two: true, TCP: true}))
	scs = append(scs, scenario(cfg{Reg: "205obs", Depth: 2, DeregFails: true, TCP: true}))
	for _, reg := range []string{"205", "404", "none"} {
		scs = append(scs, scenario(cfg{Reg: reg, Depth: 1, TCP: true}))
	}
	scs = append(scs, scenario(cfg{Reg: "205obs", Depth: 2, Preempt: 1}))
	scs = append(scs, scenario(cfg{Reg: "205obs", Depth: 1, Conc: true, Preempt: map[bool]int{true: 1, false: ev.Pick(r, 2, 3)}[r.Lite()]}))
	sum := mcx.Explore(r, scs, mcx.Config{Wall: ev.Pick(r, 4*time.Minute, 30*time.Minute)})
	mcx.Report(r, scs, sum)
	// vacuity guard: some explored stream must have delivered several notifications
	if sum.Metrics["notifications_delivered_in_one_stream"] < 3 {
		ev.EngineError("vacuous exploration: no explored stream delivered 3 notifications to a callback (max %d)", sum.Metrics["notifications_delivered_in_one_stream"])
	}
	r.Set("rule", "predicate: old in 8 boundary values x every new in 0..2^24-1 x dt in {0,127s,128s,128s+1ns,129s} (exhaustive) against the RFC 7641 §3.4 formula; streams: registration answered by {2.05+Observe, 2.05, 2.03+Observe, 4.04, nothing}, then every sequence up to the depth over 6 sequence numbers x 3 inter-arrival times (virtual clock) for either of 1-2 observations, cancel at every position (peer answers the deregistration), every event applied to a settled connection plus a preemption-bounded variant; oracle: callback only for fresher notifications relative to the last delivered one, own token only, success only on 2.05/2.03, nothing delivered that was injected after Cancel returned or registration failed; distinct outcome = distinct (history, callback logs); deregistration-unanswered variants: Cancel ends with its deadline, later notifications must not reach the callback")
	r.Sample(map[string]any{"scenario": scs[0].Name, "history": "reg0:205obs notify0(seq=16777215,+0s) notify0(seq=0,+0s) notify0(seq=8388608,+2m9s)"})
	r.Assume("safety reading: a dropped fresh notification is not a violation (DESIGN §7a C08)")
	r.Finish()
}

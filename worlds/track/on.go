//go:build verifc12

// Package track switches the message-pool lifecycle tracker (overlay variant c12) on for the
// worlds of other properties, so that C12 re-runs their scenarios with ownership checking.
package track

import (
	"github.com/plgd-dev/go-coap/v3/message/pool"

	"verif/mcx"
	"verif/vrt"
)

const Enabled = true

func init() {
	mcx.PostExec = append(mcx.PostExec, func() []mcx.Finding {
		t := pool.VerifTrack
		pool.VerifTrack = nil
		if t == nil {
			return nil
		}
		var fs []mcx.Finding
		vrt.Metric("pool_acquired", int64(t.Acquired))
		vrt.Metric("pool_released", int64(t.Released))
		vrt.Metric("pool_liveness_checks", int64(t.Checks))
		vrt.Metric("library_access_after_application_release", int64(t.AfterAppRelease))
		for _, v := range t.Violations {
			fs = append(fs, mcx.Finding{Sig: "pool/" + v.Kind, What: v.What + " [stack: " + v.Stack + "]"})
		}
		return fs
	})
	mcx.PreExec = append(mcx.PreExec, func() { pool.VerifTrack = pool.NewVerifTracker() })
}

// Hold: the application now holds m (response returned from a request call, request inside a
// handler, notification inside a callback).
func Hold(m *pool.Message, label string) { pool.VerifTrack.Hold(m, label) }

// Unhold ends the window (content must be unchanged).
func Unhold(m *pool.Message) { pool.VerifTrack.Unhold(m) }

func Stats() (acquired, released, checks int) {
	if t := pool.VerifTrack; t != nil {
		return t.Acquired, t.Released, t.Checks
	}
	return
}

// Points makes every *pool.Message method entry a scheduling point for the current execution.
func Points() {
	if pool.VerifTrack != nil {
		pool.VerifTrack.Points = true
	}
}

package main

import "verif/ev"

// runConcurrency is the scheduler-based exploration of Handle / HandleRemove / DefaultHandle
// concurrent with ServeCOAP (DESIGN.md §4 C17, "Space (concurrency)"). Stub: not built yet.
func runConcurrency(r *ev.Run) {}

// C13 — no per-exchange state outlives the exchange.
// Engine E2 (world mode, histories): a real udp/client.Conn (block-wise enabled) over an
// in-memory session executes every sequence of exchanges up to a bound, each exchange ending in
// one of its outcomes (success, peer silence + cancel, reset, malformed block, duplicate token,
// write error ...); afterwards the virtual clock is moved past every deadline, housekeeping ticks
// twice, and overlay-injected read-only accessors must show empty tables.
package main

import (
	"bytes"
	"context"
	"errors"
	"fmt"
	"sort"
	"strings"
	"time"

	"github.com/plgd-dev/go-coap/v3/message"
	"github.com/plgd-dev/go-coap/v3/message/codes"
	"github.com/plgd-dev/go-coap/v3/message/pool"
	"github.com/plgd-dev/go-coap/v3/net/blockwise"
	"github.com/plgd-dev/go-coap/v3/net/responsewriter"
	"github.com/plgd-dev/go-coap/v3/udp/client"

	"verif/ev"
	"verif/mcx"
	"verif/vrt"
	"verif/worlds/udpw"
)

var kinds = []string{
	"do-ok", "do-sep", "do-silent-cancel", "do-rst-cancel", "do-non-ok",
	"upload3", "upload-abort-cancel", "upload-wrong-block",
	"download3", "download-abort-cancel",
	"dup-token", "observe-cancel", "observe-live", "observe-silent-cancel", "observe-acked-silent-cancel", "observe-404",
	"ping-ok", "ping-silent-cancel", "oneway-non", "oneway-con-silent-cancel",
	"incoming-con", "incoming-non", "incoming-blockwise-abort", "write-error",
	"ping-write-error", "observe-write-error", "oneway-write-error", "con-queued-behind-nstart-cancel",
	"observe-cancel-rejected", "observe-one-block-notification-cancel",
}

type cfg struct {
	Depth int
	Kinds []string
}

func (c cfg) String() string {
	return fmt.Sprintf("udp-conn exchange histories depth=%d over %d exchange kinds", c.Depth, len(c.Kinds))
}

func u32opt(id message.OptionID, v uint32) message.Option {
	b := make([]byte, 4)
	o, _, _ := message.Options{}.SetUint32(b, id, v)
	return o[0]
}

func scenario(c cfg) *mcx.Scenario {
	return &mcx.Scenario{
		Name:   c.String(),
		Bounds: mcx.Bounds{Preempt: 0, Env: -1, Select: 0},
		Opt:    vrt.Options{MaxSteps: 400000},
		Body: func(s *vrt.Sched) func() (string, []mcx.Finding) {
			var hist []string
			var fs []mcx.Finding
			var w *udpw.World
			liveObs := 0
			vrt.App("env", func() {
				w = udpw.New(udpw.Opts{NStart: 1, MaxRetransmit: 1, LimitTotal: 2, LimitEndpoint: 2, QueueSize: 4, BlockWise: true, SZX: blockwise.SZX16,
					Handler: func(rw *responsewriter.ResponseWriter[*client.Conn], r *pool.Message) {
						if r.Code() == codes.GET || r.Code() == codes.POST {
							_ = rw.SetResponse(codes.Content, message.TextPlain, bytes.NewReader([]byte("served")))
						}
					}})
				cc := w.CC
				tokN := byte(0)
				nextTok := func() message.Token { tokN++; return message.Token{0xC1, tokN} }
				for step := 0; step < c.Depth; step++ {
					kind := c.Kinds[vrt.Choose(len(c.Kinds), nil)]
					hist = append(hist, kind)
					ctx, cancel := context.WithCancel(context.Background())
					tok := nextTok()
					opDone := false
					var opErr error
					body40 := bytes.Repeat([]byte("u"), 40)
					start := func(name string, f func() error) {
						vrt.App(name, func() { opErr = f(); opDone = true })
					}
					var obsCancel func() error
					switch kind {
					case "do-ok", "do-sep", "do-silent-cancel", "do-rst-cancel", "download3", "download-abort-cancel":
						start("do", func() error {
							_, err := cc.Do(w.Request(ctx, codes.GET, "/r", tok, message.Confirmable, nil))
							return err
						})
					case "do-non-ok":
						start("do", func() error {
							_, err := cc.Do(w.Request(ctx, codes.GET, "/r", tok, message.NonConfirmable, nil))
							return err
						})
					case "upload3", "upload-abort-cancel", "upload-wrong-block":
						start("do", func() error {
							_, err := cc.Do(w.Request(ctx, codes.POST, "/up", tok, message.Confirmable, body40))
							return err
						})
					case "dup-token":
						start("do", func() error {
							_, err := cc.Do(w.Request(ctx, codes.GET, "/r", tok, message.Confirmable, nil))
							return err
						})
						second := false
						vrt.App("do-dup", func() {
							vrt.WaitUntil("dup waits until first on wire", func() bool { return len(w.Outs) > w.Seen || opDone })
							_, err := cc.Do(w.Request(ctx, codes.GET, "/r2", tok, message.Confirmable, nil))
							if err == nil {
								fs = append(fs, mcx.Finding{Sig: "duplicate-token-accepted", What: "second request with an outstanding token succeeded"})
							}
							second = true
						})
						_ = second
					case "observe-cancel", "observe-live", "observe-silent-cancel", "observe-acked-silent-cancel", "observe-404", "observe-cancel-rejected", "observe-one-block-notification-cancel":
						start("observe", func() error {
							req := w.Request(ctx, codes.GET, "/obs", tok, message.Confirmable, nil)
							req.SetObserve(0)
							o, err := cc.DoObserve(req, func(*pool.Message) {})
							if err == nil {
								obsCancel = func() error { return o.Cancel(context.Background()) }
							}
							return err
						})
					case "ping-ok", "ping-silent-cancel":
						start("ping", func() error { return cc.Ping(ctx) })
					case "oneway-non":
						start("write", func() error {
							return cc.WriteMessage(w.Request(ctx, codes.POST, "/ow", tok, message.NonConfirmable, []byte("x")))
						})
					case "oneway-con-silent-cancel":
						start("write", func() error {
							return cc.WriteMessage(w.Request(ctx, codes.POST, "/ow", tok, message.Confirmable, []byte("x")))
						})
					case "incoming-con":
						_ = w.Inject(message.Message{Type: message.Confirmable, Code: codes.GET, MessageID: w.PeerMID(), Token: tok, Options: message.Options{{ID: message.URIPath, Value: []byte("in")}}})
						opDone = true
					case "incoming-non":
						_ = w.Inject(message.Message{Type: message.NonConfirmable, Code: codes.GET, MessageID: w.PeerMID(), Token: tok, Options: message.Options{{ID: message.URIPath, Value: []byte("in")}}})
						opDone = true
					case "incoming-blockwise-abort":
						// the peer starts a block-wise upload to us and never sends the second block
						_ = w.Inject(message.Message{Type: message.Confirmable, Code: codes.POST, MessageID: w.PeerMID(), Token: tok, Payload: bytes.Repeat([]byte("p"), 16),
							Options: message.Options{{ID: message.URIPath, Value: []byte("in")}, u32opt(message.Block1, 0<<4|8|0)}})
						opDone = true
					case "ping-write-error":
						w.Sess.WriteErr = func(*pool.Message) error { return errors.New("injected write error") }
						start("ping", func() error { return cc.Ping(ctx) })
					case "observe-write-error":
						w.Sess.WriteErr = func(*pool.Message) error { return errors.New("injected write error") }
						start("observe", func() error {
							req := w.Request(ctx, codes.GET, "/obs", tok, message.Confirmable, nil)
							req.SetObserve(0)
							_, err := cc.DoObserve(req, func(*pool.Message) {})
							return err
						})
					case "oneway-write-error":
						w.Sess.WriteErr = func(*pool.Message) error { return errors.New("injected write error") }
						start("write", func() error {
							return cc.WriteMessage(w.Request(ctx, codes.POST, "/ow", tok, message.Confirmable, []byte("x")))
						})
					case "con-queued-behind-nstart-cancel":
						// a confirmable request that nobody acknowledges holds the only NSTART slot; a second one queues behind
						// it and both are cancelled there
						start("do", func() error {
							_, err := cc.Do(w.Request(ctx, codes.GET, "/first", tok, message.Confirmable, nil))
							return err
						})
						queuedDone := false
						vrt.App("do-queued", func() {
							vrt.WaitUntil("second request waits until the first is on the wire", func() bool { return len(w.Outs) > w.Seen || opDone })
							_, _ = cc.Do(w.Request(ctx, codes.GET, "/second", message.Token{0xC3, tok[1]}, message.Confirmable, nil))
							queuedDone = true
						})
						_ = queuedDone
					case "write-error":
						w.Sess.WriteErr = func(*pool.Message) error { return errors.New("injected write error") }
						start("do", func() error {
							_, err := cc.Do(w.Request(ctx, codes.GET, "/r", tok, message.Confirmable, nil))
							return err
						})
					}
					// ---- the peer for this exchange
					blockBody := "0123456789abcdef0123456789abcdef01234567" // 40 bytes: 3 blocks of 16
					downloadStarted := false
					notified := false
					for round := 0; round < 16; round++ {
						vrt.Quiesce("env: settle")
						acted := false
						for _, o := range w.NewOuts() {
							m := o.M
							ack := func(code codes.Code, payload string, opts ...message.Option) {
								r := message.Message{Type: message.Acknowledgement, Code: code, MessageID: m.MessageID, Token: m.Token, Payload: []byte(payload), Options: opts}
								if m.Type != message.Confirmable {
									r.Type, r.MessageID = message.NonConfirmable, w.PeerMID()
								}
								if code == codes.Empty {
									r.Token = nil
								}
								_ = w.Inject(r)
								acted = true
							}
							if m.Code == codes.Empty && m.Type == message.Confirmable { // CoAP ping
								if kind == "ping-ok" {
									_ = w.Inject(message.Message{Type: message.Reset, Code: codes.Empty, MessageID: m.MessageID})
									acted = true
								}
								continue
							}
							if m.Code < codes.GET || m.Code > codes.DELETE {
								continue // our own acknowledgements / responses
							}
							b1, e1 := m.Options.GetUint32(message.Block1)
							b2, e2 := m.Options.GetUint32(message.Block2)
							obsV, eo := m.Options.GetUint32(message.Observe)
							switch {
							case eo == nil && obsV == 1 && kind == "observe-cancel-rejected": // the peer refuses the deregistration
								ack(codes.NotFound, "")
							case eo == nil && obsV == 1: // deregistration
								ack(codes.Content, "bye")
							case kind == "do-ok" || kind == "dup-token" || kind == "do-non-ok":
								ack(codes.Content, "ok")
							case kind == "do-sep":
								ack(codes.Empty, "")
								_ = w.Inject(message.Message{Type: message.Confirmable, Code: codes.Content, MessageID: w.PeerMID(), Token: m.Token, Payload: []byte("sep")})
							case kind == "do-rst-cancel":
								_ = w.Inject(message.Message{Type: message.Reset, Code: codes.Empty, MessageID: m.MessageID})
								acted = true
							case kind == "upload3" && e1 == nil:
								if b1&8 != 0 {
									ack(codes.Continue, "", u32opt(message.Block1, b1))
								} else {
									ack(codes.Changed, "", u32opt(message.Block1, b1))
								}
							case kind == "upload-abort-cancel" && e1 == nil:
								if b1>>4 == 0 {
									ack(codes.Continue, "", u32opt(message.Block1, b1))
								}
							case kind == "upload-wrong-block" && e1 == nil:
								ack(codes.RequestEntityIncomplete, "")
							case kind == "download3" || kind == "download-abort-cancel":
								num := uint32(0)
								if e2 == nil {
									num = b2 >> 4
								}
								if kind == "download-abort-cancel" && downloadStarted {
									break // silence after the first block
								}
								downloadStarted = true
								lo, hi := int(num)*16, int(num)*16+16
								more := uint32(8)
								if hi >= len(blockBody) {
									hi, more = len(blockBody), 0
								}
								ack(codes.Content, blockBody[lo:hi], u32opt(message.Block2, num<<4|more))
							case kind == "observe-cancel" || kind == "observe-live" || kind == "observe-cancel-rejected" || kind == "observe-one-block-notification-cancel":
								ack(codes.Content, "v1", u32opt(message.Observe, 7))
							case kind == "observe-404":
								ack(codes.NotFound, "")
							case kind == "observe-acked-silent-cancel":
								if m.Type == message.Confirmable {
									ack(codes.Empty, "") // acknowledged, but the answer never comes
								}
							}
						}
						if acted {
							continue
						}
						// nothing left to answer: settle the caller side
						if !opDone && strings.HasSuffix(kind, "-cancel") {
							cancel()
							continue
						}
						if opDone && kind == "observe-one-block-notification-cancel" && obsCancel != nil && !notified {
							// a notification whose body is exactly one block: Block2 NUM=0 M=0 (what a go-coap server sends then)
							notified = true
							_ = w.Inject(message.Message{Type: message.NonConfirmable, Code: codes.Content, MessageID: w.PeerMID(), Token: tok, Payload: bytes.Repeat([]byte("n"), 16),
								Options: message.Options{u32opt(message.Observe, 8), u32opt(message.Block2, 0<<4|0|0)}})
							continue
						}
						if opDone && (kind == "observe-cancel" || kind == "observe-cancel-rejected" || kind == "observe-one-block-notification-cancel") && obsCancel != nil {
							f := obsCancel
							obsCancel = nil
							opDone = false
							start("cancel-observation", f)
							continue
						}
						if opDone {
							break
						}
					}
					if kind == "observe-live" && opErr == nil {
						liveObs++
					}
					w.Sess.WriteErr = nil
					cancel()
					vrt.Quiesce("env: exchange over")
					_ = opErr
				}
				// phase A - all calls have returned, no expiry yet: continuations, locks and limiter entries must
				// be gone already; block-wise buffers too unless some exchange was abandoned half-way (those may
				// wait for their expiry); cached replies legitimately live for EXCHANGE_LIFETIME
				vrt.Quiesce("env: before expiry")
				{
					sizes := w.CC.VerifSizes()
					abandoned := false
					for _, k := range hist {
						// (a one-block notification leaves the helper request of the observe x block-wise path behind until the
						// transfer timeout - like an abandoned transfer it is judged after expiry, in phase B)
						if strings.Contains(k, "abort") || strings.Contains(k, "wrong-block") || strings.Contains(k, "silent") || strings.Contains(k, "rst") || strings.Contains(k, "one-block-notification") {
							abandoned = true
						}
					}
					var left []string
					for k, v := range sizes {
						want := 0
						switch {
						case k == "observations":
							want = liveObs
						case k == "responseCache":
							continue
						case strings.HasPrefix(k, "blockwise") && abandoned:
							continue
						}
						if v != want {
							left = append(left, k)
						}
					}
					sort.Strings(left)
					if len(left) > 0 {
						fs = append(fs, mcx.Finding{Sig: "state-after-return/" + strings.Join(left, "+"), What: fmt.Sprintf("%s: right after history [%s] (every call returned) the connection still holds %v: %v", c, strings.Join(hist, " "), left, sizes)})
					}
				}
				// phase B - move past every deadline and run housekeeping twice
				w.Tick(300 * time.Second)
				vrt.Quiesce("env: tick 1")
				w.Tick(5 * time.Second)
				vrt.Quiesce("env: tick 2")
				sizes := w.CC.VerifSizes()
				var left []string
				for k, v := range sizes {
					want := 0
					if k == "observations" {
						want = liveObs
					}
					if v != want {
						left = append(left, fmt.Sprintf("%s=%d(want %d)", k, v, want))
					}
				}
				sort.Strings(left)
				if len(left) > 0 {
					names := make([]string, len(left))
					for i, l := range left {
						names[i] = l[:strings.Index(l, "=")]
					}
					fs = append(fs, mcx.Finding{Sig: "state-outlives-exchanges/" + strings.Join(names, "+"), What: fmt.Sprintf("%s: after history [%s], expiry and two housekeeping ticks the connection retains %s", c, strings.Join(hist, " "), strings.Join(left, ", "))})
				}
				vrt.Metric("exchanges_in_history", int64(len(hist)))
			})
			return func() (string, []mcx.Finding) {
				return strings.Join(hist, " "), fs
			}
		},
	}
}

func main() {
	r := ev.Start("C13", "model_checking")
	var scs []*mcx.Scenario
	scs = append(scs, scenario(cfg{Depth: ev.Pick(r, 3, 4), Kinds: kinds}))
	core := []string{"observe-acked-silent-cancel", "do-silent-cancel", "upload-abort-cancel", "download-abort-cancel", "dup-token", "observe-cancel", "observe-silent-cancel", "incoming-blockwise-abort", "write-error", "do-ok"}
	scs = append(scs, scenario(cfg{Depth: ev.Pick(r, 4, 5), Kinds: core}))
	addMore(r, &scs)
	addKeepAlive(r, &scs)
	addReconfigure(r, &scs)
	addDiscovery(r, &scs)
	sum := mcx.Explore(r, scs, mcx.Config{Wall: ev.Pick(r, 4*time.Minute, 30*time.Minute)})
	mcx.Report(r, scs, sum)
	r.Set("rule", "udp-server discovery histories (every sequence up to the depth over {ok, unsent: context already ended, bad address, token re-used}; multicast tables empty after every event); history = sequence of exchanges, each one of 27 kinds (plain/separate/NON Do, silence+cancel, reset, 3-block upload and download with success / abort / wrong block, duplicate token, observe register+cancel / live / silent / 4.04 / rejected deregistration / one-block notification, ping, one-way writes, incoming CON/NON requests, aborted incoming block-wise upload, injected write error); after the history the virtual clock advances 300 s and housekeeping runs twice; oracle: every table size reported by the overlay accessor (token handlers, MID handlers, per-ID locks, response cache, block-wise sending/receiving caches, limiter queues/waiters/processed, observations) is zero, observations = the live ones; distinct outcome = distinct history; keep-alive family: all histories (depth 6-8) over {silent round, other message, pong, late pong} on tcp and udp connections configured by options.WithKeepAlive: at most one ping continuation retained, none after its pong")
	r.Sample(map[string]any{"scenario": scs[0].Name, "history": "download-abort-cancel observe-cancel"})
	r.Assume("exchanges of one history run one after another (concurrent exchanges are covered by C03/C16)", "accessors are additional files injected by the overlay (hooks/std), no line of /repo changes")
	r.Finish()
}

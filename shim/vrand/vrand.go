// Package vrand replaces "crypto/rand" in instrumented files (deterministic per execution).
package vrand

import "verif/vrt"

func Read(b []byte) (int, error) { return vrt.RandRead(b) }

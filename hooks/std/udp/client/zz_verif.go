//go:build verif

package client

// VerifSizes: read-only sizes of the per-exchange tables (verification overlay only).
func (cc *Conn) VerifSizes() map[string]int {
	m := map[string]int{
		"tokenHandlers": cc.tokenHandlerContainer.Length(),
		"midHandlers":   cc.midHandlerContainer.Length(),
		"observations":  cc.observationHandler.VerifSize(),
	}
	cc.msgIDMutex.ml.Lock()
	m["msgIDLocks"] = len(cc.msgIDMutex.ma)
	cc.msgIDMutex.ml.Unlock()
	if mc, ok := cc.responseMsgCache.(*messageCache); ok {
		m["responseCache"] = mc.c.Length()
	}
	if cc.blockWise != nil {
		s, r := cc.blockWise.VerifSizes()
		m["blockwiseSending"], m["blockwiseReceiving"] = s, r
	}
	q, w, p := cc.Client.LimitParallelRequests.VerifSizes()
	m["limiterQueues"], m["limiterWaiters"], m["limiterProcessed"] = q, w, int(p)
	return m
}

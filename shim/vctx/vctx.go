// Package vctx replaces context.WithTimeout / WithDeadline in instrumented files.
package vctx

import (
	"context"
	"time"

	"verif/vrt"
)

func WithTimeout(p context.Context, d time.Duration) (context.Context, context.CancelFunc) {
	return vrt.WithTimeout(p, d)
}
func WithDeadline(p context.Context, t time.Time) (context.Context, context.CancelFunc) {
	return vrt.WithDeadline(p, t)
}

package main

import (
	"context"
	"fmt"

	"github.com/plgd-dev/go-coap/v3/message"
	"github.com/plgd-dev/go-coap/v3/message/codes"

	"verif/mcx"
	"verif/vrt"
	"verif/worlds/track"
	"verif/worlds/udpw"
)

// Only meaningful when this binary runs as a part of C12 (tracker on): the housekeeping sweep
// (retransmission: clone of the pending message) runs concurrently with the processing of the
// acknowledgement that releases that message; every *pool.Message method entry is a scheduling
// point, so a read of the message after its release is visible to the explorer.
func sweepVsAckScenario(preempt int) *mcx.Scenario {
	return &mcx.Scenario{
		Name:   fmt.Sprintf("pool: retransmission sweep concurrent with the acknowledgement, method-entry points, preempt<=%d", preempt),
		Bounds: mcx.Bounds{Preempt: preempt, Env: -1, Select: 0},
		Body: func(s *vrt.Sched) func() (string, []mcx.Finding) {
			done := false
			vrt.App("env", func() {
				w := udpw.New(udpw.Opts{NStart: 1, MaxRetransmit: 2, AckTimeout: T, LimitTotal: 2, LimitEndpoint: 2})
				tok := message.Token{0xA7}
				vrt.App("do", func() {
					req := w.Request(context.Background(), codes.GET, "/r", tok, message.Confirmable, nil)
					resp, err := w.CC.Do(req)
					if err == nil {
						track.Hold(resp, "response returned from Do")
						_ = resp.Code()
						track.Unhold(resp)
						w.CC.ReleaseMessage(resp)
					}
					done = true
				})
				vrt.Quiesce("env: first copy on the wire")
				outs := w.NewOuts()
				if len(outs) != 1 {
					return
				}
				mid := outs[0].M.MessageID
				vrt.Advance(T + delta) // a retransmission is due
				now := vrt.Now()
				track.Points()
				vrt.App("housekeeper", func() { w.CC.CheckExpirations(now) })
				vrt.App("receiver", func() {
					_ = w.Inject(message.Message{Type: message.Acknowledgement, Code: codes.Content, MessageID: mid, Token: tok, Payload: []byte("resp")})
				})
			})
			return func() (string, []mcx.Finding) { return fmt.Sprint(done), nil }
		},
	}
}

// The same sweep concurrent with a request that ends WITHOUT an acknowledgement (its context is
// cancelled): the request's own clean-up and the sweep (retransmission branch, or expiry branch
// after MAX_RETRANSMIT copies) both reach the pending clone.
func sweepVsCancelScenario(expiry bool, preempt int) *mcx.Scenario {
	branch := "retransmission"
	if expiry {
		branch = "expiry"
	}
	return &mcx.Scenario{
		Name:   fmt.Sprintf("pool: %s sweep concurrent with the cancellation of the unacknowledged request, method-entry points, preempt<=%d", branch, preempt),
		Bounds: mcx.Bounds{Preempt: preempt, Env: -1, Select: 0},
		Body: func(s *vrt.Sched) func() (string, []mcx.Finding) {
			done := false
			vrt.App("env", func() {
				w := udpw.New(udpw.Opts{NStart: 1, MaxRetransmit: 1, AckTimeout: T, LimitTotal: 2, LimitEndpoint: 2})
				tok := message.Token{0xA8}
				ctx, cancel := context.WithCancel(context.Background())
				vrt.App("do", func() {
					req := w.Request(ctx, codes.GET, "/r", tok, message.Confirmable, nil)
					resp, err := w.CC.Do(req)
					if err == nil {
						w.CC.ReleaseMessage(resp)
					}
					done = true
				})
				vrt.Quiesce("env: first copy on the wire")
				if len(w.NewOuts()) != 1 {
					return
				}
				if expiry {
					vrt.Advance(T + delta)
					w.CC.CheckExpirations(vrt.Now()) // the one retransmission
					vrt.Quiesce("env: retransmitted")
				}
				vrt.Advance(2*T + delta) // retransmission (or, after MAX_RETRANSMIT copies, expiry) is due
				now := vrt.Now()
				track.Points()
				vrt.App("housekeeper", func() { w.CC.CheckExpirations(now) })
				vrt.App("canceller", func() { cancel() })
				vrt.Quiesce("env: both done")
				// whoever acquires next gets what the pool holds
				m := w.CC.AcquireMessage(context.Background())
				m.SetCode(codes.POST)
				w.CC.ReleaseMessage(m)
			})
			return func() (string, []mcx.Finding) { return fmt.Sprint(done), nil }
		},
	}
}

func c12Scenarios(thorough bool) []*mcx.Scenario {
	if !track.Enabled {
		return nil
	}
	p := 2
	if thorough {
		p = 3
	}
	return []*mcx.Scenario{sweepVsAckScenario(p), sweepVsCancelScenario(false, p), sweepVsCancelScenario(true, p)}
}

package main

import (
	"context"
	"fmt"
	"net"
	"time"

	"github.com/plgd-dev/go-coap/v3/message"
	"github.com/plgd-dev/go-coap/v3/message/codes"
	"github.com/plgd-dev/go-coap/v3/message/pool"
	coapNet "github.com/plgd-dev/go-coap/v3/net"
	"github.com/plgd-dev/go-coap/v3/net/responsewriter"
	"github.com/plgd-dev/go-coap/v3/udp/client"
	"github.com/plgd-dev/go-coap/v3/udp/coder"
	udpserver "github.com/plgd-dev/go-coap/v3/udp/server"

	"verif/ev"
	"verif/mcx"
	"verif/vrt"
	"verif/worlds/udpw"
)

// The REAL udp/server.Session (the session type behind udp.Dial / udp.Client and DTLS-less server
// conns) over the harness packet conn, socket owned by the library (closeSocket = true), with its
// Run loop: operations interrupted by Close from two goroutines, by a read error of the socket
// and by context cancellation.

type ucfg struct {
	DTLS    bool   // the real dtls/server.Session over a datagram-preserving in-memory net.Conn instead of udp/server.Session
	Op      string // do | observe | ping | idle | full-queue (handler busy, receive queue full, reader loop parked in Process)
	Intr    string // cancel | close2 | read-error
	Preempt int
}

func (c ucfg) String() string {
	t := "udp"
	if c.DTLS {
		t = "dtls"
	}
	return fmt.Sprintf("%s-session op=%s interrupt=%s preempt<=%d", t, c.Op, c.Intr, c.Preempt)
}

func udpSessionScenario(c ucfg) *mcx.Scenario {
	return &mcx.Scenario{
		Name:        c.String(),
		Bounds:      mcx.Bounds{Preempt: c.Preempt, Env: -1, Select: 0},
		DeadlockSig: "blocked-forever/" + map[bool]string{false: "udp", true: "dtls"}[c.DTLS] + "-session-" + c.Op + "/" + c.Intr,
		Body: func(s *vrt.Sched) func() (string, []mcx.Finding) {
			var fs []mcx.Finding
			result := "not-returned"
			returned, runDone := false, false
			runDoneF := func() bool { return runDone }
			onClose := 0
			var cc *client.Conn
			var sock *net.UDPConn
			parentCtx, cancelParent := context.WithCancel(context.Background())
			vrt.App("setup", func() {
				handlerGo, handlerRuns := false, 0
				var pc *coapNet.VerifPacketConn
				var dw *udpw.World
				raddr := &net.UDPAddr{IP: net.IPv4(10, 0, 0, 1), Port: 5683}
				handler := func(w *responsewriter.ResponseWriter[*client.Conn], _ *pool.Message) {
					handlerRuns++
					if c.Op == "close-from-handler" {
						// the application closes the connection from inside its handler and waits for the done signal there
						_ = w.Conn().Close()
						vrt.Recv(w.Conn().Done())
						return
					}
					vrt.WaitUntil("application handler busy", func() bool { return handlerGo })
				}
				if c.DTLS {
					o := udpw.Opts{LimitTotal: 2, LimitEndpoint: 2, QueueSize: 16, DTLS: true}
					if c.Op == "full-queue" {
						o.QueueSize, o.Handler = 1, handler
					}
					if c.Op == "close-from-handler" {
						o.Handler = handler
					}
					dw = udpw.New(o)
					cc = dw.CC
					runDoneF = func() bool { return dw.RunDone }
				} else {
					var err error
					sock, err = net.ListenUDP("udp4", &net.UDPAddr{IP: net.IPv4(127, 0, 0, 1)})
					if err != nil {
						panic(err)
					}
					var l *coapNet.UDPConn
					l, pc = coapNet.NewUDPConnVerif(sock, nil)
					// (interrupt parent-then-close: the connection was dialled with a parent context, as options.WithContext does)
					session := udpserver.NewSession(parentCtx, context.Background(), l, raddr, 1472, 1472, true)
					cfg := client.DefaultConfig
					cfg.MessagePool = pool.New(0, 0)
					cfg.Errors = func(error) {}
					cfg.PeriodicRunner = func(func(time.Time) bool) {}
					mid := int32(100)
					cfg.GetMID = func() int32 { mid++; return mid }
					cfg.LimitClientParallelRequests, cfg.LimitClientEndpointParallelRequests = 2, 2
					if c.Op == "full-queue" {
						cfg.ReceivedMessageQueueSize = 1
						cfg.Handler = handler
					}
					if c.Op == "close-from-handler" {
						cfg.Handler = handler
					}
					cc = client.NewConnWithOpts(session, &cfg)
					vrt.Lib("conn-run", func() { _ = cc.Run(); runDone = true })
				}
				inject := func(raw []byte) {
					if c.DTLS {
						dw.DSt.In = append(dw.DSt.In, append([]byte{}, raw...))
					} else {
						pc.In = append(pc.In, coapNet.VerifPacket{Data: append([]byte{}, raw...), From: raddr})
					}
				}
				pendingIn := func() int {
					if c.DTLS {
						return len(dw.DSt.In)
					}
					return len(pc.In)
				}
				cc.AddOnClose(func() { onClose++ })
				cc.AddOnClose(func() { onClose++ })
				ctx, cancel := context.WithCancel(context.Background())
				vrt.App("op", func() {
					var err error
					switch c.Op {
					case "do":
						req := cc.AcquireMessage(ctx)
						_ = req.SetupGet("/a", message.Token{0xD1})
						req.SetType(message.Confirmable)
						_, err = cc.Do(req)
					case "observe":
						_, err = cc.Observe(ctx, "/obs", func(*pool.Message) {})
					case "ping":
						err = cc.Ping(ctx)
					case "idle":
						vrt.Recv(cc.Done())
					case "close-from-handler":
						m := pool.NewMessage(context.Background())
						_ = m.SetupGet("/bye", message.Token{0xB1})
						m.SetType(message.NonConfirmable)
						m.SetMessageID(7100)
						raw, errM := m.MarshalWithEncoder(coder.DefaultCoder)
						if errM != nil {
							panic(errM)
						}
						inject(raw)
						vrt.Recv(cc.Done())
					case "full-queue":
						// the peer keeps sending while the application handler is busy: one message in the handler,
						// one in the queue, the reader loop parked handing over the third
						for i := 0; i < 3; i++ {
							m := pool.NewMessage(context.Background())
							_ = m.SetupGet("/busy", message.Token{0xB0, byte(i)})
							m.SetType(message.NonConfirmable)
							m.SetMessageID(int32(7000 + i))
							raw, errM := m.MarshalWithEncoder(coder.DefaultCoder)
							if errM != nil {
								panic(errM)
							}
							inject(raw)
						}
						vrt.WaitUntil("reader loop parked on the full queue", func() bool { return pendingIn() == 0 && handlerRuns == 1 })
						vrt.Quiesce("full queue")
						for i := 0; i < 2; i++ {
							vrt.App(fmt.Sprintf("closer%d", i), func() { _ = cc.Close() })
						}
						vrt.Recv(cc.Done())
						handlerGo = true
					}
					returned = true
					result = fmt.Sprint(err)
				})
				switch c.Intr {
				case "cancel":
					vrt.App("interrupter", func() {
						cancel()
						if c.Op == "idle" {
							_ = cc.Close()
						}
					})
				case "parent-then-close":
					// the parent context of the connection ends first (application shutting down), Close is called afterwards
					vrt.App("interrupter", func() {
						cancelParent()
						vrt.Point("between the end of the parent context and Close")
						_ = cc.Close()
					})
				case "close2":
					for i := 0; i < 2 && c.Op != "full-queue"; i++ {
						vrt.App(fmt.Sprintf("closer%d", i), func() { _ = cc.Close() })
					}
				case "read-error":
					vrt.App("socket", func() {
						if c.DTLS {
							dw.DSt.ReadErr = fmt.Errorf("read: connection reset")
						} else {
							pc.ReadErr = fmt.Errorf("recvmsg: network is down")
						}
					})
				}
				_ = codes.Empty
			})
			return func() (string, []mcx.Finding) {
				if sock != nil {
					_ = sock.Close()
				}
				fail := func(sig, format string, a ...any) {
					fs = append(fs, mcx.Finding{Sig: sig, What: c.String() + ": " + fmt.Sprintf(format, a...)})
				}
				closed := c.Intr != "cancel" || c.Op == "idle"
				if closed && !s.Deadlock {
					select {
					case <-cc.Done():
					default:
						fail("udp-session/done-not-closed", "Done() is not closed although the connection was closed (Run returned=%v)", runDoneF())
					}
					if !runDoneF() {
						fail("udp-session/run-did-not-return", "Session.Run did not return after the connection was closed")
					}
					if onClose != 2 {
						fail("udp-session/on-close-callback-count", "2 on-close callbacks were registered, %d executions happened", onClose)
					}
					if !returned {
						fail("udp-session/op-never-returned", "the operation did not return")
					}
				}
				return result, fs
			}
		},
	}
}

func addUDPSessionScenarios(r *ev.Run, scs *[]*mcx.Scenario) {
	*scs = append(*scs, udpSessionScenario(ucfg{Op: "full-queue", Intr: "close2", Preempt: ev.Pick(r, 1, 2)}))
	*scs = append(*scs, udpSessionScenario(ucfg{DTLS: true, Op: "full-queue", Intr: "close2", Preempt: ev.Pick(r, 1, 2)}))
	for _, d := range []bool{false, true} {
		*scs = append(*scs, udpSessionScenario(ucfg{DTLS: d, Op: "close-from-handler", Intr: "none", Preempt: ev.Pick(r, 1, 2)}))
	}
	for _, op := range []string{"do", "observe", "ping", "idle"} {
		*scs = append(*scs, udpSessionScenario(ucfg{Op: op, Intr: "parent-then-close", Preempt: ev.Pick(r, 1, 2)}))
		for _, in := range []string{"cancel", "close2", "read-error"} {
			*scs = append(*scs, udpSessionScenario(ucfg{Op: op, Intr: in, Preempt: ev.Pick(r, 1, 2)}))
			*scs = append(*scs, udpSessionScenario(ucfg{DTLS: true, Op: op, Intr: in, Preempt: ev.Pick(r, 1, 2)}))
		}
	}
}

// C15 — option list (message.Options) and message builder (pool.Message) against a
// sorted-multiset reference list.
// Engine E1: deterministic, complete enumeration of all operation sequences up to a fixed length
// over a fixed alphabet (nothing is sampled); every sequence is executed from a fresh world and
// its last step is followed by the list comparison and the full query set. Since every prefix of
// a sequence is itself an enumerated sequence, every step of every sequence is checked.
package main

import (
	"encoding/json"
	"fmt"
	"os"
	"runtime"
	"runtime/pprof"
	"sync"
	"sync/atomic"
	"time"

	"verif/ev"
)

// runner = one world configuration with its alphabet and depth.
type runner struct {
	idx   int
	World string `json:"world"` // "options" | "pool"
	Cfg   optCfg `json:"cfg"`
	Alpha string `json:"alphabet"` // "core" | "wide"
	ops   []Op
	depth int
	stop1 []bool // sequences of length 1 below which nothing is explored
}

type seqReplay struct {
	World string `json:"world"`
	Cap   int    `json:"cap"`
	Buf   int    `json:"buf"`
	Ops   []Op   `json:"ops"`
}

type worker struct {
	agg     *agg
	sc      *scratch
	backing []byte
	dirty   int // bytes of backing the previous sequence may have written
	obs     observations
	evals   int64
	nontriv int64
	pruned  int64 // sequences not executed because a prefix left the list in a diverged state
	seq     []int
}

func newWorker() *worker {
	w := &worker{agg: newAgg(), sc: newScratch(), backing: make([]byte, 8192)}
	for i := range w.backing {
		w.backing[i] = 0xEE
	}
	return w
}

func (rn *runner) opsOf(seq []int) []Op {
	o := make([]Op, len(seq))
	for i, k := range seq {
		o[i] = rn.ops[k]
	}
	return o
}

// subtree size: number of proper extensions of a sequence of length d.
func (rn *runner) below(d int) int64 {
	var n, p int64 = 0, 1
	for k := d + 1; k <= rn.depth; k++ {
		p *= int64(len(rn.ops))
		n += p
	}
	return n
}

// node executes one sequence from a fresh world and checks its last step.
func (rn *runner) node(w *worker, seq []int, verbose bool) (stop bool) {
	w.evals++
	rep := &reporter{a: w.agg, key: nodeKey{run: rn.idx, seq: seq}, verbose: verbose}
	rep.ctx = func() string {
		if rn.World == "pool" {
			return fmt.Sprintf("pool.Message, sequence [%s]", seqString(rn.opsOf(seq)))
		}
		return fmt.Sprintf("message.Options (initial capacity %d, %d-byte value buffer), sequence [%s]", rn.Cfg.Cap, rn.Cfg.Buf, seqString(rn.opsOf(seq)))
	}
	rep.replay = func() any {
		return seqReplay{World: rn.World, Cap: rn.Cfg.Cap, Buf: rn.Cfg.Buf, Ops: rn.opsOf(seq)}
	}
	last := len(seq) - 1
	var lastOp Op
	if rn.World == "options" {
		wd := newOptWorld(rn.Cfg, w.backing, w.dirty)
		defer func() { w.dirty = rn.Cfg.Buf - len(wd.buf) + 512 }() // +512: a refused ResetOptionsTo may have written ahead
		for i, k := range seq {
			op := rn.ops[k]
			var r *reporter
			if i == last || verbose {
				r, lastOp = rep, op
			}
			if i == last {
				wd.obs = &w.obs // observations are counted once, at the sequence ending with that step
			}
			if verbose {
				fmt.Printf("  step %d: %s\n", i+1, op)
			}
			if wd.apply(i, op, r) {
				stop = true
			}
			if verbose {
				fmt.Printf("    list      %s\n    reference %s\n", fmtOptions(wd.opts), fmtModel(&wd.m))
				if wd.check(op, w.sc, rep) {
					stop = true
				}
			}
		}
		if !verbose && wd.check(lastOp, w.sc, rep) {
			stop = true
		}
		if wd.nontrivial() {
			w.nontriv++
		}
		return stop
	}
	wd := newPoolWorld(nil)
	for i, k := range seq {
		op := rn.ops[k]
		var r *reporter
		if i == last || verbose {
			r, lastOp = rep, op
		}
		if i == last {
			wd.obs = &w.obs
		}
		if verbose {
			fmt.Printf("  step %d: %s\n", i+1, op)
		}
		if wd.apply(i, op, r) {
			stop = true
		}
		if verbose {
			fmt.Printf("    list      %s\n    reference %s\n", fmtOptions(wd.a.Options()), fmtModel(&wd.ma))
			if wd.check(op, w.sc, rep) {
				stop = true
			}
		}
	}
	if !verbose && wd.check(lastOp, w.sc, rep) {
		stop = true
	}
	if wd.nontrivial() {
		w.nontriv++
	}
	return stop
}

func (rn *runner) dfs(w *worker) {
	if rn.node(w, w.seq, false) {
		w.pruned += rn.below(len(w.seq))
		return
	}
	if len(w.seq) >= rn.depth {
		return
	}
	for k := range rn.ops {
		w.seq = append(w.seq, k)
		rn.dfs(w)
		w.seq = w.seq[:len(w.seq)-1]
	}
}

func main() {
	if f := ev.Arg("replay"); f != "" {
		replay(f)
		return
	}
	r := ev.Start("C15", "exploration")
	t0 := time.Now()
	// The check allocates many short-lived objects on every core while its live heap is a few MB;
	// a ballast (never touched, no pointers) keeps the collector from running every few ms.
	ballast := make([]byte, 256<<20)
	defer runtime.KeepAlive(ballast)
	if f := ev.Arg("cpuprofile"); f != "" { // for tuning only
		fh, _ := os.Create(f)
		_ = pprof.StartCPUProfile(fh)
		defer pprof.StopCPUProfile()
	}
	phase := func(name string) {
		if ev.HasFlag("timing") {
			fmt.Fprintf(os.Stderr, "phase %-12s done at %6.2fs\n", name, time.Since(t0).Seconds())
		}
	}
	nw := runtime.NumCPU()

	// ---- declared grid
	coreDepth, wideDepth, miniDepth := 4, ev.Pick(r, 2, 3), ev.Pick(r, 0, 5)
	if v := ev.Arg("depth"); v != "" { // for experiments only
		fmt.Sscanf(v, "%d", &coreDepth)
		if miniDepth > 0 {
			miniDepth = coreDepth + 1
		}
	}
	caps := []int{0, 1, 16}
	bufs := []int{4096, 600, 2} // never too small / too small after two long values / too small at once
	var runners []*runner
	add := func(world string, cfg optCfg, alpha string, depth int) {
		rn := &runner{idx: len(runners), World: world, Cfg: cfg, Alpha: alpha, depth: depth}
		switch world {
		case "options":
			rn.ops = optionsAlphabet(alpha)
		case "pool":
			rn.ops = poolAlphabet(alpha)
		}
		runners = append(runners, rn)
	}
	poolCfg := optCfg{Cap: 16, Buf: 256} // fixed by pool.NewMessage; recorded for the replay file only
	for _, c := range caps {
		for _, b := range bufs {
			add("options", optCfg{Cap: c, Buf: b}, "core", coreDepth)
		}
	}
	add("pool", poolCfg, "core", coreDepth)
	for _, c := range caps {
		add("options", optCfg{Cap: c, Buf: 4096}, "wide", wideDepth)
	}
	add("options", optCfg{Cap: 16, Buf: 600}, "wide", wideDepth)
	add("pool", poolCfg, "wide", wideDepth)
	if miniDepth > 0 { // thorough only: one step deeper over the mini alphabet, all configurations
		for _, c := range caps {
			for _, b := range bufs {
				add("options", optCfg{Cap: c, Buf: b}, "mini", miniDepth)
			}
		}
		add("pool", poolCfg, "mini", miniDepth)
	}

	// ---- sequences of length 0 and 1 (main goroutine), then one work item per 2-prefix
	mw := newWorker()
	type item struct {
		rn   *runner
		i, j int
	}
	var items []item
	var grid int64
	for _, rn := range runners {
		grid += 1 + rn.below(0)
		rn.stop1 = make([]bool, len(rn.ops))
		if rn.node(mw, nil, false) {
			ev.EngineError("empty sequence fails in %s %+v", rn.World, rn.Cfg)
		}
		for i := range rn.ops {
			if rn.node(mw, []int{i}, false) {
				rn.stop1[i] = true
				mw.pruned += rn.below(1)
				continue
			}
			if rn.depth >= 2 {
				for j := range rn.ops {
					items = append(items, item{rn, i, j})
				}
			}
		}
	}
	phase("length<=1")
	workers := make([]*worker, nw)
	var next atomic.Int64
	ev.Parallel(nw, func(sh int) {
		w := newWorker()
		workers[sh] = w
		for {
			k := int(next.Add(1) - 1)
			if k >= len(items) {
				return
			}
			it := items[k]
			w.seq = append(w.seq[:0], it.i, it.j)
			it.rn.dfs(w)
		}
	})
	workers = append(workers, mw)
	phase("sequences")

	// ---- path grid and uint grid
	var gmu sync.Mutex
	gagg := newAgg()
	greport := func(order int, sig, what string, replay any) {
		gmu.Lock()
		defer gmu.Unlock()
		b, ok := gagg.m[sig]
		if !ok {
			// 64 entries: a grid finding ranks behind every operation sequence as the example
			// reported for a signature (a sequence is the more useful counterexample)
			b = &best{key: nodeKey{run: 1 << 30, seq: make([]int, 64)}}
			b.key.seq[0] = order
			gagg.m[sig] = b
		}
		b.count++
		if b.what == "" || order < b.key.seq[0] {
			b.key.seq[0], b.what, b.replay = order, what, replay
		}
	}
	paths := pathGrid()
	var pathEvals atomic.Int64
	ev.Parallel(nw, func(sh int) {
		var n int64
		for i := sh; i < len(paths); i += nw {
			spec := paths[i]
			n += checkPath(spec, func(sig, what, variant string) {
				greport(i, sig, what, pathReplay{World: "path", Path: spec, Variant: variant})
			}, "")
		}
		pathEvals.Add(n)
	})
	var uintEvals int64
	for vi, v := range uintGridValues {
		for bl := 0; bl <= 5; bl++ {
			uintEvals += checkUint(v, bl, func(sig, what string) {
				greport(vi*8+bl, sig, what, map[string]any{"world": "uint", "value": v, "buf": bl})
			})
		}
	}

	phase("grids")
	// ---- merge
	total := newAgg()
	var evals, nontriv, pruned int64
	var obs observations
	for _, w := range workers {
		total.merge(w.agg)
		evals += w.evals
		nontriv += w.nontriv
		pruned += w.pruned
		obs.setPathEmptyClear += w.obs.setPathEmptyClear
		obs.setPathEmptyNoop += w.obs.setPathEmptyNoop
		obs.uriPathLongRefused += w.obs.uriPathLongRefused
		obs.uriPathLongStored += w.obs.uriPathLongStored
	}
	total.merge(gagg)
	// ev counts one occurrence per Violate call; a defect in a query fires on nearly every
	// sequence, so the calls are capped and the exact numbers go into the evidence
	const occurrenceCap = 1000000
	perSig := map[string]int64{}
	for sig, b := range total.m {
		perSig[sig] = b.count
		for i := int64(0); i < b.count && i < occurrenceCap; i++ {
			r.Violate(sig, b.what, b.replay)
		}
	}
	if evals+pruned != grid {
		ev.EngineError("bookkeeping: executed %d + skipped %d != declared %d sequences", evals, pruned, grid)
	}

	phase("merge")
	pprof.StopCPUProfile()
	// ---- evidence
	var desc []map[string]any
	for _, rn := range runners {
		desc = append(desc, map[string]any{"world": rn.World, "cap": rn.Cfg.Cap, "buf": rn.Cfg.Buf, "alphabet": rn.Alpha, "operations": len(rn.ops), "max_length": rn.depth, "sequences": 1 + rn.below(0)})
	}
	// a few actual sequences, chosen by a fixed rule (k-th operation = (7k+3)*(i+1) mod N)
	for i := 0; i < 6; i++ {
		rn := runners[[6]int{0, 5, 9, 9, 12, 14}[i]] // 9 and 14 are the pool.Message runners
		seq := make([]int, rn.depth)
		for k := range seq {
			seq[k] = ((7*k + 3) * (i + 1)) % len(rn.ops)
		}
		w := newWorker()
		stop := rn.node(w, seq, false)
		r.Sample(map[string]any{"world": rn.World, "cap": rn.Cfg.Cap, "buf": rn.Cfg.Buf, "ops": seqString(rn.opsOf(seq)), "list_diverged": stop, "nontrivial": w.nontriv == 1})
	}
	r.Sample(map[string]any{"world": "path", "path": "/a//b/", "expect": "segments [a b], Path() = /a/b"})
	r.Sample(map[string]any{"world": "path", "path": "/{256}", "expect": "refused with ErrInvalidValueLength, list unchanged"})

	r.Set("evaluations", evals+pathEvals.Load()+uintEvals)
	r.Set("sequence_evaluations", evals)
	r.Set("distinct_nontrivial", nontriv)
	r.Set("grid_sequences", grid)
	r.Set("sequences_not_executed_below_diverged_prefix", pruned)
	r.Set("exhaustive", pruned == 0 && evals == grid)
	r.Set("path_grid_strings", int64(len(paths)))
	r.Set("path_grid_evaluations", pathEvals.Load())
	r.Set("uint_grid_evaluations", uintEvals)
	r.Set("runners", desc)
	r.Set("sequences_per_signature", perSig)
	r.Set("occurrences_printed_capped_at", int64(occurrenceCap))
	r.Set("observed_SetPath_empty_is_noop", obs.setPathEmptyNoop)
	r.Set("observed_SetPath_empty_clears", obs.setPathEmptyClear)
	r.Set("observed_UriPath_over_255_refused_by_setter", obs.uriPathLongRefused)
	r.Set("observed_UriPath_over_255_stored_by_setter", obs.uriPathLongStored)
	r.Set("rule", fmt.Sprintf("ALL operation sequences of length 0..L over the listed alphabets (see runners: core alphabet L=%d; wide alphabet = full product operation x id x value length, L=%d; thorough tier additionally the mini alphabet with L=%d), each executed from a fresh world: message.Options with initial capacity {0,1,16} x value buffer {4096,600,2} bytes, and pool.Message (256-byte value buffer, capacity 16, second message as Clone target, Swap, Reset+reuse). After the last step of every sequence: list == reference list (ids ascending, stable order, values byte-exact vs deep copies), the other copy (clone/original) unchanged, then Find/HasOption/GetUint32/GetString/GetBytes and GetUint32s/GetStrings/GetBytess with result slices of length count-1,count,count+1 for ids %v, Path, LocationPath, Queries, ContentFormat, Accept, Observe (pool: also through the Message getters), then the list again. evaluations = sequences executed + path-grid + uint-grid calls. distinct_nontrivial = executed (configuration, sequence) pairs -- all distinct by construction -- after which a reference list (edited, clone or second message) holds >= 1 option, or during which a growth path (option slice at capacity, pool value buffer beyond 256 bytes) or a too-small buffer was exercised. A sequence whose last step leaves the list different from the reference is reported and not extended (counted in sequences_not_executed_below_diverged_prefix; exhaustive is true only if that is 0). Path grid: every string of length <= 8 over {/,a,b} plus 254/255/256-byte segment templates x {SetPath,SetLocationPath} x {empty list, list with an old path between other options} x buffer {exact, larger, one byte short}, pool.Message.SetPath x {fresh, old path, value buffer nearly used up}, GetPathBufferSize. Uint grid: 19 boundary numbers x buffer sizes 0..5.", coreDepth, wideDepth, miniDepth, queryIDs))
	r.Assume(
		"the reference list (model.go) is written from the property statement and the godoc of message/options.go, not from the implementation; readings of silent spots are R1-R8 in world_opts.go and P1-P5 in world_pool.go",
		"query methods do not change hidden state that later operations depend on; checked as far as observable: the list is compared again after the query set of every sequence",
		"Path()/LocationPath()/Queries() on a list without such options answer ErrOptionNotFound (reading taken from message/pool/message_test.go TestMessageSetPath 'Empty' cases)",
		"SetPath(\"\") may either clear the old path or do nothing; a Uri-Path value > 255 bytes given to SetBytes/AddBytes/SetString/AddString may be refused or stored (both counted under observed_*)",
	)
	r.Finish()
}

// replay re-executes one stored counterexample verbosely.
func replay(file string) {
	b, err := os.ReadFile(file)
	if err != nil {
		ev.EngineError("replay: %v", err)
	}
	var outer struct {
		Signature string          `json:"signature"`
		Replay    json.RawMessage `json:"replay"`
	}
	if err := json.Unmarshal(b, &outer); err != nil {
		ev.EngineError("replay: %v", err)
	}
	raw := outer.Replay
	if raw == nil {
		raw = b
	}
	var kind struct {
		World string `json:"world"`
	}
	_ = json.Unmarshal(raw, &kind)
	a := newAgg()
	switch kind.World {
	case "options", "pool":
		var sr seqReplay
		if err := json.Unmarshal(raw, &sr); err != nil {
			ev.EngineError("replay: %v", err)
		}
		rn := &runner{World: sr.World, Cfg: optCfg{Cap: sr.Cap, Buf: sr.Buf}, ops: sr.Ops, depth: len(sr.Ops)}
		seq := make([]int, len(sr.Ops))
		for i := range seq {
			seq[i] = i
		}
		fmt.Printf("REPLAY world=%s cap=%d buf=%d: %s\n", sr.World, sr.Cap, sr.Buf, seqString(sr.Ops))
		w := newWorker()
		w.agg = a
		rn.node(w, seq, true)
	case "path":
		var pr pathReplay
		_ = json.Unmarshal(raw, &pr)
		fmt.Printf("REPLAY path %q variant %s\n", pr.Path, pr.Variant)
		checkPath(pr.Path, func(sig, what, variant string) {
			fmt.Printf("    !! %s: %s\n", sig, what)
			a.m[sig] = &best{count: 1}
		}, pr.Variant)
	case "uint":
		var ur struct {
			Value uint32 `json:"value"`
			Buf   int    `json:"buf"`
		}
		_ = json.Unmarshal(raw, &ur)
		fmt.Printf("REPLAY uint %#x buffer %d\n", ur.Value, ur.Buf)
		checkUint(ur.Value, ur.Buf, func(sig, what string) {
			fmt.Printf("    !! %s: %s\n", sig, what)
			a.m[sig] = &best{count: 1}
		})
	default:
		ev.EngineError("replay: unknown world %q", kind.World)
	}
	if len(a.m) == 0 {
		fmt.Println("REPLAY-RESULT: no violation on this tree")
		os.Exit(0)
	}
	hit := false
	for s := range a.m {
		fmt.Printf("REPLAY-RESULT: violation reproduced: %s\n", s)
		if s == outer.Signature {
			hit = true
		}
	}
	if outer.Signature != "" && !hit {
		fmt.Printf("REPLAY-RESULT: stored signature %s NOT reproduced\n", outer.Signature)
	}
	os.Exit(1)
}

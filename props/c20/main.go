// C20 — No-Response suppression follows RFC 7967 for every option value and response code.
// E1: the complete (value x code) table for the predicate and for ResponseWriter.SetResponse;
// E2 (wire.go): the effect on the wire for CON/NON requests over datagram and stream connections.
package main

import (
	"verif/ev"
	"verif/mcx"
)

func main() {
	r := ev.Start("C20", "exploration")
	if !mcx.IsWorker() && ev.Arg("replay") == "" {
		runTable(r)
	}
	runWire(r)
	r.Set("exhaustive", true)
	r.Set("rule", "table: every No-Response value in 0..63 plus {127,128,255,256,258,264,272,2^16,2^16+26,2^32-1} x all 256 codes, for noresponse.IsNoResponseCode and for ResponseWriter.SetResponse of a request carrying the option; plus all 256 codes without the option. Non-trivial = (value, code) pairs the RFC marks as suppressed (each distinct). Oracle: class = code>>5; suppressed iff (class 2 and bit 2) or (class 4 and bit 8) or (class 5 and bit 16).")
	r.Assume("specSuppressed is written from RFC 7967 §2.1 table 2, not from the library's code lists")
	r.Finish()
}

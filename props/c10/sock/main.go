// C10, socket pass: the listener adapters of net/connUDP.go (packetConnIPv4.ReadFrom behind UDPConn.ReadWithOptions)
// over REAL loopback sockets. The explorer's server world replaces these adapters by a harness packet conn (kernel
// sockets are outside the controlled scheduler), so this sequential pass covers them: every sequence of up to N
// datagrams (N = argument, default 3), each sent to one of the local addresses {127.0.0.1, 127.0.0.2} of a wildcard
// listener by its own peer socket, is sent and read one datagram at a time from a single goroutine (send i, read i).
// Oracle: the control message handed out for datagram i names datagram i's destination address, and still does after
// all later reads (a queued message of peer A keeps its own local address while datagrams of peer B are read).
// Anything the environment refuses (no 127.0.0.2, no control messages, a read that times out) ends the pass as
// "skipped": it can only ADD a violation.
package main

import (
	"encoding/json"
	"fmt"
	"net"
	"os"
	"strconv"
	"time"

	coapNet "github.com/plgd-dev/go-coap/v3/net"
)

type finding struct {
	Sig    string   `json:"sig"`
	What   string   `json:"what"`
	Replay []string `json:"replay"`
}

type result struct {
	Sequences int       `json:"sequences"`
	Reads     int       `json:"reads"`
	Skipped   string    `json:"skipped,omitempty"`
	Findings  []finding `json:"findings,omitempty"`
}

var dsts = []net.IP{net.IPv4(127, 0, 0, 1), net.IPv4(127, 0, 0, 2)}

type snap struct {
	dst, src string
	ifi      int
}

func snapOf(cm *coapNet.ControlMessage) snap {
	return snap{dst: cm.Dst.String(), src: cm.Src.String(), ifi: cm.IfIndex}
}

func runSeq(seq []int, res *result) (skip string) {
	l, err := coapNet.NewListenUDP("udp4", "0.0.0.0:0")
	if err != nil {
		return "listen: " + err.Error()
	}
	defer func() { _ = l.Close() }()
	port := l.LocalAddr().(*net.UDPAddr).Port
	var names []string
	got := make([]*coapNet.ControlMessage, len(seq))
	want := make([]snap, len(seq))
	buf := make([]byte, 64)
	for i, d := range seq {
		peer, err := net.ListenUDP("udp4", &net.UDPAddr{IP: net.IPv4(127, 0, 0, 1)})
		if err != nil {
			return "peer socket: " + err.Error()
		}
		defer func() { _ = peer.Close() }()
		names = append(names, fmt.Sprintf("peer%d->%v", i, dsts[d]))
		if _, err = peer.WriteToUDP([]byte{byte(i)}, &net.UDPAddr{IP: dsts[d], Port: port}); err != nil {
			return "send to " + dsts[d].String() + ": " + err.Error()
		}
		if err = l.NetConn().SetReadDeadline(time.Now().Add(3 * time.Second)); err != nil {
			return "read deadline: " + err.Error()
		}
		var cm *coapNet.ControlMessage
		var from *net.UDPAddr
		n, err := l.ReadWithOptions(buf, coapNet.WithGetControlMessage(&cm), coapNet.WithGetRemoteAddr(&from))
		if err != nil {
			return "read: " + err.Error()
		}
		if n != 1 || buf[0] != byte(i) {
			return "a foreign datagram arrived on the listener"
		}
		res.Reads++
		if cm == nil {
			return "the listener delivers no control messages"
		}
		got[i] = cm
		want[i] = snapOf(cm)
		if !cm.Dst.Equal(dsts[d]) {
			res.Findings = append(res.Findings, finding{"listener/control-message-names-another-destination",
				fmt.Sprintf("datagram %d was sent to %v, the control message handed out with it says %v", i, dsts[d], cm.Dst), names})
		}
	}
	for i := range seq {
		if now := snapOf(got[i]); now != want[i] {
			res.Findings = append(res.Findings, finding{"listener/control-message-of-earlier-datagram-changed-by-later-read",
				fmt.Sprintf("the control message handed out with datagram %d was %+v when it was read and is %+v after the later reads", i, want[i], now), names})
		}
	}
	return ""
}

func main() {
	depth := 3
	if len(os.Args) > 1 {
		if v, err := strconv.Atoi(os.Args[1]); err == nil && v > 0 {
			depth = v
		}
	}
	res := result{}
	if probe, err := net.DialUDP("udp4", nil, &net.UDPAddr{IP: dsts[1], Port: 9}); err != nil {
		res.Skipped = "127.0.0.2 is not usable: " + err.Error()
	} else {
		_ = probe.Close()
	outer:
		for n := 1; n <= depth; n++ {
			for code := 0; code < 1<<n; code++ {
				seq := make([]int, n)
				for i := range seq {
					seq[i] = (code >> i) & 1
				}
				if skip := runSeq(seq, &res); skip != "" {
					res.Skipped = skip
					break outer
				}
				res.Sequences++
			}
		}
	}
	_ = json.NewEncoder(os.Stdout).Encode(res)
}

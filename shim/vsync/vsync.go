// Package vsync replaces "sync" in instrumented go-coap files.
package vsync

import (
	"sync"

	"verif/vrt"
)

type (
	Mutex     = vrt.Mutex
	RWMutex   = vrt.RWMutex
	WaitGroup = vrt.WaitGroup
	Once      = vrt.Once
	Locker    = sync.Locker
)

// Pool is a deterministic stand-in for sync.Pool: a LIFO free list that never drops an object.
// The real pool hands a released object to whoever asks next - or not, depending on the P the caller
// runs on and on garbage collections. For model checking the adversarial and reproducible choice is
// "always reuse": a value that is still referenced after Put reaches its next user in every execution.
type Pool struct {
	New        func() any
	items      []any
	registered bool
}

var pools []*Pool

func init() {
	vrt.ExecStart = append(vrt.ExecStart, func() {
		for _, p := range pools {
			p.items = nil // no object survives from one explored execution into the next
			p.registered = false
		}
		pools = pools[:0] // (pools created inside an execution die with it; package-level ones register again on use)
	})
}

func (p *Pool) reg() {
	if !p.registered {
		p.registered = true
		pools = append(pools, p)
	}
}

func (p *Pool) Get() any {
	vrt.PointPool("sync.Pool.Get")
	p.reg()
	if n := len(p.items); n > 0 {
		x := p.items[n-1]
		p.items = p.items[:n-1]
		return x
	}
	if p.New != nil {
		return p.New()
	}
	return nil
}

func (p *Pool) Put(x any) {
	vrt.PointPool("sync.Pool.Put")
	p.reg()
	if x != nil {
		p.items = append(p.items, x)
	}
}

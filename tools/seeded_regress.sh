#!/bin/bash
# tools/seeded_regress.sh [seed-dir-names...]: apply every archived seeded change to /repo in turn, run the quick check(s)
# named in its meta.json, undo it, and write seeded/RESULTS.md. Needs a clean /repo; do not run other checks meanwhile.
cd /verif
git -C /repo diff --quiet || { echo "/repo has uncommitted changes"; exit 2; }
OUT=seeded/RESULTS.md
{
echo "# Seeded changes against the current checks (quick tier)"
echo
echo "Produced by tools/seeded_regress.sh on $(date -u +%Y-%m-%dT%H:%MZ), /repo at $(git -C /repo log --format=%h -1), /verif at $(git log --format=%h -1)."
echo
echo "| seed | check | exit | signatures reported |"
echo "|---|---|---|---|"
} > $OUT
seeds=${@:-$(ls seeded | grep -E '^C[0-9]+-[0-9]+$' | sort -V)}
miss=0
for sd in $seeds; do
  ids=$(python3 -c "
import json,re
m=json.load(open('seeded/$sd/meta.json'))
ids=[]
for part in re.split(r';',m['detection']['caught_by']):
    mm=re.match(r'\s*(C\d+)',part)
    if mm and mm.group(1) not in ids: ids.append(mm.group(1))
print(' '.join(ids[:1]))")
  git -C /repo apply /verif/seeded/$sd/patch.diff 2>/dev/null || { echo "| $sd | - | patch does not apply | |" >> $OUT; continue; }
  for id in $ids; do
    out=$(./check $id --tier quick 2>&1); rc=$?
    sigs=$(echo "$out" | grep "signature:" | sed 's/.*signature: //' | sort -u | head -4 | paste -sd';' | cut -c1-160)
    echo "| $sd | $id | $rc | $sigs |" >> $OUT
    [ $rc -eq 1 ] || miss=$((miss+1))
  done
  git -C /repo checkout -- . ; git -C /repo clean -fdq
done
echo >> $OUT; echo "seeds not reported as a violation by their check: $miss" >> $OUT
tail -3 $OUT

package main

import (
	"context"
	"fmt"

	"github.com/plgd-dev/go-coap/v3/message"
	"github.com/plgd-dev/go-coap/v3/message/codes"
	"github.com/plgd-dev/go-coap/v3/message/noresponse"
	"github.com/plgd-dev/go-coap/v3/message/pool"
	"github.com/plgd-dev/go-coap/v3/net/responsewriter"

	"verif/ev"
)

// RFC 7967 §2.1: bit value 2 = not interested in 2.xx, 8 = 4.xx, 16 = 5.xx.
func specSuppressed(code uint8, value uint32) bool {
	switch code >> 5 {
	case 2:
		return value&2 != 0
	case 4:
		return value&8 != 0
	case 5:
		return value&16 != 0
	}
	return false
}

type relClient struct{ p *pool.Pool }

func (c relClient) ReleaseMessage(m *pool.Message) { c.p.ReleaseMessage(m) }

func optionValues() []uint32 {
	var vs []uint32
	for v := uint32(0); v < 64; v++ {
		vs = append(vs, v)
	}
	return append(vs, 127, 128, 255, 256, 256+2, 256+8, 256+16, 1<<16, 1<<16+26, 1<<32-1)
}

func classSig(code uint8) string { return fmt.Sprintf("%d.xx", code>>5) }

func runTable(r *ev.Run) {
	p := pool.New(0, 0)
	var evals, nontriv int64
	for _, v := range optionValues() {
		for c := 0; c < 256; c++ {
			code := uint8(c)
			want := specSuppressed(code, v)
			// (a) the predicate
			err := noresponse.IsNoResponseCode(codes.Code(code), v)
			evals++
			if want {
				nontriv++
			}
			if (err != nil) != want {
				kind := "not-suppressed-but-must-be"
				if !want {
					kind = "suppressed-but-must-not-be"
				}
				r.Violate(fmt.Sprintf("IsNoResponseCode/%s/class=%s", kind, classSig(code)),
					fmt.Sprintf("IsNoResponseCode(code=%d.%02d, value=%d) = %v, RFC 7967 says suppressed=%v", code>>5, code&31, v, err, want),
					map[string]any{"op": "IsNoResponseCode", "code": c, "value": v})
			}
			// (b) through the response writer, the option being carried by the request
			buf := make([]byte, 16)
			reqOpts := make(message.Options, 0, 4)
			reqOpts, _, _ = reqOpts.SetUint32(buf, message.NoResponse, v)
			resp := p.AcquireMessage(context.Background())
			w := responsewriter.New(resp, relClient{p}, reqOpts...)
			werr := w.SetResponse(codes.Code(code), message.TextPlain, nil)
			evals++
			if (werr != nil) != want {
				kind := "accepted-but-must-be-refused"
				if !want {
					kind = "refused-but-must-be-accepted"
				}
				r.Violate(fmt.Sprintf("SetResponse/%s/class=%s", kind, classSig(code)),
					fmt.Sprintf("ResponseWriter.SetResponse(code=%d.%02d) for a request with No-Response=%d returned %v, RFC 7967 says refused=%v", code>>5, code&31, v, werr, want),
					map[string]any{"op": "SetResponse", "code": c, "value": v})
			}
			if werr == nil && w.Message().Code() != codes.Code(code) {
				r.Violate("SetResponse/accepted-but-code-not-set", fmt.Sprintf("SetResponse(code=%d) accepted but message code is %v", c, w.Message().Code()), map[string]any{"op": "SetResponse", "code": c, "value": v})
			}
			p.ReleaseMessage(w.Message())
		}
	}
	// a request without the option never suppresses anything
	for c := 0; c < 256; c++ {
		resp := p.AcquireMessage(context.Background())
		w := responsewriter.New(resp, relClient{p})
		evals++
		if err := w.SetResponse(codes.Code(c), message.TextPlain, nil); err != nil {
			r.Violate("SetResponse/refused-without-option", fmt.Sprintf("SetResponse(code=%d) refused although the request carries no No-Response option: %v", c, err), map[string]any{"op": "SetResponse-noopt", "code": c})
		}
		p.ReleaseMessage(w.Message())
	}
	r.Add("evaluations", evals)
	r.Add("distinct_nontrivial", nontriv)
	r.Sample(map[string]any{"op": "SetResponse", "no_response_value": 26, "code": "4.08", "spec_refused": true})
	r.Sample(map[string]any{"op": "IsNoResponseCode", "no_response_value": 2, "code": "2.31", "spec_suppressed": true})
}

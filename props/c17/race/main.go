// Free-running race pass for C17 (supplementary, DESIGN §3.2.7): the cooperative scheduler's hand-offs
// are happens-before edges, so the race detector is blind under it. This program runs the same
// operations (Handle / HandleRemove / DefaultHandle / GetRoute / ServeCOAP) on the UNINSTRUMENTED
// router from real goroutines under `-race`. It samples schedules, so it can only ADD a violation
// (a reported race, exit status 66); silence proves nothing and is reported as such.
package main

import (
	"context"
	"fmt"
	"os"
	"strconv"
	"sync"

	"github.com/plgd-dev/go-coap/v3/message"
	"github.com/plgd-dev/go-coap/v3/message/codes"
	"github.com/plgd-dev/go-coap/v3/message/pool"
	"github.com/plgd-dev/go-coap/v3/mux"
	"github.com/plgd-dev/go-coap/v3/net/responsewriter"
)

type fakeConn struct{ mux.Conn }

func (*fakeConn) AcquireMessage(ctx context.Context) *pool.Message { return pool.NewMessage(ctx) }
func (*fakeConn) ReleaseMessage(*pool.Message)                     {}

func main() {
	iters := 20000
	if len(os.Args) > 1 {
		iters, _ = strconv.Atoi(os.Args[1])
	}
	router := mux.NewRouter()
	router.SetErrorHandler(func(error) {})
	h := mux.HandlerFunc(func(mux.ResponseWriter, *mux.Message) {})
	for i := 0; i < 8; i++ {
		_ = router.Handle(fmt.Sprintf("/static/%d", i), h)
	}
	_ = router.Handle("/{x}", h)
	serve := mux.ToHandler[*fakeConn](router)
	conn := &fakeConn{}
	var wg sync.WaitGroup
	run := func(f func(i int)) {
		wg.Add(1)
		go func() {
			defer wg.Done()
			for i := 0; i < iters; i++ {
				f(i)
			}
		}()
	}
	for g := 0; g < 4; g++ {
		g := g
		run(func(i int) {
			req := pool.NewMessage(context.Background())
			req.SetCode(codes.GET)
			req.SetToken(message.Token{byte(g)})
			_ = req.SetPath([]string{"/a", "/static/3", "/dyn/1", "/"}[i%4])
			serve(responsewriter.New(pool.NewMessage(context.Background()), conn), req)
		})
	}
	run(func(i int) { _ = router.Handle(fmt.Sprintf("/dyn/%d", i%4), h) })
	run(func(i int) { _ = router.HandleRemove(fmt.Sprintf("/dyn/%d", i%4)) })
	run(func(i int) { _ = router.HandleRemove(fmt.Sprintf("/dyn/%d", (i+2)%4)) })
	run(func(i int) { router.DefaultHandle(h) })
	run(func(i int) { _ = router.GetRoute("/static/1"); _ = router.GetRoutes() })
	wg.Wait()
	fmt.Printf("race-pass: %d iterations x 9 goroutines, no race reported\n", iters)
}

package main

import (
	"verif/ev"
	"verif/mcx"
)

func addStreamServers(r *ev.Run, scs *[]*mcx.Scenario) {}

package main

// moreTransports is extended by the tcp-conn world.
func moreTransports() []tdesc { return nil }

package vrt

import "fmt"

// Mutex mirrors sync.Mutex: Lock is a scheduling point that is disabled while the mutex is
// held; Unlock releases without a scheduling point (a release only enables others; the next
// visible operation of the releasing thread is a point anyway).
type Mutex struct {
	held  bool
	owner int
}

func (m *Mutex) Lock() {
	if S != nil && S.running && !S.killed {
		S.yield(&op{label: "Mutex.Lock", ready: func() bool { return !m.held }})
	}
	m.held = true
}

func (m *Mutex) TryLock() bool {
	Point("Mutex.TryLock")
	if m.held {
		return false
	}
	m.held = true
	return true
}

func (m *Mutex) Unlock() {
	if !m.held && (S == nil || !S.killed) {
		panic("sync: unlock of unlocked mutex")
	}
	m.held = false
}

// RWMutex mirrors sync.RWMutex including writer preference: a writer first announces itself
// (readers arriving later wait), then acquires when no reader or writer holds the lock.
type RWMutex struct {
	w        bool
	r        int
	announce int
}

func (m *RWMutex) Lock() {
	if S != nil && S.running && !S.killed {
		S.yield(&op{label: "RWMutex.Lock(announce)"})
		m.announce++
		S.yield(&op{label: "RWMutex.Lock", ready: func() bool { return !m.w && m.r == 0 }})
		m.announce--
	}
	m.w = true
}

func (m *RWMutex) Unlock() {
	if !m.w && (S == nil || !S.killed) {
		panic("sync: Unlock of unlocked RWMutex")
	}
	m.w = false
}

func (m *RWMutex) RLock() {
	if S != nil && S.running && !S.killed {
		S.yield(&op{label: "RWMutex.RLock", ready: func() bool { return !m.w && m.announce == 0 }})
	}
	m.r++
}

func (m *RWMutex) RUnlock() {
	if m.r <= 0 && (S == nil || !S.killed) {
		panic("sync: RUnlock of unlocked RWMutex")
	}
	m.r--
}

type WaitGroup struct{ n int }

func (w *WaitGroup) Add(d int) {
	w.n += d
	if w.n < 0 {
		panic("sync: negative WaitGroup counter")
	}
}
func (w *WaitGroup) Done() { w.Add(-1) }
func (w *WaitGroup) Wait() {
	if S != nil && S.running && !S.killed {
		S.yield(&op{label: "WaitGroup.Wait", ready: func() bool { return w.n == 0 }})
	}
}

type Once struct {
	done    bool
	running bool
}

func (o *Once) Do(f func()) {
	if S != nil && S.running && !S.killed {
		S.yield(&op{label: "Once.Do", ready: func() bool { return !o.running }})
	}
	if o.done {
		return
	}
	o.running = true
	defer func() { o.running = false; o.done = true }()
	f()
}

var _ = fmt.Sprint

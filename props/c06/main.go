// C06 — confirmable requests are retransmitted correctly and boundedly.
// Engine E2 (world mode, fault histories): a real udp/client.Conn over an in-memory session;
// the environment enumerates every history of {tick at the next grid time, deliver ACK, RST,
// piggy-backed response, separate response, cancel} events; the Session.WriteMessage log
// against the virtual clock is the observation.
package main

import (
	"bytes"
	"context"
	"errors"
	"fmt"
	"github.com/plgd-dev/go-coap/v3/net/blockwise"
	"io"
	"strings"
	"time"

	"github.com/plgd-dev/go-coap/v3/message"
	"github.com/plgd-dev/go-coap/v3/message/codes"
	"github.com/plgd-dev/go-coap/v3/message/pool"

	"verif/ev"
	"verif/mcx"
	"verif/vrt"
	"verif/worlds/track"
	"verif/worlds/udpw"
)

const T = 2 * time.Second
const delta = 100 * time.Millisecond

type cfg struct {
	R         uint32
	NStart    uint32
	Two       bool // two concurrent confirmable requests (NSTART check)
	Events    int  // max number of non-tick events in a history
	WriteFail bool // the first datagram write fails with a transient error (the call returns an error at once)
	Deadline  bool // the request context carries a deadline far beyond the retransmission span (instead of a plain cancel context)
	Eager     bool // the peer's piggybacked response is processed as soon as the first copy is on the wire (any scheduling point after the write)
	FailCopy  int  // >0: the write of copy number FailCopy (1 = first retransmission) fails with a transient error
	DTLS      bool // over the real dtls/server.Session
	BodyPeek  bool // the request has a payload whose reader the application has already read 4 bytes of
	BlockResp bool // block-wise transfer enabled; the peer's piggybacked response is the first of two blocks, the follow-up block request is answered at once
}

func (c cfg) String() string {
	x := ""
	if c.Deadline {
		x += " context-deadline=10min"
	}
	if c.BodyPeek {
		x += " payload-reader-at-offset-4"
	}
	if c.DTLS {
		x += " transport=dtls-session"
	}
	if c.Eager {
		x += " eager-peer"
	}
	if c.BlockResp {
		x += " block-wise-response(2 blocks)"
	}
	if c.FailCopy > 0 {
		x += fmt.Sprintf(" write-of-copy-%d-fails", c.FailCopy)
	}
	return fmt.Sprintf("udp-conn CON Do: ACK_TIMEOUT=%v MAX_RETRANSMIT=%d NSTART=%d requests=%d events<=%d first-write-fails=%v%s", T, c.R, c.NStart, map[bool]int{false: 1, true: 2}[c.Two], c.Events, c.WriteFail, x)
}

type reqState struct {
	token   message.Token
	cancel  context.CancelFunc
	done    bool
	err     error
	body    string
	rtoken  string
	started bool
}

func scenario(c cfg) *mcx.Scenario {
	return &mcx.Scenario{
		Name:   c.String(),
		Bounds: mcx.Bounds{Preempt: map[bool]int{false: 0, true: 2}[c.Eager], Env: -1, Select: 0},
		Body: func(s *vrt.Sched) func() (string, []mcx.Finding) {
			var hist []string
			var fs []mcx.Finding
			fail := func(sig, format string, a ...any) {
				fs = append(fs, mcx.Finding{Sig: sig, What: c.String() + ": " + fmt.Sprintf(format, a...) + "; history [" + strings.Join(hist, " ") + "]"})
			}
			var w *udpw.World
			nreq := 1
			if c.Two {
				nreq = 2
			}
			reqs := make([]*reqState, nreq)
			t0 := vrt.Now()
			vrt.App("env", func() {
				w = udpw.New(udpw.Opts{NStart: c.NStart, MaxRetransmit: c.R, AckTimeout: T, LimitTotal: 4, LimitEndpoint: 4, DTLS: c.DTLS, BlockWise: c.BlockResp, SZX: blockwise.SZX16})
				respBody := func(i int) string {
					if c.BlockResp {
						return fmt.Sprintf("resp-%d-abcdefghijklmnopq", i) // 24 bytes: blocks of 16 and 8
					}
					return fmt.Sprintf("resp-%d", i)
				}
				failedWrites := 0 // attempts that failed in the socket: they count as attempts, nothing reached the wire
				if c.FailCopy > 0 {
					copies := 0
					w.Sess.WriteErr = func(m *pool.Message) error {
						if m.Code() == codes.GET {
							copies++
							if copies == c.FailCopy+1 {
								failedWrites++
								hist = append(hist, fmt.Sprintf("(write of copy %d fails)", c.FailCopy))
								return errors.New("sendmsg: no buffer space available")
							}
						}
						return nil
					}
				}
				if c.WriteFail {
					failed := false
					w.Sess.WriteErr = func(m *pool.Message) error {
						if !failed && m.Code() == codes.GET {
							failed = true
							return errors.New("sendmsg: no buffer space available")
						}
						return nil
					}
				}
				for i := range reqs {
					i := i
					ctx, cancel := context.WithCancel(context.Background())
					if c.Deadline {
						var c2 context.CancelFunc
						ctx, c2 = vrt.WithTimeout(ctx, 10*time.Minute)
						_ = c2
					}
					reqs[i] = &reqState{token: message.Token{0xA0 + byte(i)}, cancel: cancel}
					vrt.App(fmt.Sprintf("do%d", i), func() {
						var payload []byte
						if c.BodyPeek {
							payload = []byte("0123456789abcdef")
						}
						req := w.Request(ctx, codes.GET, fmt.Sprintf("/r%d", i), reqs[i].token, message.Confirmable, payload)
						if c.BodyPeek {
							_, _ = req.Body().Seek(4, io.SeekStart) // the application looked at the beginning of its payload
						}
						reqs[i].started = true
						resp, err := w.CC.Do(req)
						reqs[i].err = err
						if err == nil {
							track.Hold(resp, "response returned from Do")
							defer func() { track.Unhold(resp); w.CC.ReleaseMessage(resp) }()
							reqs[i].body = string(udpw.Body(resp))
							reqs[i].rtoken = fmt.Sprintf("%x", []byte(resp.Token()))
							if resp.Code() != codes.Content {
								fail("success-with-non-response", "Do(%d) returned success with code %v (not the peer's response)", i, resp.Code())
							}
						}
						reqs[i].done = true
					})
				}
				// per request bookkeeping derived from the write log
				type tx struct {
					mid      int32
					copies   []udpw.Out
					acked    bool // ACK or RST delivered
					rst      bool
					respSent bool // a response carrying the token was delivered
					canceled bool
					retTime  time.Time
					stopAt   time.Time // earliest of ack/rst/cancel/return
					stopped  bool
				}
				txs := make([]*tx, nreq)
				for i := range txs {
					txs[i] = &tx{}
				}
				used := map[string]bool{}
				scan := func() (answered bool) {
					for _, o := range w.NewOuts() {
						if o.M.Type != message.Confirmable || o.M.Code != codes.GET {
							continue // ACKs the conn sends for separate responses etc.
						}
						if b2, err := o.M.Options.GetUint32(message.Block2); err == nil && c.BlockResp {
							// the follow-up request for the second block: answered at once
							for i, r := range reqs {
								if bytes.Equal(o.M.Token, r.token) && b2>>4 == 1 {
									_ = w.Inject(message.Message{Type: message.Acknowledgement, Code: codes.Content, MessageID: o.M.MessageID, Token: r.token, Payload: []byte(respBody(i)[16:]),
										Options: message.Options{{ID: message.Block2, Value: []byte{1<<4 | 0 | 0}}}})
									answered = true
								}
							}
							continue
						}
						for i, r := range reqs {
							if bytes.Equal(o.M.Token, r.token) {
								t := txs[i]
								if len(t.copies) == 0 {
									t.mid = o.M.MessageID
								}
								t.copies = append(t.copies, o)
								k := len(t.copies) - 1
								if k > int(c.R) {
									fail("too-many-copies", "request %d transmitted %d times, MAX_RETRANSMIT=%d allows %d", i, k+1, c.R, c.R+1)
								}
								if !bytes.Equal(o.Raw, t.copies[0].Raw) {
									fail("copy-not-identical", "copy %d of request %d differs from the first: %x vs %x", k, i, o.Raw, t.copies[0].Raw)
								}
								if k >= 1 && !o.At.After(t.copies[0].At.Add(time.Duration(k)*T)) {
									fail("retransmission-too-early", "copy %d of request %d sent %v after the first, must be later than %v", k, i, o.At.Sub(t.copies[0].At), time.Duration(k)*T)
								}
								if t.stopped && !(c.Eager && k == 0) { // (eager peer: copy 0 is on the wire before the peer's answer by construction)
									fail("copy-after-stop", "request %d retransmitted (copy %d) after an acknowledgement/reset/cancellation/return", i, k)
								}
								if c.NStart == 1 && c.Two && k == 0 {
									o2 := txs[1-i]
									if len(o2.copies) > 0 && !o2.stopped {
										fail("nstart-exceeded", "request %d transmitted while request %d is still unacknowledged with NSTART=1", i, 1-i)
									}
								}
							}
						}
					}
					for i, r := range reqs {
						if r.done && !txs[i].stopped {
							txs[i].stopped = true
						}
					}
					return answered
				}
				if c.Eager {
					// the peer answers at once: its piggybacked response is processed at whatever point the scheduler
					// lets this thread run after the first copy has been written
					vrt.App("eager-peer", func() {
						vrt.WaitUntil("first copy on the wire", func() bool { return len(w.Outs) > 0 })
						o := w.Outs[0]
						hist = append(hist, "piggy0(at once)")
						used["piggy0"] = true
						txs[0].respSent, txs[0].acked, txs[0].stopped = true, true, true
						_ = w.Inject(message.Message{Type: message.Acknowledgement, Code: codes.Content, MessageID: o.M.MessageID, Token: reqs[0].token, Payload: []byte("resp-0")})
					})
				}
				// grid of tick instants: k*T -/+ delta, k = 1..R+2
				var grid []time.Time
				for k := 1; k <= int(c.R)+2; k++ {
					grid = append(grid, t0.Add(time.Duration(k)*T-delta), t0.Add(time.Duration(k)*T+delta))
				}
				gi := 0
				events := 0
				exhaustedBefore := make([]bool, nreq) // a housekeeping tick ran after the last permitted copy
				for {
					vrt.Quiesce("env: settle")
					for scan() {
						vrt.Quiesce("env: follow-up block answered")
					}
					type evt struct {
						name string
						i    int
					}
					var evs []evt
					if gi < len(grid) {
						evs = append(evs, evt{"tick", 0})
					}
					if events < c.Events {
						for i, t := range txs {
							if len(t.copies) == 0 {
								continue
							}
							for _, n := range []string{"ack", "rst", "piggy", "sep", "cancel", "ackx2"} {
								if !used[fmt.Sprint(n, i)] {
									evs = append(evs, evt{n, i})
								}
							}
						}
					}
					if len(evs) == 0 {
						break
					}
					e := evs[vrt.Choose(len(evs), nil)]
					if e.name != "tick" {
						events++
						used[fmt.Sprint(e.name, e.i)] = true
					}
					t := txs[e.i]
					switch e.name {
					case "tick":
						hist = append(hist, fmt.Sprintf("tick@%v", grid[gi].Sub(t0)))
						w.TickAt(grid[gi])
						gi++
						for i, x := range txs {
							if len(x.copies)+failedWrites == int(c.R)+1 && !x.stopped {
								exhaustedBefore[i] = true
							}
							if c.R == 0 && len(x.copies) == 1 && !x.stopped {
								exhaustedBefore[i] = true
							}
						}
					case "ack":
						hist = append(hist, fmt.Sprintf("ack%d", e.i))
						t.acked, t.stopped = true, true
						_ = w.Inject(message.Message{Type: message.Acknowledgement, Code: codes.Empty, MessageID: t.mid})
					case "ackx2":
						// the acknowledgement arrives twice back to back (duplicated by the network), before anybody else runs
						hist = append(hist, fmt.Sprintf("ack%d,ack%d", e.i, e.i))
						t.acked, t.stopped = true, true
						_ = w.Inject(message.Message{Type: message.Acknowledgement, Code: codes.Empty, MessageID: t.mid})
						_ = w.Inject(message.Message{Type: message.Acknowledgement, Code: codes.Empty, MessageID: t.mid})
					case "rst":
						hist = append(hist, fmt.Sprintf("rst%d", e.i))
						t.acked, t.rst, t.stopped = true, true, true
						_ = w.Inject(message.Message{Type: message.Reset, Code: codes.Empty, MessageID: t.mid})
					case "piggy":
						if c.BlockResp && (exhaustedBefore[e.i] || t.stopped) {
							// (a block-wise response to an exchange that is over is observation O11 in DESIGN: the receive loop
							// then waits for the NSTART slot the abandoned call still holds - no clause of this property)
							hist = append(hist, fmt.Sprintf("piggy%d(not sent: the exchange is over)", e.i))
							break
						}
						hist = append(hist, fmt.Sprintf("piggy%d", e.i))
						if !exhaustedBefore[e.i] && !t.stopped {
							t.respSent = true // delivered while the exchange is still pending: the call must succeed
						}
						t.acked, t.stopped = true, true
						if c.BlockResp {
							_ = w.Inject(message.Message{Type: message.Acknowledgement, Code: codes.Content, MessageID: t.mid, Token: reqs[e.i].token, Payload: []byte(respBody(e.i)[:16]),
								Options: message.Options{{ID: message.Block2, Value: []byte{0<<4 | 8 | 0}}}})
						} else {
							_ = w.Inject(message.Message{Type: message.Acknowledgement, Code: codes.Content, MessageID: t.mid, Token: reqs[e.i].token, Payload: []byte(fmt.Sprintf("resp-%d", e.i))})
						}
					case "sep":
						hist = append(hist, fmt.Sprintf("sep%d", e.i))
						_ = w.Inject(message.Message{Type: message.NonConfirmable, Code: codes.Content, MessageID: w.PeerMID(), Token: reqs[e.i].token, Payload: []byte(fmt.Sprintf("resp-%d", e.i))})
					case "cancel":
						hist = append(hist, fmt.Sprintf("cancel%d", e.i))
						t.canceled, t.stopped = true, true
						reqs[e.i].cancel()
					}
				}
				for scan() {
					vrt.Quiesce("env: follow-up block answered")
				}
				// end-of-history obligations
				for i, r := range reqs {
					t := txs[i]
					if len(t.copies) == 0 && r.started && !c.Two && !c.WriteFail {
						fail("never-transmitted", "request %d was never transmitted", i)
					}
					if r.done && r.err == nil {
						delivered := used[fmt.Sprint("piggy", i)] || used[fmt.Sprint("sep", i)]
						if !delivered {
							fail("success-without-response", "Do(%d) returned success although no response was ever delivered", i)
						}
						if (r.body != respBody(i) && r.body != fmt.Sprintf("resp-%d", i)) || r.rtoken != fmt.Sprintf("%x", []byte(r.token)) {
							fail("success-with-wrong-response", "Do(%d) returned body %q token %s", i, r.body, r.rtoken)
						}
					}
					if t.respSent && !t.canceled && !(r.done && r.err == nil) {
						// a piggy-backed response arrived while the exchange was pending and nobody cancelled
						if !used[fmt.Sprint("cancel", i)] {
							fail("response-in-time-but-no-success", "request %d: matching response delivered before the attempts were exhausted, yet Do did not succeed (done=%v err=%v)", i, r.done, r.err)
						}
					}
				}
				for _, r := range reqs {
					r.cancel() // let blocked calls return so that the execution ends cleanly
				}
			})
			return func() (string, []mcx.Finding) {
				var out []string
				for _, r := range reqs {
					if r != nil {
						out = append(out, fmt.Sprintf("%v/%v/%s", r.done, r.err != nil, r.body))
					}
				}
				n := 0
				if w != nil {
					n = len(w.Outs)
				}
				return strings.Join(hist, " ") + fmt.Sprintf("|outs=%d|%v", n, out), fs
			}
		},
	}
}

func main() {
	r := ev.Start("C06", "fault_enumeration")
	var scs []*mcx.Scenario
	for _, R := range ev.Pick(r, []uint32{0, 1, 2}, []uint32{0, 1, 2, 4}) {
		scs = append(scs, scenario(cfg{R: R, NStart: 1, Events: ev.Pick(r, 3, 5)}))
	}
	scs = append(scs, scenario(cfg{R: 4, NStart: 1, Events: ev.Pick(r, 2, 3)}))
	scs = append(scs, scenario(cfg{R: 2, NStart: 1, Events: 1, WriteFail: true}))
	scs = append(scs, scenario(cfg{R: 2, NStart: 1, Events: ev.Pick(r, 2, 3), Deadline: true}))
	scs = append(scs, scenario(cfg{R: 2, NStart: 1, Events: ev.Pick(r, 2, 3), Deadline: true, BlockResp: true}))
	scs = append(scs, scenario(cfg{R: 2, NStart: 1, Events: ev.Pick(r, 2, 3), BlockResp: true}))
	scs = append(scs, scenario(cfg{R: 1, NStart: 1, Events: ev.Pick(r, 2, 3), DTLS: true}))
	scs = append(scs, scenario(cfg{R: 1, NStart: 1, Events: 0, Eager: true}))
	for k := 1; k <= 2; k++ {
		scs = append(scs, scenario(cfg{R: 3, NStart: 1, Events: ev.Pick(r, 1, 2), FailCopy: k}))
	}
	scs = append(scs, scenario(cfg{R: 1, NStart: 1, Events: ev.Pick(r, 1, 2), BodyPeek: true}))
	for _, ns := range []uint32{1, 2} {
		scs = append(scs, scenario(cfg{R: 1, NStart: ns, Two: true, Events: ev.Pick(r, 2, 3)}))
	}
	scs = append(scs, serverConnScenarios()...)
	scs = append(scs, c12Scenarios(r.Thorough())...)
	scs = append(scs, sweepCancelScenarios(r.Thorough())...)
	sum := mcx.Explore(r, scs, mcx.Config{Wall: ev.Pick(r, 3*time.Minute, 25*time.Minute)})
	mcx.Report(r, scs, sum)
	r.Set("distinct_nontrivial", int64(len(sum.Outcomes)))
	r.Set("rule", "history = interleaving of the chain of housekeeping ticks at k*T-100ms, k*T+100ms (k=1..R+2) with up to N one-shot events {empty ACK, RST, piggy-backed response, separate NON response, cancel} per request, every event applied to a settled connection; observation = Session.WriteMessage log with virtual timestamps; oracle from the statement (copies <= 1+R, k-th copy later than k*T, byte-identical, none after ACK/RST/cancel/return, success only with the peer's response, success required when a piggy-backed response arrives before the attempts are exhausted, NSTART=1 serialises); non-trivial = distinct (history, outcome); variants: request context with a 10-minute deadline, request payload whose reader is at offset 4")
	r.Sample(map[string]any{"scenario": scs[1].Name, "history": "tick@1.9s tick@2.1s ack0 tick@3.9s sep0"})
	r.Assume("in-memory session: a write succeeds instantly; ticks are atomic events (quantifier is over histories)", "a separate response without any acknowledgement, or any response after exhaustion, may go either way (DESIGN §7a C06)")
	r.Finish()
}

package main

import (
	"context"
	"fmt"
	"net"
	"sort"
	"strings"
	"time"

	"github.com/plgd-dev/go-coap/v3/message"
	"github.com/plgd-dev/go-coap/v3/message/codes"
	"github.com/plgd-dev/go-coap/v3/message/pool"
	"github.com/plgd-dev/go-coap/v3/net/responsewriter"
	"github.com/plgd-dev/go-coap/v3/udp/client"

	"verif/ev"
	"verif/mcx"
	"verif/vrt"
	"verif/worlds/srvw"
)

// Address-pair family: a udp server on a wildcard-bound listener. Datagrams carry their concrete
// destination address in the control message (or none, or a multicast group), the application
// also creates connections itself (Server.NewConn) and issues a request on them. All event
// sequences up to a depth; oracle = agreement with a reference model of the connection table:
// key (remote, normalised local) with multicast/unspecified -> wildcard, and the documented
// fallback of a concrete destination to the wildcard entry of the same remote.

type pcfg struct {
	Depth int
	Delay int // bound on non-default choices among runnable library threads (0 = unbounded)
}

func (c pcfg) String() string {
	return fmt.Sprintf("udp-server address pairs (wildcard listener, control-message destinations, NewConn) depth=%d delays<=%d", c.Depth, c.Delay)
}

func pairsScenario(c pcfg) *mcx.Scenario {
	return &mcx.Scenario{
		Name:   c.String(),
		Bounds: mcx.Bounds{Preempt: 0, Env: -1, Select: 0, Delay: c.Delay},
		Opt:    vrt.Options{MaxSteps: 600000},
		Body: func(s *vrt.Sched) func() (string, []mcx.Finding) {
			var hist []string
			var fs []mcx.Finding
			fail := func(sig, format string, a ...any) {
				fs = append(fs, mcx.Finding{Sig: sig, What: c.String() + ": " + fmt.Sprintf(format, a...) + "; events [" + strings.Join(hist, " ") + "]"})
			}
			var u *srvw.UDP
			P := &net.UDPAddr{IP: net.IPv4(10, 0, 0, 11), Port: 40001}
			Q := &net.UDPAddr{IP: net.IPv4(10, 0, 0, 12), Port: 40001}
			X, Y, M := net.IPv4(192, 168, 1, 1), net.IPv4(192, 168, 2, 1), net.IPv4(224, 0, 1, 187)
			vrt.App("env", func() {
				implConn := map[string]*client.Conn{} // item label -> connection that handled it
				handlerOrder := map[*client.Conn][]string{}
				u = srvw.NewUDP(srvw.UDPOpts{Wildcard: true, Handler: func(w *responsewriter.ResponseWriter[*client.Conn], r *pool.Message) {
					b, _ := r.ReadBody()
					implConn[string(b)] = w.Conn()
					handlerOrder[w.Conn()] = append(handlerOrder[w.Conn()], string(b))
					if r.Code() == codes.POST {
						_ = w.SetResponse(codes.Changed, message.TextPlain, nil)
					}
				}})
				vrt.Quiesce("env: server up")
				// ---- reference model of the table
				model := map[string]int{} // key -> model connection id
				modelOf := map[string]int{}
				modelConns := 0
				lookup := func(remote *net.UDPAddr, local net.IP) int {
					norm := "*"
					if len(local) > 0 && !local.IsMulticast() && !local.IsUnspecified() {
						norm = local.String()
					}
					if id, ok := model[remote.String()+"|"+norm]; ok {
						return id
					}
					if norm != "*" {
						if id, ok := model[remote.String()+"|*"]; ok {
							return id
						}
					}
					modelConns++
					model[remote.String()+"|"+norm] = modelConns
					return modelConns
				}
				type pending struct {
					label  string
					token  message.Token
					cc     *client.Conn
					done   bool
					got    string
					err    error
					answer string // label of the response datagram the peer addressed to this request
				}
				var dos []*pending
				mid := int32(100)
				alphabet := []string{"P@X", "P@Y", "P@-", "Q@Y", "P@M", "new(P)", "P:resp@X", "new(P,Y)"}
				for step := 0; step < c.Depth; step++ {
					e := alphabet[vrt.Choose(len(alphabet), nil)]
					label := fmt.Sprintf("%d:%s", step, e)
					hist = append(hist, label)
					mid++
					req := func(from *net.UDPAddr, dst net.IP) {
						u.SendDst(from, dst, srvw.EncodeUDP(message.Message{Type: message.Confirmable, Code: codes.POST, MessageID: mid, Token: message.Token{0x10, byte(step)},
							Options: message.Options{{ID: message.URIPath, Value: []byte("echo")}}, Payload: []byte(label)}))
					}
					switch e {
					case "P@X":
						modelOf[label] = lookup(P, X)
						req(P, X)
					case "P@Y":
						modelOf[label] = lookup(P, Y)
						req(P, Y)
					case "P@-":
						modelOf[label] = lookup(P, nil)
						req(P, nil)
					case "Q@Y":
						modelOf[label] = lookup(Q, Y)
						req(Q, Y)
					case "P@M":
						modelOf[label] = lookup(P, M)
						req(P, M)
					case "new(P)", "new(P,Y)":
						var cc *client.Conn
						var err error
						if e == "new(P)" {
							modelOf[label] = lookup(P, nil)
							cc, err = u.S.NewConn(P)
						} else {
							modelOf[label] = lookup(P, Y)
							cc, err = u.S.NewConn(P, &net.UDPAddr{IP: Y, Port: u.L.LocalAddr().(*net.UDPAddr).Port})
						}
						if err != nil {
							fail("pairs/newconn-failed", "%s failed: %v", label, err)
							continue
						}
						implConn[label] = cc
						pd := &pending{label: label, token: message.Token{0xA0, byte(step)}, cc: cc}
						dos = append(dos, pd)
						vrt.App("server-request-"+label, func() {
							ctx, cancel := vrt.WithTimeout(context.Background(), 10*time.Second)
							defer cancel()
							r := cc.AcquireMessage(ctx)
							_ = r.SetupGet("/from-server", pd.token)
							r.SetType(message.NonConfirmable)
							resp, errD := cc.Do(r)
							pd.err = errD
							if errD == nil {
								b, _ := resp.ReadBody()
								pd.got = string(b)
								cc.ReleaseMessage(resp)
							}
							pd.done = true
						})
					case "P:resp@X":
						// P answers the oldest server request that is still waiting (or nobody's)
						tok := message.Token{0xEE}
						for _, pd := range dos {
							if !pd.done && pd.got == "" && pd.answer == "" {
								tok = pd.token
								pd.answer = label
								break
							}
						}
						modelOf[label] = lookup(P, X)
						u.SendDst(P, X, srvw.EncodeUDP(message.Message{Type: message.NonConfirmable, Code: codes.Content, MessageID: mid, Token: tok, Payload: []byte(label)}))
					}
					vrt.Quiesce("env: settled")
				}
				// let the unanswered server requests run into their deadline
				vrt.Advance(11 * time.Second)
				if u.Tick != nil {
					u.Tick(vrt.Now())
				}
				vrt.Quiesce("env: end")
				for _, pd := range dos {
					if pd.done && pd.err == nil && pd.got != "" {
						implConn[pd.got] = pd.cc // the response was consumed by the request waiting on this connection
					}
				}
				// ---- compare the partitions
				var labels []string
				for l := range modelOf {
					labels = append(labels, l)
				}
				sort.Strings(labels)
				for _, l := range labels {
					if implConn[l] == nil {
						fail("pairs/message-not-handled", "%s was handled by no connection (model: connection %d)", l, modelOf[l])
					}
				}
				for i, a := range labels {
					for _, b := range labels[i+1:] {
						if implConn[a] == nil || implConn[b] == nil {
							continue
						}
						sameI, sameM := implConn[a] == implConn[b], modelOf[a] == modelOf[b]
						if sameI != sameM {
							fail("pairs/connection-table-differs-from-model", "%s and %s: same connection in the server = %v, in the model of the (remote, local) table = %v", a, b, sameI, sameM)
						}
					}
				}
				if u.NewConns != modelConns {
					fail("pairs/connection-count", "the server created %d connections, the model %d", u.NewConns, modelConns)
				}
				// a response that the model routes to the connection of a waiting server request must complete it
				for _, pd := range dos {
					if !pd.done {
						continue // reported as a deadlock by the engine
					}
					if pd.answer != "" && modelOf[pd.answer] == modelOf[pd.label] && (pd.err != nil || pd.got != pd.answer) {
						fail("pairs/response-not-delivered-to-request", "%s answers the request issued on the connection of %s (same table entry in the model), but the request ended with err=%v body=%q", pd.answer, pd.label, pd.err, pd.got)
					}
					if pd.err == nil && pd.got != pd.answer {
						fail("pairs/request-got-foreign-response", "the request of %s returned %q, the peer answered it with %q", pd.label, pd.got, pd.answer)
					}
				}
				// per connection: handler order = arrival order
				for cc, seq := range handlerOrder {
					if !sort.StringsAreSorted(seq) {
						fail("pairs/order", "connection %v handled %v out of arrival order", cc.RemoteAddr(), seq)
					}
				}
				// every connection is closed by the application: after the next housekeeping tick the server's table
				// holds nothing for them any more, and a peer that comes back is served by a new connection
				closed := map[*client.Conn]bool{}
				for _, cc := range implConn {
					if cc != nil && !closed[cc] {
						closed[cc] = true
						_ = cc.Close()
					}
				}
				vrt.Quiesce("env: connections closed")
				if u.Tick != nil {
					u.Tick(vrt.Now())
					vrt.Quiesce("env: tick after close")
				}
				if n, _, _ := u.S.VerifSizes(); n != 0 {
					fail("pairs/closed-connections-retained", "after all %d connections were closed and a housekeeping tick ran, the server's connection table still holds %d entries", len(closed), n)
				}
				if len(closed) > 0 {
					mid++
					u.SendDst(P, X, srvw.EncodeUDP(message.Message{Type: message.Confirmable, Code: codes.POST, MessageID: mid, Token: message.Token{0x7F},
						Options: message.Options{{ID: message.URIPath, Value: []byte("echo")}}, Payload: []byte("after-close")}))
					vrt.Quiesce("env: request after close")
					if implConn["after-close"] == nil {
						fail("pairs/peer-not-served-after-close", "a request of a peer whose earlier connection had been closed was not handled")
					} else if closed[implConn["after-close"]] {
						fail("pairs/closed-connection-reused", "a request was handled by a connection that had been closed")
					}
				}
				u.S.Stop()
				vrt.Quiesce("env: stopped")
			})
			return func() (string, []mcx.Finding) {
				if u != nil {
					u.Cleanup()
				}
				return strings.Join(hist, " "), fs
			}
		},
	}
}

// A peer that acknowledges (or resets) a server-initiated confirmable request several times back to back,
// while another peer is being served: the read loop must survive and the other peer must be answered.
func dupAckScenario(kind message.Type, copies int) *mcx.Scenario {
	name := fmt.Sprintf("udp-server with a confirmable request outstanding to a peer that sends %d copies of its %v back to back", copies, kind)
	return &mcx.Scenario{
		Name:   name,
		Bounds: mcx.Bounds{Preempt: 1, Env: -1, Select: 0, Delay: 1},
		Opt:    vrt.Options{MaxSteps: 600000},
		Body: func(s *vrt.Sched) func() (string, []mcx.Finding) {
			var fs []mcx.Finding
			fail := func(sig, format string, a ...any) {
				fs = append(fs, mcx.Finding{Sig: sig, What: name + ": " + fmt.Sprintf(format, a...)})
			}
			var u *srvw.UDP
			doReturned := false
			vrt.App("env", func() {
				handled := 0
				u = srvw.NewUDP(srvw.UDPOpts{Handler: func(w *responsewriter.ResponseWriter[*client.Conn], r *pool.Message) {
					if r.Code() != codes.GET {
						return // (a surplus copy of the Reset reaches the application handler as an unmatched message: nothing to answer)
					}
					handled++
					_ = w.SetResponse(codes.Content, message.TextPlain, nil)
				}})
				P := &net.UDPAddr{IP: net.IPv4(10, 0, 0, 11), Port: 40001}
				Q := &net.UDPAddr{IP: net.IPv4(10, 0, 0, 12), Port: 40001}
				vrt.Quiesce("env: server up")
				cc, err := u.S.NewConn(P)
				if err != nil {
					fail("ENGINE/setup", "NewConn failed: %v", err)
					return
				}
				vrt.App("server-request", func() {
					ctx, cancel := vrt.WithTimeout(context.Background(), 10*time.Second)
					defer cancel()
					r := cc.AcquireMessage(ctx)
					_ = r.SetupGet("/from-server", message.Token{0xA7})
					r.SetType(message.Confirmable)
					resp, errD := cc.Do(r)
					if errD == nil {
						cc.ReleaseMessage(resp)
					}
					doReturned = true
				})
				vrt.Quiesce("env: request on the wire")
				var mid int32 = -1
				for _, o := range u.NewOuts() {
					if m, errM := srvw.DecodeUDP(o.Data); errM == nil && m.Type == message.Confirmable && m.Code == codes.GET {
						mid = m.MessageID
					}
				}
				if mid < 0 {
					fail("ENGINE/setup", "the server-initiated request was not written")
					return
				}
				for i := 0; i < copies; i++ {
					u.Send(P, srvw.EncodeUDP(message.Message{Type: kind, Code: codes.Empty, MessageID: mid}))
				}
				u.Send(Q, srvw.EncodeUDP(message.Message{Type: message.Confirmable, Code: codes.GET, MessageID: 77, Token: message.Token{0x77}, Options: message.Options{{ID: message.URIPath, Value: []byte("x")}}}))
				vrt.Quiesce("env: datagrams handled")
				if u.ServeDone {
					fail("serve-returned", "Serve returned (%v) although the server was not stopped", u.ServeErr)
				}
				answered := false
				for _, o := range u.NewOuts() {
					if o.To.String() == Q.String() {
						answered = true
					}
				}
				if !answered || handled != 1 {
					fail("server-stopped-answering", "the request of the other peer was handled %d times, answered=%v", handled, answered)
				}
				vrt.Advance(11 * time.Second)
				if u.Tick != nil {
					u.Tick(vrt.Now())
				}
				vrt.Quiesce("env: end")
				if !doReturned {
					fail("server-request-never-returned", "the server-initiated request did not return after its deadline")
				}
				u.S.Stop()
				vrt.Quiesce("env: stopped")
			})
			return func() (string, []mcx.Finding) {
				if u != nil {
					u.Cleanup()
				}
				return fmt.Sprint(doReturned), fs
			}
		},
	}
}

func addPairs(r *ev.Run, scs *[]*mcx.Scenario) {
	for _, k := range []message.Type{message.Acknowledgement, message.Reset} {
		*scs = append(*scs, dupAckScenario(k, 2), dupAckScenario(k, 3))
	}
	*scs = append(*scs, pairsScenario(pcfg{Depth: 4}))
	*scs = append(*scs, muxPeersScenario(ev.Pick(r, 1, 2)))
	if r.Thorough() {
		*scs = append(*scs, pairsScenario(pcfg{Depth: 5, Delay: 1}))
	}
}

package main

import (
	"fmt"
	"time"

	"verif/ev"
	"verif/mcx"
	"verif/vrt"
	"verif/worlds/udpw"
)

// The transmission parameters of a connection can be changed while it is in use. A confirmable message without a
// deadline (the connection's own CoAP ping) stays unanswered, is retransmitted a few times, and the application then
// lowers MAX_RETRANSMIT - possibly below the number of copies already sent. Whatever the order, housekeeping ends the
// exchange: no message-ID continuation is left, and nothing is retransmitted for ever.
func reconfigureScenario() *mcx.Scenario {
	name := "udp conn: unanswered ping, MAX_RETRANSMIT lowered at run time after k retransmissions, then housekeeping"
	return &mcx.Scenario{
		Name:   name,
		Bounds: mcx.Bounds{Preempt: 0, Env: -1, Select: 0},
		Opt:    vrt.Options{MaxSteps: 400000},
		Body: func(s *vrt.Sched) func() (string, []mcx.Finding) {
			var fs []mcx.Finding
			desc := ""
			vrt.App("env", func() {
				w := udpw.New(udpw.Opts{NStart: 1, MaxRetransmit: 3, AckTimeout: 2 * time.Second, LimitTotal: 2, LimitEndpoint: 2, QueueSize: 4})
				k := vrt.Choose(4, nil) // ticks (retransmissions) before the change: 0..3
				n := vrt.Choose(3, nil) // new MAX_RETRANSMIT: 0..2
				desc = fmt.Sprintf("k=%d new-max=%d", k, n)
				if _, err := w.CC.AsyncPing(func() {}); err != nil {
					fs = append(fs, mcx.Finding{Sig: "ENGINE/setup", What: name + ": AsyncPing failed: " + err.Error()})
					return
				}
				vrt.Quiesce("env: ping written")
				for i := 0; i < k; i++ {
					w.Tick(20 * time.Second)
					vrt.Quiesce("env: tick")
				}
				before := len(w.Outs)
				w.CC.Transmission().SetTransmissionMaxRetransmit(uint32(n))
				for i := 0; i < 6; i++ {
					w.Tick(60 * time.Second)
					vrt.Quiesce("env: tick after the change")
				}
				sizes := w.CC.VerifSizes()
				if sizes["midHandlers"] != 0 {
					fs = append(fs, mcx.Finding{Sig: "reconfigure/state-outlives-exchanges/midHandlers", What: fmt.Sprintf("%s (%s): six housekeeping ticks after MAX_RETRANSMIT was lowered the connection still holds %d message-ID continuation(s); %d datagrams were written after the change; tables %v", name, desc, sizes["midHandlers"], len(w.Outs)-before, sizes)})
				}
				if after := len(w.Outs) - before; after > 3 {
					fs = append(fs, mcx.Finding{Sig: "reconfigure/retransmitted-beyond-every-limit", What: fmt.Sprintf("%s (%s): %d copies written after the change (old limit 3)", name, desc, after)})
				}
			})
			return func() (string, []mcx.Finding) { return desc, fs }
		},
	}
}

func addReconfigure(r *ev.Run, scs *[]*mcx.Scenario) {
	*scs = append(*scs, reconfigureScenario())
}

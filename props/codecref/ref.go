// Package codecref is the independent reference for the CoAP wire formats used by the C01 and
// C02 checks. It is written from the RFC texts only:
//
//	RFC 7252 §3 (message format), §3.1 (option format), §5.10 Table 4 (option registry)
//	RFC 7641 §2 (Observe), RFC 7959 §2.1/§4 (Block1/Block2/Size2), RFC 7967 §2 (No-Response)
//	RFC 8323 §3.2-3.3 (stream framing), §5.3-5.6 (signalling option registries, per code)
//
// plus the three leniencies the library documents and the properties name:
//
//	L1 an option whose value length is outside the registry bounds for its number is dropped
//	L2 option number 0 is dropped
//	L3 a payload marker followed by nothing means "no payload"
//
// Nothing in this file imports or mirrors the implementation under test.
package codecref

// Opt is one option: number and value.
type Opt struct {
	Num int
	Val []byte
}

// Msg is a CoAP message in reference form. Type and MID are meaningful for datagram framing only.
type Msg struct {
	Type    int
	MID     int
	Code    int
	Token   []byte
	Opts    []Opt
	Payload []byte
}

// ---------------------------------------------------------------------------------------------
// registries

type bounds struct{ min, max int }

// RFC 7252 §5.10 Table 4, RFC 7641 §2, RFC 7959 §2.1 + §4, RFC 7967 §2.
var coapRegistry = map[int]bounds{
	1:   {0, 8},    // If-Match
	3:   {1, 255},  // Uri-Host
	4:   {1, 8},    // ETag
	5:   {0, 0},    // If-None-Match
	6:   {0, 3},    // Observe (RFC 7641)
	7:   {0, 2},    // Uri-Port
	8:   {0, 255},  // Location-Path
	11:  {0, 255},  // Uri-Path
	12:  {0, 2},    // Content-Format
	14:  {0, 4},    // Max-Age
	15:  {0, 255},  // Uri-Query
	17:  {0, 2},    // Accept
	20:  {0, 255},  // Location-Query
	23:  {0, 3},    // Block2 (RFC 7959)
	27:  {0, 3},    // Block1 (RFC 7959)
	28:  {0, 4},    // Size2 (RFC 7959)
	35:  {1, 1034}, // Proxy-Uri
	39:  {1, 255},  // Proxy-Scheme
	60:  {0, 4},    // Size1
	258: {0, 1},    // No-Response (RFC 7967)
}

// RFC 8323 §5.3 .. §5.6: each signalling code has its own option number space.
var (
	csmRegistry      = map[int]bounds{2: {0, 4}, 4: {0, 0}}   // 7.01: Max-Message-Size, Block-Wise-Transfer
	pingPongRegistry = map[int]bounds{2: {0, 0}}              // 7.02, 7.03: Custody
	releaseRegistry  = map[int]bounds{2: {1, 255}, 4: {0, 3}} // 7.04: Alternative-Address, Hold-Off
	abortRegistry    = map[int]bounds{2: {0, 2}}              // 7.05: Bad-CSM-Option
)

func registry(stream bool, code int) map[int]bounds {
	if stream {
		switch code {
		case 0xE1:
			return csmRegistry
		case 0xE2, 0xE3:
			return pingPongRegistry
		case 0xE4:
			return releaseRegistry
		case 0xE5:
			return abortRegistry
		}
	}
	// every other code, including the unassigned 7.xx ones for which no RFC defines options
	return coapRegistry
}

// LegalLen tells whether a value of n bytes is inside the registry bounds for option num under
// the given framing and code; unregistered numbers accept every length.
func LegalLen(stream bool, code, num, n int) bool {
	b, ok := registry(stream, code)[num]
	return !ok || (n >= b.min && n <= b.max)
}

// Registered returns the bounds of a registered option number.
func Registered(stream bool, code, num int) (min, max int, ok bool) {
	b, ok := registry(stream, code)[num]
	return b.min, b.max, ok
}

// ---------------------------------------------------------------------------------------------
// sizes and encoder (RFC 7252 §3, §3.1; RFC 8323 §3.2)

// extBytes: a delta/length of 0-12 lives in the nibble, 13-268 takes one more byte, 269-65804 two.
func extBytes(v int) int {
	switch {
	case v < 13:
		return 0
	case v < 269:
		return 1
	}
	return 2
}

// OptionsSize is the number of bytes the option list occupies (options must be ascending).
func OptionsSize(opts []Opt) int {
	n, prev := 0, 0
	for _, o := range opts {
		n += 1 + extBytes(o.Num-prev) + extBytes(len(o.Val)) + len(o.Val)
		prev = o.Num
	}
	return n
}

func bodySize(m *Msg) int {
	n := OptionsSize(m.Opts)
	if len(m.Payload) > 0 {
		n += 1 + len(m.Payload)
	}
	return n
}

// DatagramSize: 4-byte header, token, options, marker+payload if any payload.
func DatagramSize(m *Msg) int { return 4 + len(m.Token) + bodySize(m) }

// StreamLenExt is the number of extended-length bytes for a body of n bytes (RFC 8323 §3.2).
func StreamLenExt(n int) int {
	switch {
	case n < 13:
		return 0
	case n < 269:
		return 1
	case n < 65805:
		return 2
	}
	return 4
}

// StreamSize: Len/TKL byte, extended length, code, token, body.
func StreamSize(m *Msg) int {
	b := bodySize(m)
	return 1 + StreamLenExt(b) + 1 + len(m.Token) + b
}

func appendNibbleExt(dst []byte, v int) []byte {
	switch {
	case v < 13:
	case v < 269:
		dst = append(dst, byte(v-13))
	default:
		dst = append(dst, byte((v-269)>>8), byte(v-269))
	}
	return dst
}

func nibble(v int) byte {
	switch {
	case v < 13:
		return byte(v)
	case v < 269:
		return 13
	}
	return 14
}

func appendBody(dst []byte, m *Msg) []byte {
	prev := 0
	for _, o := range m.Opts {
		d, l := o.Num-prev, len(o.Val)
		dst = append(dst, nibble(d)<<4|nibble(l))
		dst = appendNibbleExt(dst, d)
		dst = appendNibbleExt(dst, l)
		dst = append(dst, o.Val...)
		prev = o.Num
	}
	if len(m.Payload) > 0 {
		dst = append(dst, 0xFF)
		dst = append(dst, m.Payload...)
	}
	return dst
}

// AppendDatagram appends the RFC 7252 encoding of m (which must satisfy the preconditions).
func AppendDatagram(dst []byte, m *Msg) []byte {
	dst = append(dst, 1<<6|byte(m.Type)<<4|byte(len(m.Token)), byte(m.Code), byte(m.MID>>8), byte(m.MID))
	dst = append(dst, m.Token...)
	return appendBody(dst, m)
}

// AppendStream appends the RFC 8323 encoding of m.
func AppendStream(dst []byte, m *Msg) []byte {
	b := bodySize(m)
	switch StreamLenExt(b) {
	case 0:
		dst = append(dst, byte(b)<<4|byte(len(m.Token)))
	case 1:
		dst = append(dst, 13<<4|byte(len(m.Token)), byte(b-13))
	case 2:
		dst = append(dst, 14<<4|byte(len(m.Token)), byte((b-269)>>8), byte(b-269))
	default:
		e := uint32(b - 65805)
		dst = append(dst, 15<<4|byte(len(m.Token)), byte(e>>24), byte(e>>16), byte(e>>8), byte(e))
	}
	dst = append(dst, byte(m.Code))
	dst = append(dst, m.Token...)
	return appendBody(dst, m)
}

// ---------------------------------------------------------------------------------------------
// parser

// Reject reasons (stable strings; they become part of violation signatures).
const (
	RShortHeader    = "header-truncated"
	RVersion        = "version-not-1"
	RTKL            = "tkl>8"
	RTokenTruncated = "token-truncated"
	RNibble15       = "reserved-nibble-15"
	RExtTruncated   = "option-ext-truncated"
	RValueTruncated = "option-value-truncated"
	ROptNumber      = "option-number>65535"
	RFrameTruncated = "frame-truncated"
)

// Verdict of the reference parser for one byte string.
type Verdict struct {
	OK       bool
	Reason   string // when !OK
	Consumed int    // when OK: datagram = whole string, stream = the first frame
	OptsSeen int    // options completely parsed (kept or dropped) before acceptance/rejection
}

func readExt(b []byte, i int, nib int) (v, ni int, ok bool) {
	switch nib {
	case 13:
		if len(b)-i < 1 {
			return 0, i, false
		}
		return 13 + int(b[i]), i + 1, true
	case 14:
		if len(b)-i < 2 {
			return 0, i, false
		}
		return 269 + int(b[i])<<8 + int(b[i+1]), i + 2, true
	}
	return nib, i, true
}

// parseBody parses options and payload (RFC 7252 §3.1 and the end of §3) into out.Opts / out.Payload.
func parseBody(b []byte, stream bool, code int, out *Msg) (reason string, seen int) {
	out.Opts = out.Opts[:0]
	out.Payload = nil
	num, i := 0, 0
	for i < len(b) {
		if b[i] == 0xFF {
			// payload marker; L3: nothing after it = no payload
			out.Payload = b[i+1:]
			return "", seen
		}
		d, l := int(b[i]>>4), int(b[i]&15)
		if d == 15 || l == 15 {
			return RNibble15, seen
		}
		i++
		var ok bool
		if d, i, ok = readExt(b, i, d); !ok {
			return RExtTruncated, seen
		}
		if l, i, ok = readExt(b, i, l); !ok {
			return RExtTruncated, seen
		}
		if len(b)-i < l {
			return RValueTruncated, seen
		}
		num += d
		if num > 65535 {
			return ROptNumber, seen
		}
		val := b[i : i+l]
		i += l
		seen++
		if num == 0 { // L2
			continue
		}
		if !LegalLen(stream, code, num, l) { // L1
			continue
		}
		out.Opts = append(out.Opts, Opt{Num: num, Val: val})
	}
	return "", seen
}

// ParseDatagram is the RFC 7252 §3 parser.
func ParseDatagram(b []byte, out *Msg) Verdict {
	if len(b) < 4 {
		return Verdict{Reason: RShortHeader}
	}
	if b[0]>>6 != 1 {
		return Verdict{Reason: RVersion}
	}
	tkl := int(b[0] & 15)
	if tkl > 8 {
		return Verdict{Reason: RTKL}
	}
	if len(b)-4 < tkl {
		return Verdict{Reason: RTokenTruncated}
	}
	out.Type = int(b[0] >> 4 & 3)
	out.Code = int(b[1])
	out.MID = int(b[2])<<8 | int(b[3])
	out.Token = b[4 : 4+tkl]
	reason, seen := parseBody(b[4+tkl:], false, out.Code, out)
	if reason != "" {
		return Verdict{Reason: reason, OptsSeen: seen}
	}
	return Verdict{OK: true, Consumed: len(b), OptsSeen: seen}
}

// Header pre-parse status for stream framing.
const (
	HdrOK         = 0
	HdrIncomplete = 1 // more bytes are needed before the fixed part and the token are available
	HdrInvalid    = 2 // format error that no further byte can repair
)

// StreamHeader is the result of pre-parsing the fixed part of a frame (RFC 8323 §3.2).
type StreamHeader struct {
	Status int
	Reason string
	HdrLen int    // Len/TKL byte + extended length + code + token
	Total  uint64 // whole frame; may exceed 2^32 (Len=15 allows bodies up to 65805+2^32-1)
	Code   int
	Token  []byte
}

// ParseStreamHeader pre-parses the start of a stream.
func ParseStreamHeader(b []byte) StreamHeader {
	if len(b) == 0 {
		return StreamHeader{Status: HdrIncomplete, Reason: RShortHeader}
	}
	ln, tkl := int(b[0]>>4), int(b[0]&15)
	if tkl > 8 {
		return StreamHeader{Status: HdrInvalid, Reason: RTKL}
	}
	i := 1
	var body uint64
	switch ln {
	case 13:
		if len(b)-i < 1 {
			return StreamHeader{Status: HdrIncomplete, Reason: RShortHeader}
		}
		body = 13 + uint64(b[i])
		i++
	case 14:
		if len(b)-i < 2 {
			return StreamHeader{Status: HdrIncomplete, Reason: RShortHeader}
		}
		body = 269 + uint64(b[i])<<8 + uint64(b[i+1])
		i += 2
	case 15:
		if len(b)-i < 4 {
			return StreamHeader{Status: HdrIncomplete, Reason: RShortHeader}
		}
		body = 65805 + uint64(b[i])<<24 + uint64(b[i+1])<<16 + uint64(b[i+2])<<8 + uint64(b[i+3])
		i += 4
	default:
		body = uint64(ln)
	}
	if len(b)-i < 1 {
		return StreamHeader{Status: HdrIncomplete, Reason: RShortHeader}
	}
	code := int(b[i])
	i++
	if len(b)-i < tkl {
		return StreamHeader{Status: HdrIncomplete, Reason: RTokenTruncated}
	}
	return StreamHeader{Status: HdrOK, HdrLen: i + tkl, Total: uint64(i+tkl) + body, Code: code, Token: b[i : i+tkl]}
}

// ParseStream parses the first frame of b; bytes after the frame belong to the next message.
func ParseStream(b []byte, out *Msg) Verdict {
	h := ParseStreamHeader(b)
	if h.Status != HdrOK {
		return Verdict{Reason: h.Reason}
	}
	if uint64(len(b)) < h.Total {
		return Verdict{Reason: RFrameTruncated}
	}
	out.Type, out.MID = 0, 0
	out.Code = h.Code
	out.Token = h.Token
	reason, seen := parseBody(b[h.HdrLen:h.Total], true, h.Code, out)
	if reason != "" {
		return Verdict{Reason: reason, OptsSeen: seen}
	}
	return Verdict{OK: true, Consumed: int(h.Total), OptsSeen: seen}
}

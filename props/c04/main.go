// C04 — block-wise transfer delivers the exact body exactly once, or fails.
// Engine E2 (two-party world): two real udp/client.Conn endpoints (client role and server role
// with an application handler), each over its own in-memory session, joined by a relay thread
// that holds the encoded datagrams in flight and decides per datagram: deliver, drop, duplicate,
// deliver out of order, replay an old datagram, or let virtual time pass (retransmission, expiry).
// A second family joins two tcp/client.Conn endpoints by byte streams (BERT).
package main

import (
	"bytes"
	"context"
	"fmt"
	"strings"
	"time"

	"github.com/plgd-dev/go-coap/v3/message"
	"github.com/plgd-dev/go-coap/v3/message/codes"
	"github.com/plgd-dev/go-coap/v3/message/pool"
	"github.com/plgd-dev/go-coap/v3/net/blockwise"
	"github.com/plgd-dev/go-coap/v3/net/responsewriter"
	"github.com/plgd-dev/go-coap/v3/udp/client"

	"verif/ev"
	"verif/mcx"
	"verif/vrt"
	"verif/worlds/track"
	"verif/worlds/udpw"
)

type cfg struct {
	SzxA, SzxB blockwise.SZX
	Up, Down   int    // request body size (Block1) and response body size (Block2); -1 = no body
	Style      string // "do" | "write" (one-way WriteMessage, upload only)
	CON        bool
	Faults     int // deviation budget of the relay
	Two        bool
	Preempt    int
	Changing   bool // the resource changes between handler invocations (new body, new ETag); the server's stored response expires quickly
}

func (c cfg) String() string {
	return fmt.Sprintf("udp two-party szx(client=%d,server=%d) up=%d down=%d style=%s con=%v transfers=%d faults<=%d preempt<=%d changing=%v", c.SzxA, c.SzxB, c.Up, c.Down, c.Style, c.CON, map[bool]int{false: 1, true: 2}[c.Two], c.Faults, c.Preempt, c.Changing)
}

// position-dependent pattern: offset errors are visible
func pattern(n int, salt byte) []byte {
	if n < 0 {
		return nil
	}
	b := make([]byte, n)
	for i := range b {
		b[i] = byte(i*7+i/16) ^ salt
	}
	return b
}

type transfer struct {
	token    message.Token
	up, down []byte
	done     bool
	err      error
	gotBody  []byte
	gotCode  codes.Code
}

func scenario(c cfg) *mcx.Scenario {
	return &mcx.Scenario{
		Name:   c.String(),
		Bounds: mcx.Bounds{Preempt: c.Preempt, Env: c.Faults, Select: 0},
		Opt:    vrt.Options{MaxSteps: 600000},
		Body: func(s *vrt.Sched) func() (string, []mcx.Finding) {
			var hist []string
			var fs []mcx.Finding
			fail := func(sig, format string, a ...any) {
				fs = append(fs, mcx.Finding{Sig: sig, What: c.String() + ": " + fmt.Sprintf(format, a...) + "; relay history [" + strings.Join(hist, " ") + "]"})
			}
			n := 1
			if c.Two {
				n = 2
			}
			trs := make([]*transfer, n)
			type rec struct {
				body  []byte
				path  string
				cf    string
				extra string
			}
			handlerCalls := map[string][]rec{} // by token
			var versions [][]byte
			version := byte(0)
			var A, B *udpw.World
			vrt.App("relay", func() {
				A = udpw.New(udpw.Opts{NStart: 4, MaxRetransmit: 2, LimitTotal: 4, LimitEndpoint: 4, QueueSize: 8, BlockWise: true, SZX: c.SzxA, FirstMID: 1000, BWTimeout: 20 * time.Second})
				bwTimeoutB := 20 * time.Second
				if c.Changing {
					bwTimeoutB = 3 * time.Second
				}
				B = udpw.New(udpw.Opts{NStart: 4, MaxRetransmit: 2, LimitTotal: 4, LimitEndpoint: 4, QueueSize: 8, BlockWise: true, SZX: c.SzxB, FirstMID: 3000, BWTimeout: bwTimeoutB,
					Handler: func(w *responsewriter.ResponseWriter[*client.Conn], r *pool.Message) {
						track.Hold(r, "request inside a handler")
						defer track.Unhold(r)
						if r.Code() != codes.POST && r.Code() != codes.GET {
							return
						}
						b, _ := r.ReadBody()
						p, _ := r.Path()
						cf, _ := r.ContentFormat()
						ex, _ := r.GetOptionBytes(message.OptionID(2049))
						k := fmt.Sprintf("%x", []byte(r.Token()))
						handlerCalls[k] = append(handlerCalls[k], rec{append([]byte{}, b...), p, fmt.Sprint(cf), string(ex)})
						for _, t := range trs {
							if t != nil && fmt.Sprintf("%x", []byte(t.token)) == k {
								if t.down != nil && c.Changing {
									// every invocation serves a new representation: other bytes, other ETag
									version++
									v := pattern(len(t.down), 0x30+version)
									versions = append(versions, v)
									_ = w.SetResponse(codes.Content, message.AppOctets, bytes.NewReader(v), message.Option{ID: message.ETag, Value: []byte{0xE0, version}})
								} else if t.down != nil {
									_ = w.SetResponse(codes.Content, message.AppOctets, bytes.NewReader(t.down))
								} else {
									_ = w.SetResponse(codes.Changed, message.TextPlain, nil)
								}
							}
						}
					}})
				for i := range trs {
					i := i
					trs[i] = &transfer{token: message.Token{0xE0 + byte(i), 0x01}, up: pattern(c.Up, byte(i)*0x55), down: pattern(c.Down, 0xA0+byte(i))}
					t := trs[i]
					vrt.App(fmt.Sprintf("client%d", i), func() {
						ctx, cancel := vrt.WithTimeout(context.Background(), 120*time.Second)
						if c.Style != "write" {
							defer cancel()
						} // (the blocks that follow a one-way WriteMessage are sent under the request's context: the application keeps it alive - it ends with its 120 s deadline)
						_ = cancel
						code := codes.POST
						if t.up == nil {
							code = codes.GET
						}
						typ := message.NonConfirmable
						if c.CON {
							typ = message.Confirmable
						}
						req := A.Request(ctx, code, fmt.Sprintf("/res/%d", i), t.token, typ, nil)
						if t.up != nil {
							req.SetContentFormat(message.AppOctets)
							req.SetBody(bytes.NewReader(t.up))
						}
						req.SetOptionBytes(message.OptionID(2049), []byte("custom")) // elective, unsafe-to-forward unknown option
						if c.Style == "write" {
							t.err = A.CC.WriteMessage(req)
						} else {
							resp, err := A.CC.Do(req)
							t.err = err
							if err == nil {
								track.Hold(resp, "response returned from Do")
								t.gotCode = resp.Code()
								t.gotBody, _ = resp.ReadBody()
								track.Unhold(resp)
								A.CC.ReleaseMessage(resp)
							}
						}
						t.done = true
					})
				}
				// ---- the relay
				type dgram struct {
					raw  []byte
					toB  bool
					desc string
				}
				var flight []dgram
				var delivered []dgram
				seenA, seenB := 0, 0
				ticks := 0
				collect := func() {
					for ; seenA < len(A.Outs); seenA++ {
						flight = append(flight, dgram{A.Outs[seenA].Raw, true, "A>" + short(A.Outs[seenA].M)})
					}
					for ; seenB < len(B.Outs); seenB++ {
						flight = append(flight, dgram{B.Outs[seenB].Raw, false, "B>" + short(B.Outs[seenB].M)})
					}
				}
				deliver := func(d dgram) {
					delivered = append(delivered, d)
					if d.toB {
						_ = B.InjectRaw(d.raw)
					} else {
						_ = A.InjectRaw(d.raw)
					}
				}
				allDone := func() bool {
					for _, t := range trs {
						if !t.done {
							return false
						}
					}
					return true
				}
				for round := 0; round < 400; round++ {
					vrt.Quiesce("relay: settle")
					collect()
					if len(flight) == 0 {
						if allDone() || ticks >= 80 {
							break
						}
						// nothing in flight and a caller still waits: let time pass (retransmission / expiry / deadline)
						ticks++
						hist = append(hist, "tick")
						vrt.Advance(2100 * time.Millisecond)
						A.CC.CheckExpirations(vrt.Now())
						B.CC.CheckExpirations(vrt.Now())
						continue
					}
					type act struct {
						kind string
						cost int8
					}
					acts := []act{{"deliver", 0}, {"drop", 1}, {"dup", 1}}
					if len(flight) > 1 {
						acts = append(acts, act{"swap", 1})
					}
					if len(delivered) > 0 {
						acts = append(acts, act{"replay-old", 1})
					}
					if c.Changing {
						acts = append(acts, act{"wait", 1}) // let 3.5 s pass although datagrams are in flight
					}
					costs := make([]int8, len(acts))
					for i, a := range acts {
						costs[i] = a.cost
					}
					a := acts[vrt.Choose(len(acts), costs)]
					switch a.kind {
					case "deliver":
						hist = append(hist, flight[0].desc)
						deliver(flight[0])
						flight = flight[1:]
					case "drop":
						hist = append(hist, "DROP("+flight[0].desc+")")
						flight = flight[1:]
					case "dup":
						hist = append(hist, "DUP("+flight[0].desc+")")
						d := flight[0]
						deliver(d)
						flight = append([]dgram{d}, flight[1:]...) // the copy stays in flight and is delivered next
					case "swap":
						hist = append(hist, "SWAP("+flight[1].desc+" before "+flight[0].desc+")")
						flight[0], flight[1] = flight[1], flight[0]
					case "wait":
						hist = append(hist, "WAIT(3.5s)")
						vrt.Advance(3500 * time.Millisecond)
						A.CC.CheckExpirations(vrt.Now())
						B.CC.CheckExpirations(vrt.Now())
					case "replay-old":
						k := vrt.Choose(len(delivered), nil)
						hist = append(hist, "REPLAY("+delivered[k].desc+")")
						deliver(delivered[k])
					}
				}
				vrt.Metric("datagrams_relayed", int64(len(delivered)))
				if len(delivered) >= 390 {
					fail("exchange-never-ends", "the two endpoints are still exchanging datagrams after %d deliveries (%d ticks): the exchange neither completes nor fails", len(delivered), ticks)
				}
				// let block-wise state expire, then look at the outcome
				vrt.Quiesce("relay: done")
			})
			return func() (string, []mcx.Finding) {
				var out []string
				for i, t := range trs {
					if t == nil {
						continue
					}
					k := fmt.Sprintf("%x", []byte(t.token))
					calls := handlerCalls[k]
					out = append(out, fmt.Sprintf("%d:%v/%v/h%d", i, t.done, t.err != nil, len(calls)))
					if !t.done {
						continue // reported as a deadlock by the engine
					}
					wantUp := t.up
					if wantUp == nil {
						wantUp = []byte{}
					}
					for j, cl := range calls {
						if !bytes.Equal(cl.body, wantUp) {
							fail("handler-got-wrong-body", "server handler invocation %d for transfer %d got %d bytes %s, the client sent %d bytes %s", j, i, len(cl.body), head(cl.body), len(wantUp), head(wantUp))
						}
						if cl.path != fmt.Sprintf("/res/%d", i) || cl.extra != "custom" || (t.up != nil && cl.cf != fmt.Sprint(message.AppOctets)) {
							fail("handler-got-wrong-options", "server handler for transfer %d got path=%q content-format=%s custom=%q", i, cl.path, cl.cf, cl.extra)
						}
					}
					// "exactly once" is about the application that RECEIVES the body: the server handler for an upload,
					// the caller of Do for a download (a server may re-run an idempotent GET handler for a late block request)
					if len(calls) > 1 && t.up != nil {
						fail("handler-invoked-twice", "server handler ran %d times for one uploaded body (token %s)", len(calls), k)
					}
					// a response with an error code (4.08 Request Entity Incomplete, ...) is a failed exchange, not a body
					if t.err == nil && c.Style == "do" && (t.gotCode == codes.Content || t.gotCode == codes.Changed) {
						if len(calls) < 1 {
							fail("success-without-handler", "Do(%d) succeeded but the server handler never ran", i)
						}
						wantDown := t.down
						if wantDown == nil {
							wantDown = []byte{}
						}
						if t.gotBody == nil {
							t.gotBody = []byte{}
						}
						okBody := bytes.Equal(t.gotBody, wantDown)
						for _, v := range versions {
							if bytes.Equal(t.gotBody, v) {
								okBody = true // any complete representation the server application supplied
							}
						}
						if !okBody {
							fail("client-got-wrong-body", "Do(%d) returned %d bytes %s, the server sent %d bytes %s", i, len(t.gotBody), head(t.gotBody), len(wantDown), head(wantDown))
						}
					}
				}
				// cross-token mixing shows up as wrong bodies above (patterns are salted per transfer)
				return strings.Join(hist, " ") + "|" + strings.Join(out, ","), fs
			}
		},
	}
}

func head(b []byte) string {
	if len(b) > 12 {
		return fmt.Sprintf("%x..", b[:12])
	}
	return fmt.Sprintf("%x", b)
}

func short(m message.Message) string {
	b1, e1 := m.Options.GetUint32(message.Block1)
	b2, e2 := m.Options.GetUint32(message.Block2)
	s := fmt.Sprintf("%v/%v/%x", m.Type, m.Code, []byte(m.Token))
	if e1 == nil {
		s += fmt.Sprintf("/B1:%d%s", b1>>4, map[bool]string{true: "+", false: ""}[b1&8 != 0])
	}
	if e2 == nil {
		s += fmt.Sprintf("/B2:%d%s", b2>>4, map[bool]string{true: "+", false: ""}[b2&8 != 0])
	}
	return s
}

func sizes(B int) []int {
	s := []int{0, 1}
	for k := 1; k <= 3; k++ {
		s = append(s, k*B-1, k*B, k*B+1)
	}
	return s
}

func main() {
	r := ev.Start("C04", "fault_enumeration")
	var scs []*mcx.Scenario
	szxs := ev.Pick(r, []blockwise.SZX{0, 1}, []blockwise.SZX{0, 1, 2, 6})
	for _, a := range szxs {
		for _, b := range szxs {
			blk := 16 << min(a, b)
			for _, n := range sizes(blk) {
				for _, con := range []bool{true, false} {
					f := ev.Pick(r, 2, 3)
					if n > 2*blk || (a != 0 && b != 0) {
						f = ev.Pick(r, 1, 2)
					}
					scs = append(scs, scenario(cfg{SzxA: a, SzxB: b, Up: n, Down: -1, Style: "do", CON: con, Faults: f}))
					scs = append(scs, scenario(cfg{SzxA: a, SzxB: b, Up: -1, Down: n, Style: "do", CON: con, Faults: f}))
					if n == blk+1 || n == 3*blk {
						scs = append(scs, scenario(cfg{SzxA: a, SzxB: b, Up: n, Down: n, Style: "do", CON: con, Faults: ev.Pick(r, 1, 2)}))
						scs = append(scs, scenario(cfg{SzxA: a, SzxB: b, Up: n, Down: -1, Style: "write", CON: con, Faults: ev.Pick(r, 2, 2)}))
					}
				}
			}
		}
	}
	scs = append(scs, scenario(cfg{SzxA: 0, SzxB: 0, Up: 33, Down: -1, Style: "do", CON: true, Two: true, Faults: ev.Pick(r, 1, 2), Preempt: 0}))
	if r.Thorough() {
		scs = append(scs, scenario(cfg{SzxA: 0, SzxB: 0, Up: 33, Down: -1, Style: "do", CON: true, Two: true, Faults: 1, Preempt: 1}))
	}
	for _, con := range []bool{true, false} {
		// the resource changes while a download is in progress (stored response expires after a lost block request)
		scs = append(scs, scenario(cfg{SzxA: 0, SzxB: 0, Up: -1, Down: 40, Style: "do", CON: con, Faults: ev.Pick(r, 2, 3), Changing: true}))
		// two one-way block-wise writes issued concurrently on one connection
		scs = append(scs, scenario(cfg{SzxA: 0, SzxB: 0, Up: 33, Down: -1, Style: "write", CON: con, Two: true, Faults: ev.Pick(r, 0, 1), Preempt: 1}))
		if r.Thorough() {
			scs = append(scs, scenario(cfg{SzxA: 0, SzxB: 0, Up: 33, Down: -1, Style: "write", CON: con, Two: true, Faults: 0, Preempt: 2}))
		}
	}
	scs = append(scs, scenario(cfg{SzxA: 0, SzxB: 0, Up: -1, Down: 33, Style: "do", CON: false, Two: true, Faults: ev.Pick(r, 1, 2), Preempt: 0}))
	if r.Thorough() {
		scs = append(scs, scenario(cfg{SzxA: 0, SzxB: 0, Up: -1, Down: 33, Style: "do", CON: false, Two: true, Faults: 1, Preempt: 1}))
	}
	addPeer(r, &scs)
	addCancel(r, &scs)
	addComponent(r, &scs)
	addObserve(r, &scs)
	addStream(r, &scs)
	sum := mcx.Explore(r, scs, mcx.Config{Wall: ev.Pick(r, 4*time.Minute, 30*time.Minute)})
	mcx.Report(r, scs, sum)
	r.Set("distinct_nontrivial", int64(len(sum.Outcomes)))
	r.Set("rule", "scenario = SZX of the two endpoints x body size (0, 1, k*B-1, k*B, k*B+1 for k=1..3, B = smaller block size) x direction (Block1 upload, Block2 download, both) x style (Do, one-way WriteMessage) x CON|NON, bodies are position-dependent byte patterns salted per transfer; the relay delivers datagrams in order by default and may, within the fault budget, drop, duplicate, swap, or replay an already delivered datagram at every step; when nothing is in flight and a caller still waits virtual time advances by ACK_TIMEOUT+0.1 s and both endpoints run housekeeping (retransmission, expiry, 120 s request deadline); oracle: the server handler runs at most once per transfer and only with the exact body and options, a successful Do returns the exact response body, no caller is parked forever; distinct outcome = distinct (per-transfer result); scripted-peer families: every order (depth 5-7) of upload blocks incl. a stale final block, a foreign-body block and foreign-token blocks (oracle: a delivered body is the in-order concatenation of blocks 0..k ending with the block just processed), and downloads by a conforming virtual receiver (2 tokens) whose initial/previous request is re-delivered with a fresh message ID at any point, changing resource with and without ETag (oracle: a completed in-order reassembly equals one body the application supplied)")
	r.Sample(map[string]any{"scenario": scs[0].Name, "relay_history": "A>CON/POST/e001/B1:0+ DROP(B>ACK/Continue/e001/B1:0+) tick A>CON/POST/e001/B1:0+ ..."})
	r.Assume("two-party world over in-memory sessions; BERT and stream transports are covered by the tcp family (stream.go)", "fault budget counts drop/duplicate/swap/replay decisions; ticks are free")
	r.Finish()
}

package main

import (
	"bytes"
	"context"
	"fmt"
	"strings"
	"time"

	"github.com/plgd-dev/go-coap/v3/message"
	"github.com/plgd-dev/go-coap/v3/message/codes"
	"github.com/plgd-dev/go-coap/v3/message/pool"
	"github.com/plgd-dev/go-coap/v3/net/blockwise"
	"github.com/plgd-dev/go-coap/v3/net/responsewriter"
	"github.com/plgd-dev/go-coap/v3/udp/client"

	"verif/ev"
	"verif/mcx"
	"verif/vrt"
	"verif/worlds/track"
	"verif/worlds/udpw"
)

// Observe x block-wise (RFC 7959 2.6): the registration answer and every notification carry a body of
// several blocks; a notification brings block 0 only and the client fetches the rest with GET requests
// under a new token, which the server application answers from the CURRENT state of the resource.
// Two real endpoints and the relay of main.go; the server application changes the resource (new bytes,
// new ETag) at every notification. Oracle: whatever reaches the observation callback is exactly one
// complete representation the server application supplied - never a mix of two versions, never
// truncated or extended - and versions do not go backwards.

type ocfg struct {
	CON    bool // notifications are confirmable
	Notifs int
	Faults int
	Size   int
	NoETag bool
}

func (c ocfg) String() string {
	return fmt.Sprintf("udp two-party observe x block-wise: body=%d notifications=%d con=%v etag=%v faults<=%d", c.Size, c.Notifs, c.CON, !c.NoETag, c.Faults)
}

func observeScenario(c ocfg) *mcx.Scenario {
	return &mcx.Scenario{
		Name:   c.String(),
		Bounds: mcx.Bounds{Preempt: 0, Env: c.Faults, Select: 0},
		Opt:    vrt.Options{MaxSteps: 600000},
		Body: func(s *vrt.Sched) func() (string, []mcx.Finding) {
			var hist []string
			var fs []mcx.Finding
			fail := func(sig, format string, a ...any) {
				fs = append(fs, mcx.Finding{Sig: sig, What: c.String() + ": " + fmt.Sprintf(format, a...) + "; relay history [" + strings.Join(hist, " ") + "]"})
			}
			var got [][]byte
			var versions [][]byte
			regDone := false
			var regErr error
			vrt.App("relay", func() {
				cur := 0
				body := func(v int) []byte { return pattern(c.Size, 0x60+byte(v)) }
				versions = append(versions, body(0))
				var obsToken message.Token
				A := udpw.New(udpw.Opts{NStart: 4, MaxRetransmit: 2, LimitTotal: 4, LimitEndpoint: 4, QueueSize: 8, BlockWise: true, SZX: blockwise.SZX16, FirstMID: 1000, BWTimeout: 20 * time.Second})
				B := udpw.New(udpw.Opts{NStart: 4, MaxRetransmit: 2, LimitTotal: 4, LimitEndpoint: 4, QueueSize: 8, BlockWise: true, SZX: blockwise.SZX16, FirstMID: 3000, BWTimeout: 20 * time.Second,
					Handler: func(w *responsewriter.ResponseWriter[*client.Conn], r *pool.Message) {
						track.Hold(r, "request inside a handler")
						defer track.Unhold(r)
						if r.Code() != codes.GET {
							return
						}
						opts := []message.Option{}
						if !c.NoETag {
							opts = append(opts, message.Option{ID: message.ETag, Value: []byte{0xE8, byte(cur)}})
						}
						if ov, err := r.Observe(); err == nil && ov == 0 {
							obsToken = append(message.Token{}, r.Token()...)
							b := make([]byte, 4)
							n, _ := message.EncodeUint32(b, uint32(cur+1))
							opts = append(opts, message.Option{ID: message.Observe, Value: b[:n]})
						}
						_ = w.SetResponse(codes.Content, message.AppOctets, bytes.NewReader(body(cur)), opts...)
					}})
				vrt.App("observer", func() {
					_, err := A.CC.Observe(context.Background(), "/obs", func(n *pool.Message) {
						track.Hold(n, "notification inside a callback")
						defer track.Unhold(n)
						b, _ := n.ReadBody()
						got = append(got, append([]byte{}, b...))
					})
					regErr, regDone = err, true
				})
				type dgram struct {
					raw  []byte
					toB  bool
					desc string
				}
				var flight, delivered []dgram
				seenA, seenB := 0, 0
				collect := func() {
					for ; seenA < len(A.Outs); seenA++ {
						flight = append(flight, dgram{A.Outs[seenA].Raw, true, "A>" + short(A.Outs[seenA].M)})
					}
					for ; seenB < len(B.Outs); seenB++ {
						flight = append(flight, dgram{B.Outs[seenB].Raw, false, "B>" + short(B.Outs[seenB].M)})
					}
				}
				deliver := func(d dgram) {
					delivered = append(delivered, d)
					if d.toB {
						_ = B.InjectRaw(d.raw)
					} else {
						_ = A.InjectRaw(d.raw)
					}
				}
				notified, ticks := 0, 0
				for round := 0; round < 300; round++ {
					vrt.Quiesce("relay: settle")
					collect()
					type act struct {
						kind string
						cost int8
					}
					var acts []act
					if len(flight) > 0 {
						acts = append(acts, act{"deliver", 0})
					}
					if obsToken != nil && notified < c.Notifs {
						// the server application changes the resource and notifies; free at any point of the exchange
						acts = append(acts, act{"notify", 0})
					}
					if len(flight) > 0 {
						acts = append(acts, act{"drop", 1}, act{"dup", 1})
						if len(flight) > 1 {
							acts = append(acts, act{"swap", 1})
						}
					}
					if len(acts) == 0 {
						if ticks >= 12 {
							break
						}
						ticks++
						hist = append(hist, "tick")
						vrt.Advance(2100 * time.Millisecond)
						A.CC.CheckExpirations(vrt.Now())
						B.CC.CheckExpirations(vrt.Now())
						continue
					}
					if acts[0].kind == "notify" && len(acts) == 1 && len(flight) == 0 {
						// nothing in flight: notifying is the only thing that can happen besides time passing
						acts = append(acts, act{"tick", 0})
					}
					costs := make([]int8, len(acts))
					for i, a := range acts {
						costs[i] = a.cost
					}
					a := acts[vrt.Choose(len(acts), costs)]
					switch a.kind {
					case "deliver":
						hist = append(hist, flight[0].desc)
						deliver(flight[0])
						flight = flight[1:]
					case "drop":
						hist = append(hist, "DROP("+flight[0].desc+")")
						flight = flight[1:]
					case "dup":
						hist = append(hist, "DUP("+flight[0].desc+")")
						d := flight[0]
						deliver(d)
					case "swap":
						hist = append(hist, "SWAP")
						flight[0], flight[1] = flight[1], flight[0]
					case "tick":
						ticks++
						hist = append(hist, "tick")
						vrt.Advance(2100 * time.Millisecond)
						A.CC.CheckExpirations(vrt.Now())
						B.CC.CheckExpirations(vrt.Now())
						if ticks >= 12 {
							notified = c.Notifs
						}
					case "notify":
						notified++
						cur++
						versions = append(versions, body(cur))
						hist = append(hist, fmt.Sprintf("NOTIFY(v%d)", cur))
						v, tok := cur, obsToken
						vrt.App(fmt.Sprintf("notifier%d", v), func() {
							ctx, cancel := vrt.WithTimeout(context.Background(), 30*time.Second)
							defer cancel()
							m := B.CC.AcquireMessage(ctx)
							defer B.CC.ReleaseMessage(m)
							m.SetCode(codes.Content)
							m.SetToken(tok)
							m.SetObserve(uint32(v + 1))
							m.SetContentFormat(message.AppOctets)
							if !c.NoETag {
								_ = m.SetETag([]byte{0xE8, byte(v)})
							}
							m.SetBody(bytes.NewReader(body(v)))
							if c.CON {
								m.SetType(message.Confirmable)
							} else {
								m.SetType(message.NonConfirmable)
							}
							_ = B.CC.WriteMessage(m)
						})
					}
				}
				vrt.Metric("datagrams_relayed", int64(len(delivered)))
				vrt.Metric("observe_callback_bodies", int64(len(got)))
				// end of the history: let every pending wait run into its deadline
				for i := 0; i < 20; i++ {
					vrt.Advance(2100 * time.Millisecond)
					A.CC.CheckExpirations(vrt.Now())
					B.CC.CheckExpirations(vrt.Now())
					vrt.Quiesce("relay: draining")
				}
				_ = A.CC.Close()
				_ = B.CC.Close()
			})
			return func() (string, []mcx.Finding) {
				if regDone && regErr == nil && len(got) == 0 {
					fail("observe/registered-without-first-representation", "Observe returned success but the callback never got the representation of the registration answer")
				}
				last := -1
				for i, g := range got {
					which := -1
					for v, b := range versions {
						if bytes.Equal(b, g) {
							which = v
						}
					}
					if which < 0 {
						fail("observe/callback-got-mixed-or-partial-body", "callback invocation %d got %d bytes %s, which is none of the %d representations the server application supplied (%d bytes each)", i, len(g), head(g), len(versions), c.Size)
						continue
					}
					if which < last {
						fail("observe/version-went-backwards", "callback invocation %d got version %d after version %d", i, which, last)
					}
					last = which
				}
				return fmt.Sprintf("%s|%v/%v/%d", strings.Join(hist, " "), regDone, regErr != nil, len(got)), fs
			}
		},
	}
}

func addObserve(r *ev.Run, scs *[]*mcx.Scenario) {
	for _, con := range []bool{false, true} {
		*scs = append(*scs, observeScenario(ocfg{CON: con, Notifs: ev.Pick(r, 1, 2), Faults: 1, Size: 40}))
		if r.Thorough() {
			// (two notifications with two faults are > 15 M executions per variant: the second fault is explored with one notification)
			*scs = append(*scs, observeScenario(ocfg{CON: con, Notifs: 1, Faults: 2, Size: 40}))
		}
	}
	*scs = append(*scs, observeScenario(ocfg{CON: false, Notifs: 2, Faults: ev.Pick(r, 0, 1), Size: 33}))
}

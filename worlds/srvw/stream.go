package srvw

import (
	"context"
	"net"
	"time"

	dtlsserver "github.com/plgd-dev/go-coap/v3/dtls/server"
	"github.com/plgd-dev/go-coap/v3/message"
	"github.com/plgd-dev/go-coap/v3/message/pool"
	coapNet "github.com/plgd-dev/go-coap/v3/net"
	tcpclient "github.com/plgd-dev/go-coap/v3/tcp/client"
	tcpserver "github.com/plgd-dev/go-coap/v3/tcp/server"
	udpclient "github.com/plgd-dev/go-coap/v3/udp/client"

	"verif/vrt"
	"verif/worlds/tcpw"
)

// Listener is the harness listener for the tcp and dtls servers.
type Listener struct {
	Pending []net.Conn
	Closed  bool
	Accepts int
}

func (l *Listener) Close() error { l.Closed = true; return nil }
func (l *Listener) AcceptWithContext(ctx context.Context) (net.Conn, error) {
	vrt.WaitUntil("Listener.Accept", func() bool { return len(l.Pending) > 0 || l.Closed || ctx.Err() != nil })
	l.Accepts++
	if l.Closed {
		return nil, coapNet.ErrListenerIsClosed
	}
	if ctx.Err() != nil {
		return nil, ctx.Err()
	}
	c := l.Pending[0]
	l.Pending = l.Pending[1:]
	if r, ok := c.(refused); ok {
		// what pion's listener returns when the application's OnConnectionAttempt hook refuses a peer:
		// an error together with a non-nil interface holding a nil connection
		var none *hsConn
		return none, r.err
	}
	return c, nil
}

// refused is a queue entry for a connection attempt the listener itself turns down.
type refused struct {
	net.Conn
	err error
}

// Refuse queues a connection attempt that Accept reports as (typed-nil conn, err).
func (l *Listener) Refuse(err error) { l.Pending = append(l.Pending, refused{err: err}) }

// PeerConn is one peer's connection as seen from the peer: write = append to St.In, read = St.Out.
type PeerConn struct {
	St     *tcpw.Stream
	Remote string
	parsed int
}

type hsConn struct {
	*tcpw.Stream
	remote addrT
}

type addrT string

func (a addrT) Network() string { return "tcp" }
func (a addrT) String() string  { return string(a) }

type plainConn struct {
	*tcpw.Stream
	remote addrT
}

func (c plainConn) RemoteAddr() net.Addr { return c.remote }
func (c hsConn) RemoteAddr() net.Addr    { return c.remote }
func (c hsConn) HandshakeContext(ctx context.Context) error {
	return c.Stream.Handshake(ctx)
}

// Connect queues a new connection from remote; handshake == nil: plain conn, else the conn has a
// HandshakeContext with that behaviour (TLS / DTLS path).
func (l *Listener) Connect(remote string, handshake func(ctx context.Context) error) *PeerConn {
	st := &tcpw.Stream{Handshake: handshake}
	if handshake != nil {
		l.Pending = append(l.Pending, hsConn{st, addrT(remote)})
	} else {
		l.Pending = append(l.Pending, plainConn{st, addrT(remote)})
	}
	return &PeerConn{St: st, Remote: remote}
}

// HandshakeStall blocks until the context is done (a peer that connects and stalls).
func HandshakeStall(ctx context.Context) error {
	vrt.Recv(ctx.Done())
	return ctx.Err()
}

type tcpOpt func(cfg *tcpserver.Config)

func (o tcpOpt) TCPServerApply(cfg *tcpserver.Config) { o(cfg) }

type TCP struct {
	Tick      func(now time.Time) bool // the housekeeping function the server handed to its PeriodicRunner
	S         *tcpserver.Server
	L         *Listener
	Errors    []string
	ServeErr  error
	ServeDone bool
	NewConns  int
}

type StreamOpts struct {
	TCPHandler   tcpserver.HandlerFunc
	DTLSHandler  dtlsserver.HandlerFunc
	MaxMsgSize   uint32
	CacheSize    uint16
	HSTimeout    time.Duration
	EnableCSM    bool
	Transmission *Transmission                // NSTART / ACK_TIMEOUT / MAX_RETRANSMIT of the server's per-peer connections
	DTLSExtra    func(cfg *dtlsserver.Config) // further configuration (e.g. a monitor built by the real options)
	OnNewTCP     func(cc *tcpclient.Conn)
	OnNewDTLS    func(cc *udpclient.Conn)
}

func NewTCP(o StreamOpts) *TCP {
	t := &TCP{L: &Listener{}}
	tok := byte(0)
	t.S = tcpserver.New(tcpOpt(func(cfg *tcpserver.Config) {
		cfg.Handler = o.TCPHandler
		cfg.Errors = func(err error) { t.Errors = append(t.Errors, err.Error()) }
		cfg.PeriodicRunner = func(f func(time.Time) bool) { t.Tick = f }
		cfg.MessagePool = pool.New(0, 0)
		cfg.GetToken = func() (message.Token, error) { tok++; return message.Token{0xdd, tok}, nil }
		cfg.DisableTCPSignalMessageCSM = !o.EnableCSM
		cfg.BlockwiseEnable = false
		if o.MaxMsgSize != 0 {
			cfg.MaxMessageSize = o.MaxMsgSize
		}
		if o.CacheSize != 0 {
			cfg.ConnectionCacheSize = o.CacheSize
		}
		cfg.OnNewConn = func(cc *tcpclient.Conn) {
			t.NewConns++
			if o.OnNewTCP != nil {
				o.OnNewTCP(cc)
			}
		}
	}))
	vrt.Lib("tcp-server-serve", func() {
		t.ServeErr = t.S.Serve(t.L)
		t.ServeDone = true
	})
	return t
}

// Transmission parameters (RFC 7252 4.8).
type Transmission struct {
	NStart        uint32
	AckTimeout    time.Duration
	MaxRetransmit uint32
}

type dtlsOpt func(cfg *dtlsserver.Config)

func (o dtlsOpt) DTLSServerApply(cfg *dtlsserver.Config) { o(cfg) }

type DTLS struct {
	Tick      func(now time.Time) bool // the housekeeping function the server handed to its PeriodicRunner
	S         *dtlsserver.Server
	L         *Listener
	Errors    []string
	ServeErr  error
	ServeDone bool
	NewConns  int
}

func NewDTLS(o StreamOpts) *DTLS {
	t := &DTLS{L: &Listener{}}
	tok := byte(0)
	mid := int32(40000)
	t.S = dtlsserver.New(dtlsOpt(func(cfg *dtlsserver.Config) {
		cfg.Handler = o.DTLSHandler
		cfg.Errors = func(err error) { t.Errors = append(t.Errors, err.Error()) }
		cfg.PeriodicRunner = func(f func(time.Time) bool) { t.Tick = f }
		cfg.MessagePool = pool.New(0, 0)
		cfg.GetToken = func() (message.Token, error) { tok++; return message.Token{0xdd, tok}, nil }
		cfg.GetMID = func() int32 { mid++; return mid }
		cfg.BlockwiseEnable = false
		cfg.HandshakeTimeout = o.HSTimeout
		cfg.TransmissionMaxRetransmit = 1
		if o.Transmission != nil {
			cfg.TransmissionNStart, cfg.TransmissionAcknowledgeTimeout, cfg.TransmissionMaxRetransmit = o.Transmission.NStart, o.Transmission.AckTimeout, o.Transmission.MaxRetransmit
		}
		if o.DTLSExtra != nil {
			o.DTLSExtra(cfg)
		}
		if o.MaxMsgSize != 0 {
			cfg.MaxMessageSize = o.MaxMsgSize
		}
		cfg.OnNewConn = func(cc *udpclient.Conn) {
			t.NewConns++
			if o.OnNewDTLS != nil {
				o.OnNewDTLS(cc)
			}
		}
	}))
	vrt.Lib("dtls-server-serve", func() {
		t.ServeErr = t.S.Serve(t.L)
		t.ServeDone = true
	})
	return t
}

// SendFrames queues byte chunks on a peer connection.
func (p *PeerConn) Send(chunks ...[]byte) {
	for _, c := range chunks {
		p.St.In = append(p.St.In, append([]byte{}, c...))
	}
}

// NewBytes returns what the server wrote to this peer since the last call.
func (p *PeerConn) NewBytes() []byte {
	b := p.St.Out[p.parsed:]
	p.parsed = len(p.St.Out)
	return b
}

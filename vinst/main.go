// vinst: type-aware source instrumenter. Reads the CURRENT files of the go-coap packages in
// scope from -repo, rewrites every synchronisation construct to the vrt runtime and emits an
// overlay.json for `go build -overlay`. /repo itself is never modified.
package main

import (
	"bytes"
	"encoding/json"
	"flag"
	"fmt"
	"go/ast"
	"go/printer"
	"go/token"
	"go/types"
	"os"
	"path/filepath"
	"sort"
	"strconv"
	"strings"

	"golang.org/x/tools/go/ast/astutil"
	"golang.org/x/tools/go/packages"
)

const coap = "github.com/plgd-dev/go-coap/v3"

var importMap = map[string]string{
	"sync":                        "verif/shim/vsync",
	"sync/atomic":                 "verif/shim/satomic",
	"go.uber.org/atomic":          "verif/shim/uatomic",
	"crypto/rand":                 "verif/shim/vrand",
	"golang.org/x/sync/semaphore": "verif/shim/vsemaphore",
}

var scope = []string{
	"pkg/sync", "pkg/cache", "pkg/connections", "pkg/fn", "pkg/runner/periodic",
	"udp/client", "udp/server", "udp", "tcp/client", "tcp/server", "tcp", "dtls/server", "dtls",
	"net", "net/client", "net/client/limitParallelRequests", "net/observation", "net/blockwise",
	"net/monitor/inactivity", "net/responsewriter", "message", "message/pool", "mux", "options", "options/config",
}

var timeFuncs = map[string]bool{"Now": true, "After": true, "Sleep": true, "NewTimer": true, "NewTicker": true, "AfterFunc": true, "Since": true, "Until": true}

type stats struct {
	Files, Gos, Sends, Recvs, Closes, Selects, MapRanges, ChanRanges, TimeCalls, CtxCalls, Imports int
}

var verifRoot string

func main() {
	repo := flag.String("repo", "/repo", "go-coap tree to instrument")
	out := flag.String("out", "", "output directory")
	variant := flag.String("variant", "std", "instrumentation variant (std | c12)")
	flag.Parse()
	if *out == "" {
		fatal("missing -out")
	}
	wd, _ := os.Getwd()
	verifRoot = wd
	absOut, _ := filepath.Abs(*out)
	_ = os.MkdirAll(absOut, 0o755)

	overlay := map[string]string{}
	var st stats

	var pats []string
	for _, p := range scope {
		pats = append(pats, coap+"/"+p)
	}
	env := append(os.Environ(), "GOPROXY=off")
	if os.Getenv("GOFLAGS") == "" {
		env = append(env, "GOFLAGS=-mod=mod")
	}
	mode := packages.NeedName | packages.NeedFiles | packages.NeedSyntax | packages.NeedTypes | packages.NeedTypesInfo | packages.NeedImports
	load := func(dir string, pats ...string) []*packages.Package {
		pkgs, err := packages.Load(&packages.Config{Mode: mode, Dir: dir, Env: env}, pats...)
		if err != nil {
			fatal("load: %v", err)
		}
		for _, p := range pkgs {
			if len(p.Errors) > 0 {
				fatal("package %s does not type-check: %v", p.PkgPath, p.Errors)
			}
		}
		return pkgs
	}
	// go-coap packages are loaded through the harness module so that `replace` points at -repo
	pkgs := load(wd, pats...)
	pkgs = append(pkgs, load(wd, "verif/shim/vsemaphore")...)
	written := map[string]bool{}
	for _, p := range pkgs {
		for _, f := range p.Syntax {
			src := p.Fset.Position(f.Package).Filename
			if strings.HasSuffix(src, "_test.go") {
				continue
			}
			r := &rw{p: p, f: f, st: &st}
			r.file()
			if p.PkgPath == coap+"/message/pool" {
				injectPoison(f)
			}
			if *variant == "c12" && p.PkgPath == coap+"/message/pool" {
				injectTracker(f)
			}
			var buf bytes.Buffer
			if err := (&printer.Config{Mode: printer.UseSpaces | printer.TabIndent, Tabwidth: 8}).Fprint(&buf, p.Fset, f); err != nil {
				fatal("print %s: %v", src, err)
			}
			dst := filepath.Join(absOut, strings.ReplaceAll(strings.TrimPrefix(src, "/"), "/", "__"))
			writeIfChanged(dst, buf.Bytes())
			written[dst] = true
			overlay[src] = dst
			st.Files++
		}
	}
	// additive accessor files (build tag verif) injected into package directories
	hookRoot := filepath.Join(wd, "hooks", *variant)
	_ = filepath.Walk(hookRoot, func(path string, info os.FileInfo, err error) error {
		if err != nil || info.IsDir() || !strings.HasSuffix(path, ".go") {
			return nil
		}
		rel, _ := filepath.Rel(hookRoot, path)
		b, _ := os.ReadFile(path)
		if strings.HasSuffix(rel, ".replace.go") {
			// whole-file replacement of a repository file (variant-specific wrappers)
			target := filepath.Join(*repo, strings.TrimSuffix(rel, ".replace.go")+".go")
			dst := filepath.Join(absOut, "hook__"+strings.ReplaceAll(rel, "/", "__"))
			writeIfChanged(dst, b)
			written[dst] = true
			overlay[target] = dst
			return nil
		}
		dst := filepath.Join(absOut, "hook__"+strings.ReplaceAll(rel, "/", "__"))
		writeIfChanged(dst, b)
		written[dst] = true
		overlay[filepath.Join(*repo, rel)] = dst
		return nil
	})
	if *variant != "std" {
		// variants extend std hooks
		stdRoot := filepath.Join(wd, "hooks", "std")
		_ = filepath.Walk(stdRoot, func(path string, info os.FileInfo, err error) error {
			if err != nil || info.IsDir() || !strings.HasSuffix(path, ".go") {
				return nil
			}
			rel, _ := filepath.Rel(stdRoot, path)
			if _, ok := overlay[filepath.Join(*repo, rel)]; ok {
				return nil
			}
			b, _ := os.ReadFile(path)
			dst := filepath.Join(absOut, "hook__"+strings.ReplaceAll(rel, "/", "__"))
			writeIfChanged(dst, b)
			written[dst] = true
			overlay[filepath.Join(*repo, rel)] = dst
			return nil
		})
	}
	// remove stale outputs
	ents, _ := os.ReadDir(absOut)
	for _, e := range ents {
		p := filepath.Join(absOut, e.Name())
		if strings.HasSuffix(p, ".go") && !written[p] {
			_ = os.Remove(p)
		}
	}
	b, _ := json.MarshalIndent(map[string]any{"Replace": overlay}, "", " ")
	writeIfChanged(filepath.Join(absOut, "overlay.json"), b)
	sb, _ := json.Marshal(st)
	writeIfChanged(filepath.Join(absOut, "stats.json"), sb)
	fmt.Printf("vinst: %s\n", sb)
}

func fatal(f string, a ...any) {
	fmt.Fprintf(os.Stderr, "vinst: "+f+"\n", a...)
	os.Exit(1)
}

func writeIfChanged(dst string, b []byte) {
	if old, err := os.ReadFile(dst); err == nil && bytes.Equal(old, b) {
		return
	}
	tmp := dst + ".tmp" + strconv.Itoa(os.Getpid())
	if err := os.WriteFile(tmp, b, 0o644); err != nil {
		fatal("write %s: %v", tmp, err)
	}
	if err := os.Rename(tmp, dst); err != nil {
		fatal("rename: %v", err)
	}
}

type rw struct {
	skip   map[ast.Node]bool
	p      *packages.Package
	f      *ast.File
	st     *stats
	needV  bool
	needVT bool
	needVC bool
	tmp    int
}

func sel(pkg, name string) ast.Expr {
	return &ast.SelectorExpr{X: ast.NewIdent(pkg), Sel: ast.NewIdent(name)}
}
func call(pkg, name string, args ...ast.Expr) *ast.CallExpr {
	return &ast.CallExpr{Fun: sel(pkg, name), Args: args}
}

func (r *rw) pkgFunc(e ast.Expr, pkgPath string) (string, bool) {
	s, ok := e.(*ast.SelectorExpr)
	if !ok {
		return "", false
	}
	id, ok := s.X.(*ast.Ident)
	if !ok {
		return "", false
	}
	if _, isPkg := r.p.TypesInfo.Uses[id].(*types.PkgName); !isPkg {
		return "", false
	}
	obj := r.p.TypesInfo.Uses[s.Sel]
	if obj == nil || obj.Pkg() == nil || obj.Pkg().Path() != pkgPath {
		return "", false
	}
	if _, ok := obj.(*types.Func); !ok {
		return "", false
	}
	return s.Sel.Name, true
}

func (r *rw) pos(n ast.Node) string { return r.p.Fset.Position(n.Pos()).String() }

func (r *rw) file() {
	for _, im := range r.f.Imports {
		path, _ := strconv.Unquote(im.Path.Value)
		if np, ok := importMap[path]; ok {
			if im.Name == nil {
				base := path[strings.LastIndex(path, "/")+1:]
				im.Name = ast.NewIdent(base)
			}
			im.Path.Value = strconv.Quote(np)
			r.st.Imports++
		}
	}
	// refuse constructs the runtime does not model
	ast.Inspect(r.f, func(n ast.Node) bool {
		if s, ok := n.(*ast.SelectorExpr); ok {
			if obj := r.p.TypesInfo.Uses[s.Sel]; obj != nil && obj.Pkg() != nil {
				switch obj.Pkg().Path() + "." + obj.Name() {
				case "sync.Cond", "sync.NewCond", "reflect.Select", "context.AfterFunc", "time.Tick":
					fatal("%s: unmodelled construct %s.%s", r.pos(n), obj.Pkg().Path(), obj.Name())
				}
			}
		}
		return true
	})
	r.skip = map[ast.Node]bool{}
	ast.Inspect(r.f, func(n ast.Node) bool {
		if cc, ok := n.(*ast.CommClause); ok && cc.Comm != nil {
			switch comm := cc.Comm.(type) {
			case *ast.SendStmt:
				r.skip[comm] = true
			case *ast.ExprStmt:
				r.skip[comm.X] = true
			case *ast.AssignStmt:
				r.skip[comm.Rhs[0]] = true
			}
		}
		return true
	})
	astutil.Apply(r.f, nil, r.post)
	if !astutil.UsesImport(r.f, "time") {
		astutil.DeleteImport(r.p.Fset, r.f, "time")
	}
	var keep []*ast.CommentGroup
	for _, cg := range r.f.Comments {
		if cg.End() < r.f.Package {
			keep = append(keep, cg)
		}
	}
	r.f.Comments = keep
	if r.needV {
		astutil.AddNamedImport(r.p.Fset, r.f, "vrt", "verif/vrt")
	}
	if r.needVT {
		astutil.AddNamedImport(r.p.Fset, r.f, "vtime", "verif/shim/vtime")
	}
	if r.needVC {
		astutil.AddNamedImport(r.p.Fset, r.f, "vctx", "verif/shim/vctx")
	}
}

func (r *rw) post(c *astutil.Cursor) bool {
	switch n := c.Node().(type) {
	case *ast.SelectStmt:
		r.st.Selects++
		r.needV = true
		c.Replace(r.selectStmt(n))
	case *ast.GoStmt:
		r.st.Gos++
		r.needV = true
		if n.Call.Ellipsis.IsValid() {
			fatal("%s: go statement with variadic spread is not supported", r.pos(n))
		}
		if len(n.Call.Args) > 4 {
			fatal("%s: go statement with more than 4 arguments", r.pos(n))
		}
		args := append([]ast.Expr{n.Call.Fun}, n.Call.Args...)
		c.Replace(&ast.ExprStmt{X: call("vrt", "Go"+strconv.Itoa(len(n.Call.Args)), args...)})
	case *ast.SendStmt:
		if r.skip[n] {
			return true
		}
		r.st.Sends++
		r.needV = true
		c.Replace(&ast.ExprStmt{X: call("vrt", "Send", n.Chan, n.Value)})
	case *ast.UnaryExpr:
		if n.Op == token.ARROW && !r.skip[n] {
			r.st.Recvs++
			r.needV = true
			if as, ok := c.Parent().(*ast.AssignStmt); ok && len(as.Lhs) == 2 && len(as.Rhs) == 1 {
				c.Replace(call("vrt", "Recv2", n.X))
			} else if vs, ok := c.Parent().(*ast.ValueSpec); ok && len(vs.Names) == 2 && len(vs.Values) == 1 {
				c.Replace(call("vrt", "Recv2", n.X))
			} else {
				c.Replace(call("vrt", "Recv", n.X))
			}
		}
	case *ast.CallExpr:
		if id, ok := n.Fun.(*ast.Ident); ok && id.Name == "close" {
			if _, isB := r.p.TypesInfo.Uses[id].(*types.Builtin); isB {
				r.st.Closes++
				r.needV = true
				c.Replace(call("vrt", "Close", n.Args...))
			}
		}
		if name, ok := r.pkgFunc(n.Fun, "time"); ok && timeFuncs[name] {
			r.st.TimeCalls++
			r.needVT = true
			n.Fun = sel("vtime", name)
		}
		if name, ok := r.pkgFunc(n.Fun, "context"); ok && (name == "WithTimeout" || name == "WithDeadline") {
			r.st.CtxCalls++
			r.needVC = true
			n.Fun = sel("vctx", name)
		}
	case *ast.SelectorExpr:
		// function values such as `time.Now` passed around (not called)
		if _, isCall := c.Parent().(*ast.CallExpr); !isCall {
			if name, ok := r.pkgFunc(n, "time"); ok && timeFuncs[name] {
				r.st.TimeCalls++
				r.needVT = true
				c.Replace(sel("vtime", name))
			}
		}
	case *ast.RangeStmt:
		t := r.p.TypesInfo.TypeOf(n.X)
		if t != nil {
			switch t.Underlying().(type) {
			case *types.Map:
				r.st.MapRanges++
				r.needV = true
				n.X = call("vrt", "MapRange", n.X)
			case *types.Chan:
				r.st.ChanRanges++
				r.needV = true
				n.X = call("vrt", "RangeChan", n.X)
			}
		}
	}
	return true
}

func (r *rw) selectStmt(s *ast.SelectStmt) ast.Stmt {
	r.tmp++
	id := r.tmp
	var pre []ast.Stmt
	var caseArgs []ast.Expr
	hasDefault := "false"
	sw := &ast.SwitchStmt{Body: &ast.BlockStmt{}}
	selName := fmt.Sprintf("__sel%d", id)
	idx := 0
	for _, cl := range s.Body.List {
		cc := cl.(*ast.CommClause)
		if cc.Comm == nil {
			hasDefault = "true"
			sw.Body.List = append(sw.Body.List, &ast.CaseClause{List: []ast.Expr{&ast.BasicLit{Kind: token.INT, Value: "-1"}}, Body: cc.Body})
			continue
		}
		cname := fmt.Sprintf("__c%d_%d", id, idx)
		var body []ast.Stmt
		switch comm := cc.Comm.(type) {
		case *ast.SendStmt:
			pre = append(pre, &ast.AssignStmt{Lhs: []ast.Expr{ast.NewIdent(cname)}, Tok: token.DEFINE, Rhs: []ast.Expr{call("vrt", "SendCase", comm.Chan, comm.Value)}})
		case *ast.ExprStmt:
			u := comm.X.(*ast.UnaryExpr)
			pre = append(pre, &ast.AssignStmt{Lhs: []ast.Expr{ast.NewIdent(cname)}, Tok: token.DEFINE, Rhs: []ast.Expr{call("vrt", "RecvCase", u.X)}})
		case *ast.AssignStmt:
			u := comm.Rhs[0].(*ast.UnaryExpr)
			pre = append(pre, &ast.AssignStmt{Lhs: []ast.Expr{ast.NewIdent(cname)}, Tok: token.DEFINE, Rhs: []ast.Expr{call("vrt", "RecvCase", u.X)}})
			val := &ast.CallExpr{Fun: &ast.SelectorExpr{X: ast.NewIdent(cname), Sel: ast.NewIdent("Value")}, Args: []ast.Expr{ast.NewIdent(selName)}}
			rhs := []ast.Expr{val}
			if len(comm.Lhs) == 2 {
				rhs = append(rhs, &ast.SelectorExpr{X: ast.NewIdent(selName), Sel: ast.NewIdent("OK")})
			}
			body = append(body, &ast.AssignStmt{Lhs: comm.Lhs, Tok: comm.Tok, Rhs: rhs})
			if comm.Tok == token.DEFINE {
				// keep possibly unused variables referenced
				for _, l := range comm.Lhs {
					if lid, ok := l.(*ast.Ident); ok && lid.Name != "_" {
						body = append(body, &ast.AssignStmt{Lhs: []ast.Expr{ast.NewIdent("_")}, Tok: token.ASSIGN, Rhs: []ast.Expr{ast.NewIdent(lid.Name)}})
					}
				}
			}
		default:
			fatal("%s: unsupported select communication %T", r.pos(cc), comm)
		}
		// the case variable must count as used even for pure `case <-ch:` clauses
		pre = append(pre, &ast.AssignStmt{Lhs: []ast.Expr{ast.NewIdent("_")}, Tok: token.ASSIGN, Rhs: []ast.Expr{ast.NewIdent(cname)}})
		caseArgs = append(caseArgs, ast.NewIdent(cname))
		sw.Body.List = append(sw.Body.List, &ast.CaseClause{
			List: []ast.Expr{&ast.BasicLit{Kind: token.INT, Value: strconv.Itoa(idx)}},
			Body: append(body, cc.Body...),
		})
		idx++
	}
	sw.Body.List = append(sw.Body.List, &ast.CaseClause{Body: []ast.Stmt{&ast.ExprStmt{X: &ast.CallExpr{Fun: ast.NewIdent("panic"), Args: []ast.Expr{&ast.BasicLit{Kind: token.STRING, Value: `"vrt: bad select index"`}}}}}})
	sw.Init = &ast.AssignStmt{Lhs: []ast.Expr{ast.NewIdent(selName)}, Tok: token.DEFINE,
		Rhs: []ast.Expr{call("vrt", "Select", append([]ast.Expr{ast.NewIdent(hasDefault)}, caseArgs...)...)}}
	sw.Tag = &ast.SelectorExpr{X: ast.NewIdent(selName), Sel: ast.NewIdent("Index")}
	pre = append(pre, sw)
	return &ast.BlockStmt{List: pre}
}

var _ = sort.Strings

// injectPoison (all variants): Pool.ReleaseMessage starts with verifPoison(req)
// (hooks/std/message/pool/zz_verif_poison.go).
func injectPoison(f *ast.File) {
	for _, d := range f.Decls {
		fd, ok := d.(*ast.FuncDecl)
		if !ok || fd.Body == nil || fd.Recv == nil || len(fd.Recv.List) != 1 || fd.Name.Name != "ReleaseMessage" {
			continue
		}
		st, ok := fd.Recv.List[0].Type.(*ast.StarExpr)
		if !ok {
			continue
		}
		if id, ok := st.X.(*ast.Ident); !ok || id.Name != "Pool" {
			continue
		}
		mName := fd.Type.Params.List[0].Names[0].Name
		fd.Body.List = append([]ast.Stmt{&ast.ExprStmt{X: &ast.CallExpr{Fun: ast.NewIdent("verifPoison"), Args: []ast.Expr{ast.NewIdent(mName)}}}}, fd.Body.List...)
	}
}

// injectTracker (variant c12): every function of message/pool with a *Message receiver or
// parameter starts with verifLive(x, name); Pool.AcquireMessage / ReleaseMessage are diverted
// to the tracker in hooks/c12/message/pool.
func injectTracker(f *ast.File) {
	isMsgPtr := func(t ast.Expr) bool {
		st, ok := t.(*ast.StarExpr)
		if !ok {
			return false
		}
		id, ok := st.X.(*ast.Ident)
		return ok && id.Name == "Message"
	}
	for _, d := range f.Decls {
		fd, ok := d.(*ast.FuncDecl)
		if !ok || fd.Body == nil {
			continue
		}
		var pre []ast.Stmt
		recvPool := false
		if fd.Recv != nil && len(fd.Recv.List) == 1 {
			if st, ok := fd.Recv.List[0].Type.(*ast.StarExpr); ok {
				if id, ok := st.X.(*ast.Ident); ok && id.Name == "Pool" {
					recvPool = true
				}
			}
		}
		if recvPool && fd.Name.Name == "AcquireMessage" {
			ctxName := fd.Type.Params.List[0].Names[0].Name
			pre = append(pre, &ast.IfStmt{
				Init: &ast.AssignStmt{Lhs: []ast.Expr{ast.NewIdent("__m")}, Tok: token.DEFINE, Rhs: []ast.Expr{&ast.CallExpr{Fun: ast.NewIdent("verifAcquire"), Args: []ast.Expr{ast.NewIdent(ctxName)}}}},
				Cond: &ast.BinaryExpr{X: ast.NewIdent("__m"), Op: token.NEQ, Y: ast.NewIdent("nil")},
				Body: &ast.BlockStmt{List: []ast.Stmt{&ast.ReturnStmt{Results: []ast.Expr{ast.NewIdent("__m")}}}},
			})
		} else if recvPool && fd.Name.Name == "ReleaseMessage" {
			mName := fd.Type.Params.List[0].Names[0].Name
			pre = append(pre, &ast.IfStmt{
				Cond: &ast.CallExpr{Fun: ast.NewIdent("verifRelease"), Args: []ast.Expr{ast.NewIdent(mName)}},
				Body: &ast.BlockStmt{List: []ast.Stmt{&ast.ReturnStmt{}}},
			})
		} else {
			var names []string
			if fd.Recv != nil {
				for _, fl := range fd.Recv.List {
					if isMsgPtr(fl.Type) {
						for _, n := range fl.Names {
							names = append(names, n.Name)
						}
					}
				}
			}
			for _, fl := range fd.Type.Params.List {
				if isMsgPtr(fl.Type) {
					for _, n := range fl.Names {
						if n.Name != "_" {
							names = append(names, n.Name)
						}
					}
				}
			}
			for _, n := range names {
				pre = append(pre, &ast.ExprStmt{X: &ast.CallExpr{Fun: ast.NewIdent("verifLive"), Args: []ast.Expr{ast.NewIdent(n), &ast.BasicLit{Kind: token.STRING, Value: strconv.Quote(fd.Name.Name)}}}})
			}
		}
		if len(pre) > 0 {
			fd.Body.List = append(pre, fd.Body.List...)
		}
	}
}

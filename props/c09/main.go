// C09 — blocking calls always end on cancellation or close; close is clean.
// Engine E2: one blocking client operation against a peer that is silent / acknowledges without
// answering / sends garbage, and an interrupting thread (context cancel, virtual deadline, local
// Close, peer close) that may be scheduled at EVERY scheduling point of the operation
// (preemption-bounded). The oracle is the scheduler's deadlock detection: after the
// interruption no application thread may stay parked. No wall-clock watchdog is involved.
package main

import (
	"bytes"
	"context"
	"fmt"
	"time"

	"github.com/plgd-dev/go-coap/v3/message"
	"github.com/plgd-dev/go-coap/v3/message/codes"
	"github.com/plgd-dev/go-coap/v3/message/pool"
	"github.com/plgd-dev/go-coap/v3/net/blockwise"

	"verif/ev"
	"verif/mcx"
	"verif/vrt"
	"verif/worlds/udpw"
)

type cfg struct {
	Op      string // do-con do-non do-block observe observe-cancel ping write-con queued
	Intr    string // cancel deadline close
	Peer    string // silent ackonly garbage
	Preempt int
}

func (c cfg) String() string {
	return fmt.Sprintf("udp-conn op=%s interrupt=%s peer=%s preempt<=%d", c.Op, c.Intr, c.Peer, c.Preempt)
}

func scenario(c cfg) *mcx.Scenario {
	return &mcx.Scenario{
		Name:        c.String(),
		Bounds:      mcx.Bounds{Preempt: c.Preempt, Env: -1, Select: 0},
		DeadlockSig: "blocked-forever/" + c.Op + "/" + c.Intr,
		Body: func(s *vrt.Sched) func() (string, []mcx.Finding) {
			var fs []mcx.Finding
			result := "not-returned"
			returned := false
			interrupted := false
			var w *udpw.World
			vrt.App("setup", func() {
				w = udpw.New(udpw.Opts{NStart: 1, MaxRetransmit: 2, LimitTotal: 1, LimitEndpoint: 1, QueueSize: 2, BlockWise: c.Op == "do-block", SZX: blockwise.SZX16})
				ctx, cancel := context.WithCancel(context.Background())
				if c.Intr == "deadline" {
					ctx, cancel = vrt.WithTimeout(context.Background(), 5*time.Second)
				}
				_ = cancel
				closedCB := 0
				w.CC.AddOnClose(func() { closedCB++ })
				var obsReady bool
				var obsCancel func(ctx context.Context) error
				if c.Op == "observe-cancel" {
					// establish an observation first (peer answers the registration), then the blocking call is Cancel
					vrt.App("register", func() {
						o, err := w.CC.Observe(context.Background(), "/obs", func(*pool.Message) {})
						if err != nil {
							fs = append(fs, mcx.Finding{Sig: "ENGINE/setup", What: "observe registration failed in setup: " + err.Error()})
							return
						}
						obsCancel = func(ctx context.Context) error { return o.Cancel(ctx) }
						obsReady = true
					})
				}
				occupierDone := false
				if c.Op == "queued" {
					// a first request occupies the only slot of the limiter forever (peer never answers it)
					vrt.App("occupier", func() {
						vrt.Daemon() // holds the slot for as long as the connection lives, by design
						defer func() { occupierDone = true }()
						req := w.Request(w.CC.Context(), codes.GET, "/q", message.Token{0x01}, message.NonConfirmable, nil)
						_, _ = w.CC.Do(req)
					})
				}
				vrt.App("op", func() {
					var err error
					switch c.Op {
					case "do-con":
						_, err = w.CC.Do(w.Request(ctx, codes.GET, "/a", message.Token{0xD1}, message.Confirmable, nil))
					case "do-non":
						_, err = w.CC.Do(w.Request(ctx, codes.GET, "/a", message.Token{0xD1}, message.NonConfirmable, nil))
					case "do-block":
						_, err = w.CC.Do(w.Request(ctx, codes.POST, "/a", message.Token{0xD1}, message.Confirmable, bytes.Repeat([]byte("x"), 40)))
					case "observe":
						_, err = w.CC.Observe(ctx, "/obs", func(*pool.Message) {})
					case "observe-cancel":
						vrt.WaitUntil("op waits for the observation", func() bool { return obsReady })
						err = obsCancel(ctx)
					case "ping":
						err = w.CC.Ping(ctx)
					case "write-con":
						err = w.CC.WriteMessage(w.Request(ctx, codes.POST, "/a", message.Token{0xD1}, message.Confirmable, []byte("one-way")))
					case "do-con-after-failed-requests":
						// earlier requests on this connection ended with errors before anything was written (a body that
						// cannot be read, an injected write error): they must not leave anything behind that blocks this one
						bad := w.Request(ctx, codes.POST, "/bad", message.Token{0xD3}, message.Confirmable, nil)
						bad.SetContentFormat(message.TextPlain)
						bad.SetBody(&unreadable{size: 8})
						_, _ = w.CC.Do(bad)
						failing := true
						w.Sess.WriteErr = func(*pool.Message) error {
							if failing {
								return fmt.Errorf("sendmsg: no buffer space available")
							}
							return nil
						}
						_, _ = w.CC.Do(w.Request(ctx, codes.GET, "/werr", message.Token{0xD4}, message.Confirmable, nil))
						failing = false
						_, err = w.CC.Do(w.Request(ctx, codes.GET, "/a", message.Token{0xD1}, message.Confirmable, nil))
					case "do-con-after-mid-collision":
						// an exchange that is still outstanding (a ping waiting for its pong) owns a message ID; a request with
						// the same, caller-chosen message ID is refused at once - and must not leave anything behind (the
						// NSTART slot it had already taken) that blocks the next request beyond its interruption
						mid := w.CC.GetMessageID() + 1
						cancelPing, perr := w.CC.AsyncPing(func() {})
						if perr == nil { // (it fails when the interruption - Close - came first)
							defer cancelPing()
						}
						dup := w.Request(ctx, codes.GET, "/dup", message.Token{0xD5}, message.Confirmable, nil)
						dup.SetMessageID(mid)
						if _, derr := w.CC.Do(dup); derr == nil && perr == nil {
							fs = append(fs, mcx.Finding{Sig: "ENGINE/setup", What: "the request with the message ID of the outstanding ping was not refused (scenario vacuous)"})
						}
						_, err = w.CC.Do(w.Request(ctx, codes.GET, "/a", message.Token{0xD1}, message.Confirmable, nil))
					case "queued":
						vrt.WaitUntil("op waits until the slot is taken", func() bool { return len(w.Outs) > 0 || occupierDone })
						_, err = w.CC.Do(w.Request(ctx, codes.GET, "/q", message.Token{0xD2}, message.NonConfirmable, nil))
					}
					returned = true
					result = fmt.Sprint(err)
					if err == nil {
						result = "ok"
					}
				})
				vrt.App("interrupter", func() {
					if c.Op == "observe-cancel" {
						vrt.WaitUntil("interrupter waits for the observation", func() bool { return obsReady })
					}
					switch c.Intr {
					case "cancel":
						cancel()
					case "deadline":
						vrt.Advance(10 * time.Second)
					case "close":
						_ = w.CC.Close()
						_ = w.CC.Close() // idempotent
					}
					interrupted = true
				})
				// the peer
				vrt.App("peer", func() {
					vrt.Daemon()
					garbage := 0
					for round := 0; round < 12; round++ {
						vrt.Quiesce("peer: settle")
						acted := false
						for _, o := range w.NewOuts() {
							if c.Op == "observe-cancel" && !obsReady && o.M.Code == codes.GET {
								// answer the registration of the set-up phase
								bo := make([]byte, 4)
								opts, _, _ := message.Options{}.SetUint32(bo, message.Observe, 5)
								_ = w.Inject(message.Message{Type: message.Acknowledgement, Code: codes.Content, MessageID: o.M.MessageID, Token: o.M.Token, Options: opts, Payload: []byte("v")})
								acted = true
								continue
							}
							switch c.Peer {
							case "ackonly":
								if o.M.Type == message.Confirmable && o.M.Code != codes.Empty {
									_ = w.Inject(message.Message{Type: message.Acknowledgement, Code: codes.Empty, MessageID: o.M.MessageID})
									acted = true
								}
							case "garbage":
								if garbage < 2 {
									garbage++
									_ = w.InjectRaw([]byte{0xff, 0x01, 0x02, 0x03, 0xff, 0xff}[:3+garbage])
									acted = true
								}
							}
						}
						if !acted && (returned || round > 3) {
							return
						}
					}
				})
				_ = closedCB
			})
			return func() (string, []mcx.Finding) {
				if interrupted && !returned && !s.Deadlock {
					fs = append(fs, mcx.Finding{Sig: "op-never-returned/" + c.Op + "/" + c.Intr, What: c.String() + ": the operation did not return although the execution ended"})
				}
				if c.Intr == "close" && interrupted {
					select {
					case <-w.CC.Done():
					default:
						fs = append(fs, mcx.Finding{Sig: "done-not-closed-after-close", What: c.String() + ": Done() is not closed after Close returned"})
					}
					if w.Sess.OnCloseN != 1 {
						fs = append(fs, mcx.Finding{Sig: "on-close-callback-count", What: fmt.Sprintf("%s: on-close callback ran %d times", c, w.Sess.OnCloseN)})
					}
				}
				return result, fs
			}
		},
	}
}

// unreadable: a body whose size can be determined (Seek works) but whose bytes cannot be read.
type unreadable struct {
	size, pos int64
}

func (u *unreadable) Read([]byte) (int, error) { return 0, fmt.Errorf("read: input/output error") }
func (u *unreadable) Seek(off int64, whence int) (int64, error) {
	switch whence {
	case 0:
		u.pos = off
	case 1:
		u.pos += off
	case 2:
		u.pos = u.size + off
	}
	return u.pos, nil
}

func main() {
	r := ev.Start("C09", "model_checking")
	var scs []*mcx.Scenario
	ops := []string{"do-con", "do-non", "do-block", "observe", "observe-cancel", "ping", "write-con", "queued", "do-con-after-failed-requests", "do-con-after-mid-collision"}
	for _, op := range ops {
		for _, in := range []string{"cancel", "deadline", "close"} {
			for _, peer := range []string{"silent", "ackonly", "garbage"} {
				if peer == "garbage" && in == "deadline" && !r.Thorough() {
					continue
				}
				scs = append(scs, scenario(cfg{Op: op, Intr: in, Peer: peer, Preempt: ev.Pick(r, 1, 2)}))
			}
		}
	}
	addSessionScenarios(r, &scs)
	addServerStop(r, &scs)
	sum := mcx.Explore(r, scs, mcx.Config{Wall: ev.Pick(r, 4*time.Minute, 30*time.Minute)})
	// deadlock findings are renamed per scenario by the checker only when the checker runs; the engine-level
	// deadlock signature already names the blocked thread and its operation
	mcx.Report(r, scs, sum)
	r.Set("rule", "scenario = blocking operation (Do CON / Do NON / 3-block upload / Observe / Observation.Cancel / Ping / one-way WriteMessage / request queued behind the parallel-request limiter / Do CON after requests that failed before anything was written / Do CON after a request refused for a message-ID collision with an outstanding ping) x interruption (context cancel, virtual deadline, local Close twice) x peer behaviour (silent, acknowledges without answering, garbage datagrams); the interrupting thread is a separate application thread, so the preemption-bounded search places the interruption at every scheduling point of the operation; oracle: the scheduler's deadlock detection (an application thread parked when nothing is enabled), Done() closed and on-close callbacks run exactly once after Close; distinct outcome = distinct return value of the operation; session families: real tcp and udp sessions (Run loop, two concurrent Close, peer close/error, blocked writes, Close while the receive queue is full and the handler busy); server families: udp/tcp/dtls server Stop from two goroutines with a handler in flight and a server-initiated request waiting (Serve returns, every Done closes, on-close callbacks once, the request returns)")
	r.Sample(map[string]any{"scenario": scs[0].Name})
	r.Assume("a socket write completes (the in-memory session never blocks a write)", "configurations in which the library owns the socket/session (Dial-like, accepted connections)", "deadlines are virtual: the interrupting thread advances the virtual clock past the context deadline")
	r.Finish()
}

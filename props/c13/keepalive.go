package main

import (
	"fmt"
	"strings"
	"time"

	"github.com/plgd-dev/go-coap/v3/message"
	"github.com/plgd-dev/go-coap/v3/message/codes"
	"github.com/plgd-dev/go-coap/v3/options"
	tcpclient "github.com/plgd-dev/go-coap/v3/tcp/client"
	udpclient "github.com/plgd-dev/go-coap/v3/udp/client"

	"verif/ev"
	"verif/mcx"
	"verif/vrt"
	"verif/worlds/tcpw"
	"verif/worlds/udpw"
)

// Keep-alive rounds are exchanges the library starts itself (AsyncPing): histories of inactivity
// detections, pongs, late pongs and other messages from the peer on connections configured with the
// real options.WithKeepAlive. Oracle: the continuation of at most ONE ping (the current round's) is
// retained at any moment - every older one has been removed by its pong or by the next round - and
// none once the peer has answered.

const kaP = 10 * time.Second

func keepAliveScenario(transport string, depth int) *mcx.Scenario {
	name := fmt.Sprintf("%s-conn keep-alive rounds via options (period=%v, maxRetries=8), depth=%d", transport, kaP, depth)
	return &mcx.Scenario{
		Name:   name,
		Bounds: mcx.Bounds{Preempt: 0, Env: -1, Select: 0},
		Body: func(s *vrt.Sched) func() (string, []mcx.Finding) {
			var hist []string
			var fs []mcx.Finding
			fail := func(sig, format string, a ...any) {
				fs = append(fs, mcx.Finding{Sig: sig, What: name + ": " + fmt.Sprintf(format, a...) + "; history [" + strings.Join(hist, " ") + "]"})
			}
			vrt.App("env", func() {
				const maxRetries = 8
				var sizes func() map[string]int
				var tick func()
				var recv func(i int)
				var newPings func() []message.Message
				var pong func(m message.Message)
				key := "tokenHandlers"
				if transport == "udp" {
					key = "midHandlers"
					cfg := udpclient.DefaultConfig
					options.WithKeepAlive(maxRetries, kaP*(maxRetries+1), func(cc *udpclient.Conn) { _ = cc.Close() }).UDPClientApply(&cfg)
					w := udpw.New(udpw.Opts{QueueSize: 4, LimitTotal: 2, LimitEndpoint: 2, MaxRetransmit: 20, AckTimeout: 1000 * time.Second, Monitor: cfg.CreateInactivityMonitor})
					sizes = w.CC.VerifSizes
					tick = func() { w.CC.CheckExpirations(vrt.Now()) }
					recv = func(i int) {
						_ = w.Inject(message.Message{Type: message.NonConfirmable, MessageID: w.PeerMID(), Code: codes.Content, Token: message.Token{0x61, byte(i)}, Payload: []byte("data")})
					}
					newPings = func() []message.Message {
						var ps []message.Message
						for _, o := range w.NewOuts() {
							if o.M.Code == codes.Empty && o.M.Type == message.Confirmable {
								ps = append(ps, o.M)
							}
						}
						return ps
					}
					pong = func(m message.Message) {
						_ = w.Inject(message.Message{Type: message.Reset, Code: codes.Empty, MessageID: m.MessageID})
					}
				} else {
					cfg := tcpclient.DefaultConfig
					options.WithKeepAlive(maxRetries, kaP*(maxRetries+1), func(cc *tcpclient.Conn) { _ = cc.Close() }).TCPClientApply(&cfg)
					w := tcpw.New(tcpw.Opts{QueueSize: 4, LimitTotal: 2, LimitEndpoint: 2, DisableCSM: true, Monitor: cfg.CreateInactivityMonitor})
					sizes = w.CC.VerifSizes
					tick = func() { w.CC.CheckExpirations(vrt.Now()) }
					recv = func(i int) {
						w.Inject(message.Message{Code: codes.Content, Token: message.Token{0x61, byte(i)}, Payload: []byte("data")})
					}
					newPings = func() []message.Message {
						var ps []message.Message
						for _, m := range w.NewOuts() {
							if m.Code == codes.Ping {
								ps = append(ps, m)
							}
						}
						return ps
					}
					pong = func(m message.Message) { w.Inject(message.Message{Code: codes.Pong, Token: m.Token}) }
				}
				var pings []message.Message
				answered := map[int]bool{}
				for step := 0; step < depth; step++ {
					vrt.Quiesce("env: settle")
					pings = append(pings, newPings()...)
					opts := []string{"silent-round", "recv", "pong", "latepong"}
					e := opts[vrt.Choose(len(opts), nil)]
					switch e {
					case "silent-round":
						vrt.Advance(kaP + time.Second)
						tick()
					case "recv":
						recv(step)
					case "pong", "latepong":
						k := len(pings) - 1
						if e == "latepong" {
							k--
						}
						if k < 0 || answered[k] {
							continue
						}
						answered[k] = true
						pong(pings[k])
					}
					hist = append(hist, e)
					vrt.Quiesce("env: processed")
					pings = append(pings, newPings()...)
					n := sizes()[key]
					if n > 1 {
						fail("keepalive/ping-continuations-accumulate", "%d %s entries are retained after %d keep-alive pings (at most the current round's ping may be outstanding)", n, key, len(pings))
						return
					}
					if e == "pong" && n != 0 {
						fail("keepalive/continuation-survives-its-pong", "%d %s entries are retained although the current ping was answered", n, key)
						return
					}
				}
			})
			return func() (string, []mcx.Finding) { return strings.Join(hist, " "), fs }
		},
	}
}

func addKeepAlive(r *ev.Run, scs *[]*mcx.Scenario) {
	for _, t := range []string{"tcp", "udp"} {
		*scs = append(*scs, keepAliveScenario(t, ev.Pick(r, 6, 8)))
	}
}

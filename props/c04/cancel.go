package main

import (
	"bytes"
	"context"
	"fmt"
	"strings"
	"time"

	"github.com/plgd-dev/go-coap/v3/message"
	"github.com/plgd-dev/go-coap/v3/message/codes"
	"github.com/plgd-dev/go-coap/v3/net/blockwise"

	"verif/ev"
	"verif/mcx"
	"verif/vrt"
	"verif/worlds/tcpw"
)

// An upload through Do whose context ends while a 2.31 Continue of its token is being handled by the
// connection's receive goroutine. As every Client helper does, the application gives the request back to the
// message pool as soon as Do has returned and builds its next request. Whatever the interleaving, every block
// that leaves for the upload's token carries the upload's own options and the bytes of the body at that offset;
// a transfer that was given up never continues with the content of another message.
func cancelScenario(preempt int, szBlocks int) *mcx.Scenario {
	name := fmt.Sprintf("tcp upload (%d blocks) through Do, context cancelled / exchange ended by the peer around a 2.31 Continue, request released and the next request built right after Do returns; preempt<=%d", szBlocks, preempt)
	return &mcx.Scenario{
		Name:   name,
		Bounds: mcx.Bounds{Preempt: preempt, Env: -1, Select: 0},
		Opt:    vrt.Options{MaxSteps: 600000, PoolPoints: true},
		Body: func(s *vrt.Sched) func() (string, []mcx.Finding) {
			var hist []string
			var fs []mcx.Finding
			fail := func(sig, format string, a ...any) {
				fs = append(fs, mcx.Finding{Sig: sig, What: name + ": " + fmt.Sprintf(format, a...) + "; history [" + strings.Join(hist, " ") + "]"})
			}
			var derr error
			done := false
			vrt.App("peer", func() {
				up := pattern(szBlocks*pblk, 0x10)
				other := pattern(2*pblk, 0x90)
				tokT, tokU := message.Token{0xA1, 0xA2}, message.Token{0xB1, 0xB2}
				A := tcpw.New(tcpw.Opts{LimitTotal: 4, LimitEndpoint: 4, QueueSize: 8, BlockWise: true, SZX: blockwise.SZX16, DisableCSM: true, BWTimeout: 20 * time.Second})
				bo := make([]byte, 4)
				opts, _, _ := message.Options{}.SetUint32(bo, message.TCPMaxMessageSize, 8192)
				opts = append(opts, message.Option{ID: message.TCPBlockWiseTransfer})
				A.Inject(message.Message{Code: codes.CSM, Options: opts})
				vrt.Quiesce("peer: CSM consumed")
				ctx, cancel := context.WithCancel(context.Background())
				vrt.App("client", func() {
					req := A.CC.AcquireMessage(ctx)
					req.SetCode(codes.POST)
					req.SetToken(tokT)
					_ = req.SetPath("/upload")
					req.SetContentFormat(message.AppOctets)
					req.SetBody(bytes.NewReader(up))
					_, derr = A.CC.Do(req)
					A.CC.ReleaseMessage(req)
					// the next request of the application (one-way, so that nothing waits for an answer)
					next := A.CC.AcquireMessage(context.Background())
					next.SetCode(codes.POST)
					next.SetToken(tokU)
					_ = next.SetPath("/other")
					next.SetContentFormat(message.AppOctets)
					next.SetBody(bytes.NewReader(other))
					done = true
					_ = next
				})
				check := func() {
					for _, m := range A.NewOuts() {
						if !bytes.Equal(m.Token, tokT) {
							continue
						}
						p, _ := m.Options.Path()
						b1, err := m.Options.GetUint32(message.Block1)
						if err != nil {
							fail("cancel/upload-block-without-block-option", "frame for the upload's token without Block1: %s", tcpw.Describe(m))
							continue
						}
						szx, num, more, _ := blockwise.DecodeBlockOption(b1)
						off := int(num) * int(szx.Size())
						end := off + int(szx.Size())
						if end > len(up) {
							end = len(up)
						}
						hist = append(hist, fmt.Sprintf("<block%d", num))
						if p != "/upload" && p != "upload" {
							fail("cancel/upload-block-carries-other-options", "block %d sent for the upload's token has path %q, the upload is for /upload", num, p)
						}
						if off > len(up) || !bytes.Equal(m.Payload, up[off:end]) {
							fail("cancel/upload-block-carries-other-bytes", "block %d sent for the upload's token carries %s, the body has %s at that offset", num, head(m.Payload), head(up[min(off, len(up)):end]))
						}
						if more != (end < len(up)) {
							fail("cancel/upload-block-more-flag", "block %d of %d sent with more=%v", num, szBlocks, more)
						}
					}
				}
				cont := func(num int) {
					v, _ := blockwise.EncodeBlockOption(blockwise.SZX16, int64(num), true)
					A.Inject(message.Message{Code: codes.Continue, Token: tokT, Options: message.Options{{ID: message.Block1, Value: encodeUint(v)}}})
				}
				final := func() {
					A.Inject(message.Message{Code: codes.RequestEntityTooLarge, Token: tokT})
				}
				vrt.Quiesce("peer: first block written")
				check()
				acked := 0
				for step := 0; step < 3 && !done; step++ {
					switch vrt.Choose(5, nil) {
					case 3:
						// the peer ends the exchange early (4.13 may answer any block, RFC 7959 2.9.3)
						hist = append(hist, "final(4.13)")
						final()
						vrt.Quiesce("peer: final response handled")
					case 4:
						// ... and a Continue it had sent before (or a duplicate of it) arrives right behind
						hist = append(hist, fmt.Sprintf("final(4.13)+continue(%d)", acked))
						final()
						cont(acked)
						acked++
						vrt.Quiesce("peer: final response and continue handled")
					case 0:
						hist = append(hist, fmt.Sprintf("continue(%d)", acked))
						cont(acked)
						acked++
						vrt.Quiesce("peer: continue handled")
					case 1:
						// the Continue is on its way in when the application gives up: both happen together
						hist = append(hist, fmt.Sprintf("continue(%d)+cancel", acked))
						cont(acked)
						acked++
						cancel()
						vrt.Quiesce("peer: continue and cancel handled")
					case 2:
						hist = append(hist, "cancel")
						cancel()
						vrt.Quiesce("peer: cancel handled")
					}
					check()
					if acked >= szBlocks-1 {
						break
					}
				}
				if !done {
					cancel()
					vrt.Quiesce("peer: final cancel")
					check()
				}
				if !done {
					fail("cancel/do-did-not-return", "Do did not return after its context was cancelled")
				}
				// a late Continue after everything was given up
				hist = append(hist, fmt.Sprintf("late continue(%d)", acked))
				cont(acked)
				vrt.Quiesce("peer: late continue handled")
				check()
				_ = derr
				_ = A.CC.Close()
				vrt.Quiesce("peer: closed")
			})
			return func() (string, []mcx.Finding) { return fmt.Sprintf("%s|%v", strings.Join(hist, " "), derr), fs }
		},
	}
}

func addCancel(r *ev.Run, scs *[]*mcx.Scenario) {
	*scs = append(*scs, cancelScenario(ev.Pick(r, 1, 2), 3))
	if r.Thorough() {
		*scs = append(*scs, cancelScenario(1, 4))
	}
}

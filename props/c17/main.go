// C17 — Router dispatches to a longest matching route, else the default.
//
// Two parts, one evidence file:
//   - matching (match.go, engine E1): bounded-exhaustive enumeration of route sets, registration
//     orders, middleware chains and Uri-Path option lists on the real mux.Router, compared with
//     an in-harness reference matcher written from the statement;
//   - concurrency (conc.go, engine E2): Handle / HandleRemove / DefaultHandle concurrent with
//     ServeCOAP under the deterministic scheduler.
package main

import (
	"os"
	"strings"

	"verif/ev"
	"verif/mcx"
)

func main() {
	r := ev.Start("C17", "model_checking")
	concReplay := false
	if f := ev.Arg("replay"); f != "" {
		b, _ := os.ReadFile(f)
		concReplay = strings.Contains(string(b), `"scenario"`)
	}
	if !mcx.IsWorker() && !concReplay {
		runMatching(r)
		if ev.Arg("replay") != "" {
			r.Finish()
		}
	}
	runConcurrency(r)
	mcx.RacePass(r, 9, "mux.")
	r.Finish()
}

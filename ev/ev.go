// Package ev is the shared reporting layer of every check: tier/seed parsing, evidence file,
// replay artefacts, known-findings matching, VIOLATION / KNOWN-FINDING lines and exit status.
package ev

import (
	"crypto/sha256"
	"encoding/hex"
	"encoding/json"
	"fmt"
	"os"
	"path/filepath"
	"sort"
	"strconv"
	"strings"
	"sync"
	"time"
)

// Root is /verif (overridable for tests of the framework itself).
var Root = func() string {
	if v := os.Getenv("VERIF_ROOT"); v != "" {
		return v
	}
	return "/verif"
}()

type Finding struct {
	Property  string `json:"property"`
	Signature string `json:"signature"`
	Status    string `json:"status"` // "known" | "fixed"
	Commit    string `json:"commit,omitempty"`
	What      string `json:"what"`
}

type Violation struct {
	Signature string `json:"signature"`
	What      string `json:"what"`
	Replay    any    `json:"replay"`
	Path      string `json:"-"`
}

type Run struct {
	ID          string
	Part        string
	Tier        string
	Seed        int
	Level       string
	Coverage    map[string]any
	Assumptions []string

	mu         sync.Mutex
	start      time.Time
	violations map[string]*Violation // by signature (first one kept)
	vcount     map[string]int
	known      map[string]Finding
	samples    []any
	Quiet      bool
}

// Tier returns VERIF_TIER (default quick); command-line "--tier x" / "-tier=x" overrides.
func tierFromArgs() string {
	t := os.Getenv("VERIF_TIER")
	for i, a := range os.Args {
		if (a == "--tier" || a == "-tier") && i+1 < len(os.Args) {
			t = os.Args[i+1]
		}
		if strings.HasPrefix(a, "--tier=") {
			t = strings.TrimPrefix(a, "--tier=")
		}
		if strings.HasPrefix(a, "-tier=") {
			t = strings.TrimPrefix(a, "-tier=")
		}
	}
	if t != "thorough" {
		t = "quick"
	}
	return t
}

// Arg returns the value following "--name" on the command line, or "".
func Arg(name string) string {
	for i, a := range os.Args {
		if a == "--"+name && i+1 < len(os.Args) {
			return os.Args[i+1]
		}
		if strings.HasPrefix(a, "--"+name+"=") {
			return strings.TrimPrefix(a, "--"+name+"=")
		}
	}
	return ""
}

func HasFlag(name string) bool {
	for _, a := range os.Args {
		if a == "--"+name {
			return true
		}
	}
	return false
}

// Start begins a check run. With VERIF_AS=<ID> VERIF_PART=<name> the binary runs as one part of
// another property's check (C12 re-runs the worlds of other properties with its tracker on): the
// result is reported under <ID> and the evidence goes to evidence/.parts/<ID>-<name>.json.
func Start(id, level string) *Run {
	seed, _ := strconv.Atoi(os.Getenv("VERIF_SEED"))
	part := ""
	if as := os.Getenv("VERIF_AS"); as != "" {
		id, part = as, os.Getenv("VERIF_PART")
		level = "model_checking"
	}
	r := &Run{ID: id, Part: part, Tier: tierFromArgs(), Seed: seed, Level: level, Coverage: map[string]any{},
		start: time.Now(), violations: map[string]*Violation{}, vcount: map[string]int{}, known: map[string]Finding{}}
	b, err := os.ReadFile(filepath.Join(Root, "known_findings.json"))
	if err == nil {
		var fs []Finding
		if err := json.Unmarshal(b, &fs); err != nil {
			fmt.Fprintf(os.Stderr, "ENGINE-ERROR: known_findings.json: %v\n", err)
			os.Exit(2)
		}
		for _, f := range fs {
			if f.Property == id && f.Status == "known" {
				r.known[f.Signature] = f
			}
		}
	}
	return r
}

func (r *Run) Thorough() bool { return r.Tier == "thorough" }

// Lite: this binary runs as a part of another property's quick check (C12 re-runs the worlds of
// other properties with its tracker): the largest scenario families are reduced.
func (r *Run) Lite() bool {
	return r.Part != "" && r.Tier != "thorough" && os.Getenv("VERIF_PART_FULL") == ""
}

// Pick returns q in the quick tier and t in the thorough tier.
func Pick[T any](r *Run, q, t T) T {
	if r.Thorough() {
		return t
	}
	return q
}

// Sample records one explored case (kept to at most 12, first-come).
func (r *Run) Sample(s any) {
	r.mu.Lock()
	defer r.mu.Unlock()
	if len(r.samples) < 12 {
		r.samples = append(r.samples, s)
	}
}

// Violate records a violation. signature identifies the class of counterexample (used for
// de-duplication and for known-findings matching); replay is the concrete failing case.
func (r *Run) Violate(signature, what string, replay any) {
	r.mu.Lock()
	defer r.mu.Unlock()
	if r.Part != "" && !strings.HasPrefix(signature, "pool/") {
		// this binary runs as a part of C12 (pool ownership): findings of the part's own functional oracle
		// belong to the part's own property, whose check runs the same scenarios with the same oracle
		// (and with the same poison-on-release); here they are only counted
		n, _ := r.Coverage["functional_findings_left_to_the_parts_own_check"].(map[string]int)
		if n == nil {
			n = map[string]int{}
			r.Coverage["functional_findings_left_to_the_parts_own_check"] = n
		}
		n[signature]++
		return
	}
	r.vcount[signature]++
	if _, ok := r.violations[signature]; ok {
		return
	}
	r.violations[signature] = &Violation{Signature: signature, What: what, Replay: replay}
}

func (r *Run) NumViolations() int {
	r.mu.Lock()
	defer r.mu.Unlock()
	return len(r.violations)
}

func (r *Run) Add(key string, n int64) {
	r.mu.Lock()
	defer r.mu.Unlock()
	switch v := r.Coverage[key].(type) {
	case int64:
		r.Coverage[key] = v + n
	case nil:
		r.Coverage[key] = n
	default:
		panic("ev.Add on non-int key " + key)
	}
}

func (r *Run) Set(key string, v any) {
	r.mu.Lock()
	defer r.mu.Unlock()
	r.Coverage[key] = v
}

func (r *Run) Get(key string) int64 {
	r.mu.Lock()
	defer r.mu.Unlock()
	v, _ := r.Coverage[key].(int64)
	return v
}

func (r *Run) Assume(s ...string) { r.Assumptions = append(r.Assumptions, s...) }

// EngineError aborts with exit status 2 (never a VIOLATION line): the machinery itself misbehaved.
func EngineError(format string, a ...any) {
	fmt.Fprintf(os.Stderr, "ENGINE-ERROR: "+format+"\n", a...)
	os.Exit(2)
}

// Finish writes replay artefacts and the evidence file, prints the result lines and exits.
func (r *Run) Finish() {
	r.mu.Lock()
	sigs := make([]string, 0, len(r.violations))
	for s := range r.violations {
		sigs = append(sigs, s)
	}
	sort.Strings(sigs)
	unknown := 0
	for _, s := range sigs {
		v := r.violations[s]
		if f, ok := r.known[s]; ok {
			fmt.Printf("KNOWN-FINDING: property=%s %s [%s] (%d occurrences this run)\n", r.ID, f.What, s, r.vcount[s])
			continue
		}
		unknown++
		dir := filepath.Join(Root, "replays", r.ID)
		_ = os.MkdirAll(dir, 0o755)
		h := sha256.Sum256([]byte(s))
		p := filepath.Join(dir, hex.EncodeToString(h[:6])+".json")
		b, _ := json.MarshalIndent(map[string]any{"property": r.ID, "signature": s, "what": v.What, "replay": v.Replay, "tier": r.Tier}, "", " ")
		_ = os.WriteFile(p, b, 0o644)
		fmt.Printf("VIOLATION property=%s replay=%s\n", r.ID, p)
		fmt.Printf("  signature: %s\n  what: %s\n  occurrences this run: %d\n", s, v.What, r.vcount[s])
	}
	if len(r.samples) > 0 {
		if _, ok := r.Coverage["samples"]; !ok {
			r.Coverage["samples"] = r.samples
		}
	}
	out := map[string]any{
		"property_id": r.ID,
		"tier":        r.Tier,
		"seed":        r.Seed,
		"level":       r.Level,
		"coverage":    r.Coverage,
		"assumptions": r.Assumptions,
		"wall_s":      float64(int(time.Since(r.start).Seconds()*100)) / 100,
		"violations":  unknown,
	}
	if out["assumptions"] == nil {
		out["assumptions"] = []string{}
	}
	r.mu.Unlock()
	_ = os.MkdirAll(filepath.Join(Root, "evidence"), 0o755)
	b, err := json.MarshalIndent(out, "", " ")
	if err != nil {
		EngineError("evidence marshal: %v", err)
	}
	evPath := filepath.Join(Root, "evidence", r.ID+".json")
	if r.Part != "" {
		_ = os.MkdirAll(filepath.Join(Root, "evidence", ".parts"), 0o755)
		evPath = filepath.Join(Root, "evidence", ".parts", r.ID+"-"+r.Part+".json")
	}
	if err := os.WriteFile(evPath, append(b, '\n'), 0o644); err != nil {
		EngineError("evidence write: %v", err)
	}
	if !r.Quiet {
		cov, _ := json.Marshal(summary(r.Coverage))
		fmt.Printf("RESULT property=%s tier=%s violations=%d wall=%.1fs coverage=%s\n", r.ID, r.Tier, unknown, time.Since(r.start).Seconds(), cov)
	}
	if unknown > 0 {
		os.Exit(1)
	}
	os.Exit(0)
}

func summary(c map[string]any) map[string]any {
	o := map[string]any{}
	for k, v := range c {
		switch v.(type) {
		case int64, int, bool, float64, string:
			o[k] = v
		}
	}
	return o
}

// Watchdog: workers publish the case they are about to run; if none advances for d the
// published case is reported as a non-termination violation and the process exits.
type Watchdog struct {
	mu   sync.Mutex
	cur  map[int]string
	tick map[int]uint64
}

func NewWatchdog(r *Run, d time.Duration, sig func(c string) (string, string)) *Watchdog {
	w := &Watchdog{cur: map[int]string{}, tick: map[int]uint64{}}
	go func() {
		last := map[int]uint64{}
		lastChange := map[int]time.Time{}
		for {
			time.Sleep(d / 4)
			w.mu.Lock()
			now := time.Now()
			for id, t := range w.tick {
				if last[id] != t || lastChange[id].IsZero() {
					last[id], lastChange[id] = t, now
					continue
				}
				if now.Sub(lastChange[id]) > d && w.cur[id] != "" {
					c := w.cur[id]
					w.mu.Unlock()
					s, what := sig(c)
					r.Violate(s, what, c)
					r.Set("aborted_by_watchdog", true)
					r.Finish()
				}
			}
			w.mu.Unlock()
		}
	}()
	return w
}

func (w *Watchdog) Enter(worker int, c string) {
	w.mu.Lock()
	w.cur[worker] = c
	w.tick[worker]++
	w.mu.Unlock()
}

func (w *Watchdog) Leave(worker int) {
	w.mu.Lock()
	w.cur[worker] = ""
	w.tick[worker]++
	w.mu.Unlock()
}

// Parallel runs f(shard) for shard in [0,n) on n goroutines and waits.
func Parallel(n int, f func(shard int)) {
	var wg sync.WaitGroup
	for i := 0; i < n; i++ {
		wg.Add(1)
		go func(i int) { defer wg.Done(); f(i) }(i)
	}
	wg.Wait()
}

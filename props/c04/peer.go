package main

import (
	"bytes"
	"fmt"
	"io"
	"strings"
	"time"

	"github.com/plgd-dev/go-coap/v3/message"
	"github.com/plgd-dev/go-coap/v3/message/codes"
	"github.com/plgd-dev/go-coap/v3/message/pool"
	"github.com/plgd-dev/go-coap/v3/net/blockwise"
	"github.com/plgd-dev/go-coap/v3/net/responsewriter"
	"github.com/plgd-dev/go-coap/v3/udp/client"

	"verif/ev"
	"verif/mcx"
	"verif/vrt"
	"verif/worlds/track"
	"verif/worlds/udpw"
)

// Scripted-peer families: ONE real endpoint (server role, block-wise on, 16-byte blocks) and a peer
// that is a script, so that block sequences no conforming go-coap client produces are covered too:
// stale final blocks behind the progress of an upload, blocks of a foreign body under the same
// token, a repeated initial request (fresh message ID, e.g. re-sent by an intermediary) in the
// middle of a download, continuation requests for tokens nobody started. Every sequence of the
// alphabet up to a depth is explored.

const pblk = 16

// ---------------------------------------------------------------- uploads (Block1), receiver side

type upEvent struct {
	name    string
	token   message.Token
	num     int
	more    bool
	payload []byte
}

func uploadAlphabet() []upEvent {
	body := pattern(4*pblk, 0x11)
	foreign := bytes.Repeat([]byte{0xEE}, pblk)
	T, F := message.Token{0xC4, 0x01}, message.Token{0xC4, 0x02}
	Z := message.Token{0x00, 0xC4, 0x01} // a different token: T with a leading zero byte
	var a []upEvent
	for n := 0; n < 4; n++ {
		a = append(a, upEvent{fmt.Sprintf("U%d%s", n, map[bool]string{true: "+", false: "!"}[n < 3]), T, n, n < 3, body[n*pblk : (n+1)*pblk]})
	}
	a = append(a,
		upEvent{"stale:1!", T, 1, false, foreign},                    // final block of an earlier, shorter body
		upEvent{"stale:2+", T, 2, true, foreign},                     // middle block of another body
		upEvent{"foreign-token:1+", F, 1, true, body[pblk : 2*pblk]}, // a block under a token nobody started
		upEvent{"foreign-token:3!", F, 3, false, body[3*pblk:]},
		upEvent{"zero-padded-token:0+", Z, 0, true, foreign},
		upEvent{"zero-padded-token:1+", Z, 1, true, foreign},
	)
	return a
}

func uploadPeerScenario(depth int) *mcx.Scenario {
	name := fmt.Sprintf("udp scripted peer: Block1 upload blocks incl. stale/foreign ones in every order, depth=%d", depth)
	return &mcx.Scenario{
		Name:   name,
		Bounds: mcx.Bounds{Preempt: 0, Env: -1, Select: 0},
		Opt:    vrt.Options{MaxSteps: 600000},
		Body: func(s *vrt.Sched) func() (string, []mcx.Finding) {
			var hist []string
			var fs []mcx.Finding
			fail := func(sig, format string, a ...any) {
				fs = append(fs, mcx.Finding{Sig: sig, What: name + ": " + fmt.Sprintf(format, a...) + "; blocks sent [" + strings.Join(hist, " ") + "]"})
			}
			deliveries := 0
			vrt.App("peer", func() {
				type delivered struct {
					token string
					body  []byte
				}
				var got []delivered
				B := udpw.New(udpw.Opts{NStart: 4, MaxRetransmit: 2, LimitTotal: 4, LimitEndpoint: 4, QueueSize: 8, BlockWise: true, SZX: blockwise.SZX16, FirstMID: 3000, BWTimeout: 20 * time.Second,
					Handler: func(w *responsewriter.ResponseWriter[*client.Conn], r *pool.Message) {
						track.Hold(r, "request inside a handler")
						defer track.Unhold(r)
						b, _ := r.ReadBody()
						got = append(got, delivered{fmt.Sprintf("%x", []byte(r.Token())), append([]byte{}, b...)})
						_ = w.SetResponse(codes.Changed, message.TextPlain, nil)
					}})
				alpha := uploadAlphabet()
				var arrived []upEvent
				mid := int32(500)
				for step := 0; step < depth; step++ {
					e := alpha[vrt.Choose(len(alpha), nil)]
					hist = append(hist, e.name)
					arrived = append(arrived, e)
					mid++
					bo, _ := blockwise.EncodeBlockOption(blockwise.SZX16, int64(e.num), e.more)
					before := len(got)
					_ = B.Inject(message.Message{Type: message.Confirmable, Code: codes.POST, MessageID: mid, Token: e.token, Payload: e.payload,
						Options: message.Options{{ID: message.URIPath, Value: []byte("up")}, {ID: message.Block1, Value: encodeUint(bo)}}})
					vrt.Quiesce("peer: block processed")
					if len(got)-before > 1 {
						fail("peer/handler-invoked-twice", "one block made the handler run %d times", len(got)-before)
					}
					for _, d := range got[before:] {
						// the body handed to the application must be the in-order concatenation of blocks 0..k of this
						// token that arrived in this order, block k being the one just processed and the only one with M=0
						k := e.num
						ok := !e.more && d.token == fmt.Sprintf("%x", []byte(e.token)) && len(d.body) == k*pblk+len(e.payload) && bytes.Equal(d.body[k*pblk:], e.payload)
						need := 0
						for _, a := range arrived[:len(arrived)-1] {
							if need < k && fmt.Sprintf("%x", []byte(a.token)) == d.token && a.num == need && a.more && ok && bytes.Equal(d.body[need*pblk:(need+1)*pblk], a.payload) {
								need++
							}
						}
						if !ok || need != k {
							fail("peer/partial-or-mixed-body-presented", "after block %s the application received a %d-byte body %s that is not the in-order concatenation of blocks 0..%d ending with that block", e.name, len(d.body), head(d.body), k)
						}
					}
				}
				deliveries = len(got)
				vrt.Metric("bodies_delivered", int64(deliveries))
			})
			return func() (string, []mcx.Finding) { return fmt.Sprintf("%s|%d", strings.Join(hist, " "), deliveries), fs }
		},
	}
}

func encodeUint(v uint32) []byte {
	b := make([]byte, 4)
	n, _ := message.EncodeUint32(b, v)
	return b[:n]
}

// ---------------------------------------------------------------- downloads (Block2), sender side

func downloadPeerScenario(depth int, etag bool) *mcx.Scenario {
	name := fmt.Sprintf("udp scripted peer: Block2 download, conforming receiver whose initial / previous request is re-delivered (fresh message ID) at any point, 2 tokens, changing resource, etag=%v, depth=%d", etag, depth)
	return &mcx.Scenario{
		Name:   name,
		Bounds: mcx.Bounds{Preempt: 0, Env: -1, Select: 0},
		Opt:    vrt.Options{MaxSteps: 600000},
		Body: func(s *vrt.Sched) func() (string, []mcx.Finding) {
			var hist []string
			var fs []mcx.Finding
			fail := func(sig, format string, a ...any) {
				fs = append(fs, mcx.Finding{Sig: sig, What: name + ": " + fmt.Sprintf(format, a...) + "; requests sent [" + strings.Join(hist, " ") + "]"})
			}
			completed := 0
			vrt.App("peer", func() {
				var versions [][]byte
				B := udpw.New(udpw.Opts{NStart: 4, MaxRetransmit: 2, LimitTotal: 4, LimitEndpoint: 4, QueueSize: 8, BlockWise: true, SZX: blockwise.SZX16, FirstMID: 3000, BWTimeout: 5 * time.Second,
					Handler: func(w *responsewriter.ResponseWriter[*client.Conn], r *pool.Message) {
						track.Hold(r, "request inside a handler")
						defer track.Unhold(r)
						v := pattern(3*pblk, 0x40+byte(len(versions)))
						versions = append(versions, v)
						opts := []message.Option{}
						if etag {
							opts = append(opts, message.Option{ID: message.ETag, Value: []byte{0xE7, byte(len(versions))}})
						}
						_ = w.SetResponse(codes.Content, message.AppOctets, bytes.NewReader(v), opts...)
					}})
				tokens := map[string]message.Token{"T": {0xD4, 0x01}, "T2": {0xD4, 0x02}}
				// the virtual receiver per token: a conforming client - it asks for the block it needs next and
				// appends block responses in order; the network may re-deliver its initial request or its previous
				// block request (with a fresh message ID, as an intermediary that re-sends does)
				type recv struct {
					held   []byte
					etag   []byte
					active bool
					last   message.Options // options of the request sent last
				}
				rc := map[string]*recv{"T": {}, "T2": {}}
				alpha := []string{"next(T)", "dup-initial(T)", "dup-prev(T)", "next(T2)", "dup-initial(T2)"}
				if etag {
					// with entity tags the receiver can tell a changed representation: stored responses may expire too
					alpha = append(alpha, "tick")
				}
				mid := int32(700)
				for step := 0; step < depth; step++ {
					e := alpha[vrt.Choose(len(alpha), nil)]
					if e == "tick" {
						hist = append(hist, e)
						B.Tick(3 * time.Second)
						vrt.Quiesce("peer: tick")
						B.NewOuts()
						continue
					}
					name := e[strings.Index(e, "(")+1 : len(e)-1]
					r, tok := rc[name], tokens[name]
					initial := message.Options{{ID: message.URIPath, Value: []byte("big")}}
					var opts message.Options
					switch {
					case strings.HasPrefix(e, "next"):
						if !r.active {
							*r = recv{active: true}
							opts = initial
						} else {
							bo, _ := blockwise.EncodeBlockOption(blockwise.SZX16, int64(len(r.held)/pblk), false)
							opts = append(append(message.Options{}, initial...), message.Option{ID: message.Block2, Value: encodeUint(bo)})
						}
						r.last = opts
					case strings.HasPrefix(e, "dup-initial"):
						if !r.active {
							continue // nothing was sent yet that could be duplicated
						}
						opts = initial
					default:
						if !r.active {
							continue
						}
						opts = r.last
					}
					hist = append(hist, e)
					mid++
					_ = B.Inject(message.Message{Type: message.Confirmable, Code: codes.GET, MessageID: mid, Token: tok, Options: opts})
					vrt.Quiesce("peer: request processed")
					for _, o := range B.NewOuts() {
						var r *recv
						for n, t := range tokens {
							if bytes.Equal(t, o.M.Token) {
								r = rc[n]
							}
						}
						if r == nil || !r.active {
							continue
						}
						if o.M.Code != codes.Content {
							if o.M.Code >= codes.BadRequest {
								r.active = false // the exchange fails: allowed
							}
							continue
						}
						bo, err := o.M.Options.GetUint32(message.Block2)
						if err != nil {
							fail("peer/block-response-without-block-option", "a %d-byte body was answered without Block2: %v", 3*pblk, udpw.Describe(o.M))
							continue
						}
						szx, num, more, _ := blockwise.DecodeBlockOption(bo)
						et, _ := o.M.Options.GetBytes(message.ETag)
						if int(num)*int(szx.Size()) != len(r.held) {
							continue // not the block the receiver needs: ignored
						}
						if len(r.held) > 0 && !bytes.Equal(et, r.etag) {
							r.active = false // the representation changed and the server says so: the receiver gives up
							continue
						}
						r.etag = append([]byte{}, et...)
						r.held = append(r.held, o.M.Payload...)
						if !more {
							completed++
							okBody := false
							for _, v := range versions {
								okBody = okBody || bytes.Equal(v, r.held)
							}
							if !okBody {
								fail("peer/receiver-assembled-mixed-body", "a receiver that appends the served blocks in order ends with %d bytes %s, which is none of the %d bodies the application supplied", len(r.held), head(r.held), len(versions))
							}
							r.active = false
						}
					}
				}
				vrt.Metric("downloads_completed", int64(completed))
			})
			return func() (string, []mcx.Finding) { return fmt.Sprintf("%s|%d", strings.Join(hist, " "), completed), fs }
		},
	}
}

// bothPeerScenario: a request with a body (PUT / POST; block-wise Block1 upload or a single-block body) whose
// response is block-wise too. The virtual peer is a conforming client; the network may re-deliver its previous
// request with a fresh message ID at any point - also after the exchange has finished - and stored state may
// expire. Whatever happens, the application is only ever handed the body the peer uploaded.
func bothPeerScenario(depth int, code codes.Code, small bool) *mcx.Scenario {
	name := fmt.Sprintf("udp scripted peer: %v with a body (single block=%v) answered block-wise, previous request re-delivered (fresh message ID) at any point incl. after the end, depth=%d", code, small, depth)
	return &mcx.Scenario{
		Name:   name,
		Bounds: mcx.Bounds{Preempt: 0, Env: -1, Select: 0},
		Opt:    vrt.Options{MaxSteps: 600000},
		Body: func(s *vrt.Sched) func() (string, []mcx.Finding) {
			var hist []string
			var fs []mcx.Finding
			fail := func(sig, format string, a ...any) {
				fs = append(fs, mcx.Finding{Sig: sig, What: name + ": " + fmt.Sprintf(format, a...) + "; requests sent [" + strings.Join(hist, " ") + "]"})
			}
			completed, handled := 0, 0
			vrt.App("peer", func() {
				up := pattern(2*pblk, 0x21)
				if small {
					up = pattern(pblk/2, 0x21)
				}
				report := pattern(3*pblk, 0x61)
				finalsSent := 0
				B := udpw.New(udpw.Opts{NStart: 4, MaxRetransmit: 2, LimitTotal: 4, LimitEndpoint: 4, QueueSize: 8, BlockWise: true, SZX: blockwise.SZX16, FirstMID: 3000, BWTimeout: 5 * time.Second,
					Handler: func(w *responsewriter.ResponseWriter[*client.Conn], r *pool.Message) {
						track.Hold(r, "request inside a handler")
						defer track.Unhold(r)
						handled++
						var got []byte
						if r.Body() != nil {
							got, _ = io.ReadAll(r.Body())
						}
						if !bytes.Equal(got, up) {
							fail("peer/application-handed-a-body-nobody-uploaded", "the application was handed %v with a %d-byte body %s; the only body the peer ever uploaded has %d bytes", r.Code(), len(got), head(got), len(up))
						}
						if handled > finalsSent {
							fail("peer/application-handed-more-requests-than-were-completed", "handler invocation %d, the request was completed %d time(s) on the wire", handled, finalsSent)
						}
						_ = w.SetResponse(codes.Changed, message.AppOctets, bytes.NewReader(report))
					}})
				tok := message.Token{0xD4, 0x07}
				path := message.Options{{ID: message.URIPath, Value: []byte("res")}, {ID: message.ContentFormat, Value: []byte{42}}}
				nUp := (len(up) + pblk - 1) / pblk
				sentUp := 0     // upload blocks acknowledged
				var held []byte // response blocks appended
				done := false
				type wire struct {
					opts    message.Options
					payload []byte
					final   bool
				}
				var last *wire
				alpha := []string{"next", "dup-prev", "tick"}
				mid := int32(900)
				for step := 0; step < depth; step++ {
					e := alpha[vrt.Choose(len(alpha), nil)]
					if e == "tick" {
						hist = append(hist, e)
						B.Tick(6 * time.Second)
						vrt.Quiesce("peer: tick")
						B.NewOuts()
						continue
					}
					var wm *wire
					switch e {
					case "next":
						if done {
							continue
						}
						switch {
						case small && len(held) == 0:
							wm = &wire{opts: path, payload: up, final: true}
						case !small && sentUp < nUp:
							more := sentUp < nUp-1
							bo, _ := blockwise.EncodeBlockOption(blockwise.SZX16, int64(sentUp), more)
							o := append(append(message.Options{}, path...), message.Option{ID: message.Block1, Value: encodeUint(bo)})
							if sentUp == 0 {
								o = append(o, message.Option{ID: message.Size1, Value: encodeUint(uint32(len(up)))})
							}
							wm = &wire{opts: o, payload: up[sentUp*pblk : (sentUp+1)*pblk], final: !more}
						default:
							bo, _ := blockwise.EncodeBlockOption(blockwise.SZX16, int64(len(held)/pblk), false)
							wm = &wire{opts: append(message.Options{{ID: message.URIPath, Value: []byte("res")}}, message.Option{ID: message.Block2, Value: encodeUint(bo)})}
						}
						last = wm
					default:
						if last == nil {
							continue
						}
						wm = last
					}
					hist = append(hist, e)
					if wm.final {
						finalsSent++
					}
					mid++
					_ = B.Inject(message.Message{Type: message.Confirmable, Code: code, MessageID: mid, Token: tok, Options: wm.opts, Payload: wm.payload})
					vrt.Quiesce("peer: request processed")
					for _, o := range B.NewOuts() {
						if !bytes.Equal(o.M.Token, tok) || done {
							continue
						}
						switch {
						case o.M.Code == codes.Continue:
							if b1, err := o.M.Options.GetUint32(message.Block1); err == nil {
								if _, num, _, _ := blockwise.DecodeBlockOption(b1); int(num) == sentUp {
									sentUp++
								}
							}
						case o.M.Code == codes.Changed:
							if !small && sentUp == nUp-1 {
								sentUp = nUp
							}
							bo, err := o.M.Options.GetUint32(message.Block2)
							if err != nil {
								fail("peer/block-response-without-block-option", "a %d-byte body was answered without Block2: %v", len(report), udpw.Describe(o.M))
								continue
							}
							szx, num, more, _ := blockwise.DecodeBlockOption(bo)
							if int(num)*int(szx.Size()) != len(held) {
								continue
							}
							held = append(held, o.M.Payload...)
							if !more {
								completed++
								done = true
								if !bytes.Equal(held, report) {
									fail("peer/receiver-assembled-mixed-body", "the receiver ends with %d bytes %s, the application supplied %d bytes", len(held), head(held), len(report))
								}
							}
						case o.M.Code >= codes.BadRequest:
							done = true // the exchange failed: allowed
						}
					}
				}
				vrt.Metric("exchanges_completed", int64(completed))
			})
			return func() (string, []mcx.Finding) {
				return fmt.Sprintf("%s|%d|%d", strings.Join(hist, " "), completed, handled), fs
			}
		},
	}
}

// The peer uploads with blocks LARGER than this endpoint's maximum and keeps its size after the first 2.31 Continue
// proposed the smaller one (RFC 7959 2.5: adopting the proposed size is a SHOULD). The blocks arrive in order, each
// once: the application gets exactly the uploaded bytes, once - or the exchange fails; never a shortened body.
func uploadLargerBlocksScenario(peerSzx blockwise.SZX, size int) *mcx.Scenario {
	name := fmt.Sprintf("udp scripted peer: Block1 upload of %d bytes in %d-byte blocks to an endpoint whose maximum is 16, the peer keeps its block size", size, peerSzx.Size())
	return &mcx.Scenario{
		Name:   name,
		Bounds: mcx.Bounds{Preempt: 0, Env: -1, Select: 0},
		Opt:    vrt.Options{MaxSteps: 600000},
		Body: func(s *vrt.Sched) func() (string, []mcx.Finding) {
			var fs []mcx.Finding
			var codesSeen []string
			fail := func(sig, format string, a ...any) {
				fs = append(fs, mcx.Finding{Sig: sig, What: name + ": " + fmt.Sprintf(format, a...) + "; replies " + fmt.Sprint(codesSeen)})
			}
			delivered := 0
			vrt.App("peer", func() {
				up := pattern(size, 0x3c)
				var got [][]byte
				B := udpw.New(udpw.Opts{NStart: 4, MaxRetransmit: 2, LimitTotal: 4, LimitEndpoint: 4, QueueSize: 8, BlockWise: true, SZX: blockwise.SZX16, FirstMID: 3000, BWTimeout: 20 * time.Second,
					Handler: func(w *responsewriter.ResponseWriter[*client.Conn], r *pool.Message) {
						b, _ := r.ReadBody()
						got = append(got, append([]byte{}, b...))
						_ = w.SetResponse(codes.Changed, message.TextPlain, nil)
					}})
				bs := int(peerSzx.Size())
				tok := message.Token{0xD4, 0x09}
				failed := false
				for num := 0; num*bs < len(up) && !failed; num++ {
					end := (num + 1) * bs
					more := end < len(up)
					if !more {
						end = len(up)
					}
					bo, _ := blockwise.EncodeBlockOption(peerSzx, int64(num), more)
					_ = B.Inject(message.Message{Type: message.Confirmable, Code: codes.PUT, MessageID: int32(700 + num), Token: tok, Payload: up[num*bs : end],
						Options: message.Options{{ID: message.URIPath, Value: []byte("up")}, {ID: message.Block1, Value: encodeUint(bo)}}})
					vrt.Quiesce("peer: block processed")
					for _, o := range B.NewOuts() {
						if bytes.Equal(o.M.Token, tok) {
							codesSeen = append(codesSeen, o.M.Code.String())
							if o.M.Code >= codes.BadRequest {
								failed = true // the exchange fails: allowed
							}
						}
					}
				}
				delivered = len(got)
				for _, b := range got {
					if !bytes.Equal(b, up) {
						fail("peer/partial-or-mixed-body-presented", "the application received %d bytes %s, the peer uploaded %d bytes", len(b), head(b), len(up))
					}
				}
				if len(got) > 1 {
					fail("peer/handler-invoked-twice", "the upload was handed to the application %d times", len(got))
				}
				if len(got) == 0 && !failed {
					fail("peer/upload-neither-delivered-nor-failed", "every block was answered without an error, yet the application never got the body")
				}
			})
			return func() (string, []mcx.Finding) { return fmt.Sprintf("%v|%d", codesSeen, delivered), fs }
		},
	}
}

func addPeer(r *ev.Run, scs *[]*mcx.Scenario) {
	for _, sz := range []int{96, 159, 160, 161, 288} {
		*scs = append(*scs, uploadLargerBlocksScenario(blockwise.SZX32, sz))
	}
	*scs = append(*scs, uploadLargerBlocksScenario(blockwise.SZX64, 200))
	for _, code := range []codes.Code{codes.PUT, codes.POST} {
		*scs = append(*scs, bothPeerScenario(ev.Pick(r, 7, 9), code, false))
		*scs = append(*scs, bothPeerScenario(ev.Pick(r, 6, 8), code, true))
	}
	*scs = append(*scs, uploadPeerScenario(ev.Pick(r, 5, 6)))
	*scs = append(*scs, downloadPeerScenario(ev.Pick(r, 6, 8), false))
	*scs = append(*scs, downloadPeerScenario(ev.Pick(r, 6, 8), true))
}

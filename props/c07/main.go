// C07 — stream framing is independent of how bytes are segmented.
// Engine E2 (world mode): a real tcp/client.Conn with its Session.Run read loop over an in-memory
// net.Conn; for message sequences over all length classes the environment enumerates the
// segmentations of the concatenated encoding (all of them for short streams, all cut sets up to
// a bound near header boundaries for long ones) and several read-buffer sizes; oversize frames
// must end the connection at the read that completes their header.
package main

import (
	"bytes"
	"fmt"
	"strings"
	"time"

	"github.com/plgd-dev/go-coap/v3/message"
	"github.com/plgd-dev/go-coap/v3/message/codes"
	"github.com/plgd-dev/go-coap/v3/message/pool"
	"github.com/plgd-dev/go-coap/v3/net/responsewriter"
	"github.com/plgd-dev/go-coap/v3/tcp/client"

	"verif/ev"
	"verif/mcx"
	"verif/vrt"
	"verif/worlds/tcpw"
)

type shape struct {
	Name string
	M    message.Message
}

func opt(id message.OptionID, v []byte) message.Option { return message.Option{ID: id, Value: v} }

func body(n int) []byte {
	b := make([]byte, n)
	for i := range b {
		b[i] = byte('a' + i%23)
	}
	return b
}

// frame body length L = options + marker + payload. A payload of p>0 bytes without options gives L = p+1.
var small = []shape{
	{"GET/tkl0", message.Message{Code: codes.GET}},
	{"GET/tkl1/path", message.Message{Code: codes.GET, Token: message.Token{0x11}, Options: message.Options{opt(message.URIPath, []byte("a"))}}},
	{"2.05/tkl8/payload", message.Message{Code: codes.Content, Token: message.Token{1, 2, 3, 4, 5, 6, 7, 8}, Payload: []byte("xyz")}},
	{"CSM", message.Message{Code: codes.CSM, Options: message.Options{opt(message.TCPMaxMessageSize, []byte{0x04, 0x00})}}},
	{"Ping/tkl1", message.Message{Code: codes.Ping, Token: message.Token{0x21}}},
	{"Pong", message.Message{Code: codes.Pong}},
	{"Release", message.Message{Code: codes.Release}},
	{"Abort", message.Message{Code: codes.Abort}},
	{"POST/len12", message.Message{Code: codes.POST, Token: message.Token{0x31}, Payload: body(11)}},
	{"POST/len13", message.Message{Code: codes.POST, Token: message.Token{0x32}, Payload: body(12)}},
}

var big = []shape{
	{"POST/len268", message.Message{Code: codes.POST, Token: message.Token{0x41}, Payload: body(267)}},
	{"POST/len269", message.Message{Code: codes.POST, Token: message.Token{0x42}, Payload: body(268)}},
	{"POST/len65804", message.Message{Code: codes.POST, Token: message.Token{0x43}, Payload: body(65803)}},
	{"POST/len65805", message.Message{Code: codes.POST, Token: message.Token{0x44}, Payload: body(65804)}},
}

type cfg struct {
	Seq      []shape
	Cache    uint16
	MaxCuts  int    // -1: every segmentation
	Oversize []byte // raw offending header (+ some body bytes) inserted after the first message; the rest of Seq follows it
	MaxSize  uint32
	Queue    int  // received-message queue size (0 = 16)
	Ping     bool // the connection has a ping of its own outstanding; the stream starts with the matching Pong; the message pool recycles
	Busy     bool // the handler of the first message does not return until the reader has consumed what it can
}

func (c cfg) String() string {
	var n []string
	for _, s := range c.Seq {
		n = append(n, s.Name)
	}
	cuts := "all segmentations"
	if c.MaxCuts >= 0 {
		cuts = fmt.Sprintf("<=%d cuts near boundaries", c.MaxCuts)
	}
	ov := ""
	if c.Oversize != nil {
		ov = fmt.Sprintf(" oversize-header=%x max=%d", c.Oversize[:min(len(c.Oversize), 8)], c.MaxSize)
	}
	if c.Busy {
		ov += fmt.Sprintf(" queue=%d first-handler-busy", c.Queue)
	}
	if c.Ping {
		ov += " own-ping-outstanding recycling-pool"
	}
	return fmt.Sprintf("tcp stream [%s] read-buffer=%d %s%s", strings.Join(n, ","), c.Cache, cuts, ov)
}

func sigOf(m message.Message) string {
	var ob strings.Builder
	for _, o := range m.Options {
		fmt.Fprintf(&ob, "%d=%x;", o.ID, o.Value)
	}
	p := m.Payload
	if len(p) > 24 {
		p = append(append([]byte{}, p[:12]...), []byte(fmt.Sprintf("..%d..%x", len(p), p[len(p)-4:]))...)
	}
	return fmt.Sprintf("%v|%x|%s|%s", m.Code, []byte(m.Token), ob.String(), p)
}

func scenario(c cfg) *mcx.Scenario {
	envB := -1
	if c.MaxCuts >= 0 {
		envB = c.MaxCuts
	}
	return &mcx.Scenario{
		Name:   c.String(),
		Bounds: mcx.Bounds{Preempt: 0, Env: envB, Select: 0},
		Opt:    vrt.Options{MaxSteps: 2000000},
		Body: func(s *vrt.Sched) func() (string, []mcx.Finding) {
			var fs []mcx.Finding
			var handled, signals []string
			var cuts []int
			fail := func(sig, format string, a ...any) {
				fs = append(fs, mcx.Finding{Sig: sig, What: c.String() + ": " + fmt.Sprintf(format, a...) + fmt.Sprintf("; cuts after bytes %v", cuts)})
			}
			vrt.App("env", func() {
				maxSize := c.MaxSize
				if maxSize == 0 {
					maxSize = 128 * 1024
				}
				q := 16
				if c.Queue != 0 {
					q = c.Queue
				}
				handlerGo := !c.Busy
				poolSize := uint32(0)
				if c.Ping {
					poolSize = 16
				}
				w := tcpw.New(tcpw.Opts{CacheSize: c.Cache, MaxMsgSize: maxSize, DisableCSM: true, QueueSize: q, PoolSize: poolSize,
					Handler: func(_ *responsewriter.ResponseWriter[*client.Conn], r *pool.Message) {
						vrt.WaitUntil("application handler busy", func() bool { return handlerGo })
						b, _ := r.ReadBody()
						handled = append(handled, sigOf(message.Message{Code: r.Code(), Token: r.Token(), Options: r.Options(), Payload: b}))
					},
					OnSignal: func(code codes.Code) { signals = append(signals, code.String()) }})
				// the stream
				var stream []byte
				var wantHandled, wantSignals []string
				if c.Ping {
					cancelPing, errP := w.CC.AsyncPing(func() {})
					if errP != nil {
						fail("ENGINE/setup", "AsyncPing failed: %v", errP)
						return
					}
					defer cancelPing()
					vrt.Quiesce("env: ping on the wire")
					for _, m := range w.NewOuts() {
						if m.Code == codes.Ping {
							stream = append(stream, tcpw.Encode(message.Message{Code: codes.Pong, Token: m.Token})...)
						}
					}
					if len(stream) == 0 {
						fail("ENGINE/setup", "the connection wrote no Ping")
						return
					}
					wantSignals = append(wantSignals, codes.Pong.String())
				}
				var bounds []int // offsets at which a frame starts / a header ends
				offendingHeaderEnd := -1
				for i, sh := range c.Seq {
					if i == 1 && c.Oversize != nil {
						bounds = append(bounds, len(stream))
						hdrLen := oversizeHeaderLen(c.Oversize)
						offendingHeaderEnd = len(stream) + hdrLen - 1
						stream = append(stream, c.Oversize...)
					}
					enc := tcpw.Encode(sh.M)
					bounds = append(bounds, len(stream), len(stream)+len(enc)-len(sh.M.Payload)-boolInt(len(sh.M.Payload) > 0))
					stream = append(stream, enc...)
					if offendingHeaderEnd >= 0 {
						continue // nothing at or after the oversize frame may be delivered
					}
					if sh.M.Code >= codes.CSM && sh.M.Code <= codes.Abort {
						wantSignals = append(wantSignals, sh.M.Code.String())
					} else {
						wantHandled = append(wantHandled, sigOf(sh.M))
					}
				}
				bounds = append(bounds, len(stream))
				// segmentation: choose the cut points
				for p := 1; p < len(stream); p++ {
					if c.MaxCuts >= 0 {
						near := len(stream) <= 40
						for _, b := range bounds {
							if p >= b-3 && p <= b+7 {
								near = true
							}
						}
						if !near {
							continue
						}
						if vrt.Choose(2, []int8{0, 1}) == 1 {
							cuts = append(cuts, p)
						}
					} else if vrt.Choose(2, nil) == 1 {
						cuts = append(cuts, p)
					}
				}
				prev := 0
				var chunks [][]byte
				for _, p := range append(append([]int{}, cuts...), len(stream)) {
					chunks = append(chunks, stream[prev:p])
					prev = p
				}
				// reads needed to deliver the byte that completes the offending header
				readsForHeader := 0
				if offendingHeaderEnd >= 0 {
					delivered := 0
					for _, ch := range chunks {
						for off := 0; off < len(ch); off += int(c.Cache) {
							n := min(int(c.Cache), len(ch)-off)
							delivered += n
							readsForHeader++
							if delivered > offendingHeaderEnd {
								goto counted
							}
						}
					}
				counted:
				}
				w.InjectChunks(chunks...)
				w.St.PeerClosed = true // FIN after the last byte
				vrt.Quiesce("env: stream consumed")
				if c.Busy {
					handlerGo = true
					vrt.Quiesce("env: handler released, rest consumed")
				}
				if fmt.Sprint(handled) != fmt.Sprint(wantHandled) {
					kind := "messages-differ"
					switch {
					case len(handled) < len(wantHandled):
						kind = "message-lost"
					case len(handled) > len(wantHandled):
						kind = "message-extra-or-duplicated"
					}
					if offendingHeaderEnd >= 0 && len(handled) > len(wantHandled) {
						kind = "delivered-at-or-after-oversize-frame"
					}
					fail("framing/"+kind, "handler saw %v, the peer sent %v", handled, wantHandled)
				}
				if fmt.Sprint(signals) != fmt.Sprint(wantSignals) {
					fail("framing/signals-differ", "signal callback saw %v, the peer sent %v", signals, wantSignals)
				}
				if offendingHeaderEnd >= 0 {
					if !w.RunDone || w.RunErr == nil {
						fail("oversize/connection-not-closed-with-error", "after an oversize header Run has returned=%v err=%v", w.RunDone, w.RunErr)
					}
					if w.St.Reads > readsForHeader {
						fail("oversize/read-after-offending-header", "the offending header was complete after %d reads, but the connection performed %d reads (it waited for / buffered the oversize body)", readsForHeader, w.St.Reads)
					}
					select {
					case <-w.CC.Done():
					default:
						fail("oversize/done-not-signalled", "connection Done() not closed after the oversize frame")
					}
				} else if !w.RunDone {
					fail("framing/run-did-not-end-at-eof", "Run did not return after the peer closed the stream")
				}
				vrt.Metric("stream_bytes", int64(len(stream)))
				vrt.Metric("cuts", int64(len(cuts)))
			})
			return func() (string, []mcx.Finding) {
				return fmt.Sprint(cuts, len(handled), len(signals)), fs
			}
		},
	}
}

// allLimit: streams up to this many bytes get every segmentation (15 bytes: 16384 segmentations; thorough 18: 131072).
var allLimit = 15

// allOr: every segmentation when the stream is short enough, else cut sets up to n.
func allOr(n int, shapes ...shape) int {
	total := 0
	for _, s := range shapes {
		total += len(tcpw.Encode(s.M))
	}
	if total <= allLimit {
		return -1
	}
	return n
}

func boolInt(b bool) int {
	if b {
		return 1
	}
	return 0
}

// header = Len/TKL byte + extended length + code + token
func oversizeHeaderLen(h []byte) int {
	ext := map[byte]int{13: 1, 14: 2, 15: 4}[h[0]>>4]
	return 1 + ext + 1 + int(h[0]&0x0f)
}

func be32(v uint32) []byte { return []byte{byte(v >> 24), byte(v >> 16), byte(v >> 8), byte(v)} }

func main() {
	r := ev.Start("C07", "fault_enumeration")
	var scs []*mcx.Scenario
	if r.Thorough() {
		allLimit = 18
	}
	caches := []uint16{1, 2, 3, 7, 64, 2048}
	// (1) singles and pairs of the short shapes: every segmentation
	for _, a := range small {
		for _, ca := range caches {
			scs = append(scs, scenario(cfg{Seq: []shape{a}, Cache: ca, MaxCuts: allOr(ev.Pick(r, 4, 8), a)}))
		}
	}
	short := small[:8]
	for _, a := range short {
		for _, b := range short {
			for _, ca := range ev.Pick(r, []uint16{1, 3, 2048}, caches) {
				scs = append(scs, scenario(cfg{Seq: []shape{a, b}, Cache: ca, MaxCuts: allOr(ev.Pick(r, 3, 5), a, b)}))
			}
		}
	}
	// (2) triples: cut sets of bounded size
	for _, a := range short {
		for _, b := range short {
			for _, c3 := range short {
				scs = append(scs, scenario(cfg{Seq: []shape{a, b, c3}, Cache: ev.Pick(r, uint16(2), uint16(3)), MaxCuts: ev.Pick(r, 2, 4)}))
			}
		}
	}
	// (3) long frames: all length-nibble classes, cuts near header boundaries
	for _, b := range append(append([]shape{}, small[8:]...), big...) {
		for _, ca := range []uint16{7, 64, 2048} {
			if len(b.M.Payload) > 1000 && ca < 64 {
				continue
			}
			scs = append(scs, scenario(cfg{Seq: []shape{b}, Cache: ca, MaxCuts: ev.Pick(r, 2, 4)}))
			scs = append(scs, scenario(cfg{Seq: []shape{small[1], b, small[2]}, Cache: ca, MaxCuts: ev.Pick(r, 1, 3)}))
		}
	}
	// (3b) a frame larger than the read buffer / connection cache with complete frames coalesced behind it, and a further read
	for _, b := range big[:2] {
		for _, ca := range []uint16{16, 33, 64} {
			scs = append(scs, scenario(cfg{Seq: []shape{b, small[1], small[8], small[2]}, Cache: ca, MaxCuts: ev.Pick(r, 2, 3)}))
		}
	}
	// (3c) more messages arrive than the received-message queue holds while the first handler is busy
	var burst []shape
	for i := 0; i < 6; i++ {
		burst = append(burst, shape{fmt.Sprintf("GET/burst%d", i), message.Message{Code: codes.GET, Token: message.Token{0x50 + byte(i)}, Options: message.Options{opt(message.URIPath, []byte{byte('a' + i)})}}})
	}
	for _, q := range []int{1, 2} {
		scs = append(scs, scenario(cfg{Seq: burst, Cache: 2048, MaxCuts: ev.Pick(r, 0, 1), Queue: q, Busy: true}))
	}
	// (3d) the Pong answering the connection's own ping, followed by coalesced frames; the message pool recycles objects
	for _, ca := range []uint16{7, 64, 2048} {
		scs = append(scs, scenario(cfg{Seq: []shape{small[1], small[8], small[2]}, Cache: ca, MaxCuts: ev.Pick(r, 1, 2), Ping: true}))
	}
	// (4) oversize frames: max message size 64; a valid message, the offending header (+4 body bytes), a valid message
	for _, ov := range [][]byte{
		{0xd1, 51, 0x02, 0xaa, 1, 2, 3, 4},                                        // 13-class: total length 65 = max+1
		{0xe0, 0x00, 0x10, 0x02, 1, 2, 3, 4},                                      // 14-class
		append(append([]byte{0xf2}, be32(100)...), 0x02, 0xaa, 0xbb, 1, 2, 3, 4),  // 15-class
		append(append([]byte{0xf0}, be32(0xffffffff)...), 0x02, 1, 2, 3, 4),       // wraps 2^32
		append(append([]byte{0xf0}, be32(0xfffefeed)...), 0x02, 1, 2, 3, 4),       // exactly 2^32
		append(append([]byte{0xf1}, be32(0xfffefef0)...), 0x02, 0xaa, 1, 2, 3, 4), // 2^32 + small
	} {
		for _, ca := range []uint16{1, 3, 2048} {
			scs = append(scs, scenario(cfg{Seq: []shape{small[0], small[1]}, Cache: ca, MaxCuts: ev.Pick(r, 4, 8), Oversize: ov, MaxSize: 64}))
		}
	}
	// (4b) the same with the peer's CSM in front: what the peer announces it accepts (Max-Message-Size 1024) says nothing
	// about what this side accepts (64)
	for _, ov := range [][]byte{
		{0xd1, 51, 0x02, 0xaa, 1, 2, 3, 4},   // 65 bytes: above the local limit, below the peer's
		{0xe0, 0x00, 0x10, 0x02, 1, 2, 3, 4}, // 285 bytes
	} {
		for _, ca := range []uint16{1, 3, 2048} {
			scs = append(scs, scenario(cfg{Seq: []shape{small[3], small[1]}, Cache: ca, MaxCuts: ev.Pick(r, 4, 8), Oversize: ov, MaxSize: 64}))
		}
	}
	sum := mcx.Explore(r, scs, mcx.Config{Wall: ev.Pick(r, 4*time.Minute, 30*time.Minute)})
	mcx.Report(r, scs, sum)
	r.Set("distinct_nontrivial", sum.Execs-int64(len(scs)))
	r.Set("rule", "scenario = message sequence x read-buffer size; the environment chooses the segmentation of the concatenated encoding: every subset of cut positions for streams of singles and pairs of the short shapes (all TKL 0/1/8, request, response, CSM, Ping, Pong, Release, Abort, body lengths 12 and 13), cut sets of bounded size for triples and around header boundaries for the long frames (268/269/65804/65805); each read returns at most read-buffer bytes of the current segment; oracle: handler log = sent non-signal messages in order, signal log = sent signals in order, Run returns at EOF; oversize family (max message size 64, declared lengths max+1, 16-bit and 32-bit classes, 2^32 wrap values): nothing at or after the frame delivered, Run ends with an error, no Read after the one completing the offending header; non-trivial = executions with at least one cut")
	r.Sample(map[string]any{"scenario": scs[len(small)*len(caches)+5].Name, "cuts_after_bytes": []int{1, 3, 4}})
	r.Assume("the peer's bytes are all queued before the reader runs; each Read call returns min(read buffer, rest of the current segment)", "scheduling of the single reader thread is not a source of nondeterminism here (preemption bound 0)")
	_ = bytes.MinRead
	r.Finish()
}

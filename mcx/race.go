package mcx

import (
	"context"
	"os"
	"os/exec"
	"strings"
	"time"

	"verif/ev"
)

// RacePass runs the free-running `-race` binary that ./check built from props/<id>/race (if the
// check has one) and turns a reported data race into a violation. Supplementary (DESIGN §3.2.7):
// the pass samples schedules of real goroutines, so it can only ADD a violation; its silence is not
// a verdict and is recorded as such. pkgPrefix selects the frames that name the signature.
func RacePass(r *ev.Run, goroutines int, pkgPrefix string) {
	bin := os.Getenv("VERIF_RACE_BIN")
	if bin == "" || IsWorker() || ev.Arg("replay") != "" || ev.Arg("only") != "" || r.Part != "" {
		return
	}
	ctx, cancel := context.WithTimeout(context.Background(), 5*time.Minute)
	defer cancel()
	cmd := exec.CommandContext(ctx, bin, os.Getenv("VERIF_RACE_ARG"))
	cmd.Env = append(os.Environ(), "GORACE=halt_on_error=1 exitcode=66")
	out, err := cmd.CombinedOutput()
	if ctx.Err() != nil {
		// (a free-running program that does not end is not a verdict of this pass; functional behaviour is decided by the explorer)
		r.Set("race_pass", map[string]any{"ran": true, "ended": false, "kind": "supplementary sampling; the program did not end within 5 minutes, no race had been reported"})
		return
	}
	r.Set("race_pass", map[string]any{"ran": true, "iterations_per_goroutine": os.Getenv("VERIF_RACE_ARG"), "goroutines": goroutines, "kind": "supplementary sampling under the Go race detector; silence is not a verdict"})
	if err == nil {
		return
	}
	report := string(out)
	ee, isExit := err.(*exec.ExitError)
	if !strings.Contains(report, "WARNING: DATA RACE") && !strings.Contains(report, "fatal error: concurrent map") {
		code := -1
		if isExit {
			code = ee.ExitCode()
		}
		ev.EngineError("race pass %s failed without a race report (exit %d): %s", bin, code, tail(report, 1500))
	}
	if i := strings.Index(report, "WARNING: DATA RACE"); i >= 0 {
		report = report[i:]
	}
	if len(report) > 2500 {
		report = report[:2500]
	}
	// signature: the two library functions named first in the report
	sig := "data-race"
	var fns []string
	for _, l := range strings.Split(report, "\n") {
		l = strings.TrimSpace(l)
		if strings.HasPrefix(l, "github.com/plgd-dev/go-coap/v3/"+pkgPrefix) && len(fns) < 2 {
			f := strings.TrimPrefix(l, "github.com/plgd-dev/go-coap/v3/")
			if k := strings.Index(f, "()"); k > 0 {
				f = f[:k]
			}
			if k := strings.Index(f, "["); k > 0 { // generic instantiation
				f = f[:k] + f[strings.LastIndex(f, "]")+1:]
			}
			if len(fns) == 0 || fns[0] != f {
				fns = append(fns, f)
			}
		}
	}
	if len(fns) > 0 {
		sig += "/" + strings.Join(fns, "+")
	}
	r.Violate(sig, "the Go race detector reported a data race between operations run from real goroutines: "+report, map[string]any{"cmd": bin, "arg": os.Getenv("VERIF_RACE_ARG")})
}

func tail(s string, n int) string {
	if len(s) > n {
		return s[len(s)-n:]
	}
	return s
}

package vrt

import (
	"cmp"
	"fmt"
	"iter"
	"slices"
	"unsafe"
)

// Case is one communication clause of a select.
type Case interface {
	ptr() uintptr
	isSend() bool
	ready(s *Sched, self *Thread) bool
	exec(s *Sched, self *Thread, idx int) Sel
	take() any
	put(v any, ok bool)
}

type Sel struct {
	Index int
	OK    bool
}

type RecvC[T any] struct {
	ch  <-chan T
	val T
	ok  bool
}
type SendC[T any] struct {
	ch chan<- T
	v  T
}

func RecvCase[T any](ch <-chan T) *RecvC[T]      { return &RecvC[T]{ch: ch} }
func SendCase[T any](ch chan<- T, v T) *SendC[T] { return &SendC[T]{ch: ch, v: v} }
func (c *RecvC[T]) Value(Sel) T                  { return c.val }
func (c *RecvC[T]) ptr() uintptr                 { return uintptr(*(*unsafe.Pointer)(unsafe.Pointer(&c.ch))) }
func (c *SendC[T]) ptr() uintptr                 { return uintptr(*(*unsafe.Pointer)(unsafe.Pointer(&c.ch))) }
func (c *RecvC[T]) isSend() bool                 { return false }
func (c *SendC[T]) isSend() bool                 { return true }
func (c *RecvC[T]) take() any                    { panic("take on recv") }
func (c *SendC[T]) take() any                    { return c.v }
func (c *SendC[T]) put(any, bool)                { panic("put on send") }
func (c *RecvC[T]) put(v any, ok bool) {
	if ok {
		c.val = v.(T)
	}
	c.ok = ok
}

// partner: a parked thread (not self) whose pending op has a case on channel p in the
// opposite direction.
func (s *Sched) partner(self *Thread, p uintptr, wantSend bool) (*Thread, int) {
	for _, t := range s.threads {
		if t == self || t.done || t.op == nil || t.op.completed || len(t.op.cases) == 0 {
			continue
		}
		for i, c := range t.op.cases {
			if c.ptr() == p && c.isSend() == wantSend {
				return t, i
			}
		}
	}
	return nil, -1
}

func (c *RecvC[T]) isClosed(s *Sched) bool {
	p := c.ptr()
	if s.closed[p] {
		return true
	}
	if len(c.ch) > 0 {
		return false
	}
	// channel possibly closed by un-instrumented code (context cancellation): side-effect-free probe
	select {
	case _, ok := <-c.ch:
		if ok {
			panic("vrt: value received from an unmanaged sender")
		}
		s.closed[p] = true
		s.keep = append(s.keep, c.ch)
		return true
	default:
		return false
	}
}

func (c *RecvC[T]) ready(s *Sched, self *Thread) bool {
	if c.ch == nil {
		return false
	}
	if len(c.ch) > 0 {
		return true
	}
	if c.isClosed(s) {
		return true
	}
	if cap(c.ch) == 0 {
		t, _ := s.partner(self, c.ptr(), true)
		return t != nil
	}
	return false
}

func (c *RecvC[T]) exec(s *Sched, self *Thread, idx int) Sel {
	if len(c.ch) > 0 {
		c.val, c.ok = <-c.ch
		return Sel{idx, c.ok}
	}
	if !c.isClosed(s) && cap(c.ch) == 0 {
		if t, i := s.partner(self, c.ptr(), true); t != nil {
			c.val, c.ok = t.op.cases[i].take().(T), true
			t.op.completed, t.op.sel = true, Sel{i, true}
			return Sel{idx, true}
		}
	}
	var z T
	c.val, c.ok = z, false
	return Sel{idx, false}
}

func (c *SendC[T]) ready(s *Sched, self *Thread) bool {
	if c.ch == nil {
		return false
	}
	if s.closed[c.ptr()] {
		return true // will panic like Go
	}
	if cap(c.ch) > 0 {
		return len(c.ch) < cap(c.ch)
	}
	t, _ := s.partner(self, c.ptr(), false)
	return t != nil
}

func (c *SendC[T]) exec(s *Sched, self *Thread, idx int) Sel {
	if s.closed[c.ptr()] {
		panic("send on closed channel")
	}
	if cap(c.ch) > 0 {
		c.ch <- c.v
		return Sel{idx, true}
	}
	t, i := s.partner(self, c.ptr(), false)
	t.op.cases[i].put(c.v, true)
	t.op.completed, t.op.sel = true, Sel{i, true}
	return Sel{idx, true}
}

// Select replaces a select statement. Which ready case fires is an explorer choice.
func Select(hasDefault bool, cases ...Case) Sel {
	s := S
	if s == nil || !s.running || s.killed {
		return selectPassThrough(s, hasDefault, cases)
	}
	self := s.cur
	o := &op{label: "select", cases: cases}
	if len(cases) == 1 && !hasDefault {
		if cases[0].isSend() {
			o.label = "chan send"
		} else {
			o.label = "chan recv"
		}
	}
	o.ready = func() bool {
		if hasDefault {
			return true
		}
		for _, c := range cases {
			if c.ready(s, self) {
				return true
			}
		}
		return false
	}
	s.yield(o)
	if o.completed {
		return o.sel
	}
	var rdy []int
	for i, c := range cases {
		if c.ready(s, self) {
			rdy = append(rdy, i)
		}
	}
	if len(rdy) == 0 {
		if !hasDefault {
			panic("vrt: select scheduled while not ready")
		}
		return Sel{-1, false}
	}
	k := 0
	if len(rdy) > 1 {
		k = s.choose(len(rdy), 'c', false, nil)
	}
	return cases[rdy[k]].exec(s, self, rdy[k])
}

// outside an execution (driver goroutine) or while unwinding a killed thread: never block.
func selectPassThrough(s *Sched, hasDefault bool, cases []Case) Sel {
	if s != nil && s.killed {
		if s.cur != nil {
			s.exit(s.cur)
		}
		return Sel{-1, false}
	}
	tmp := s
	if tmp == nil {
		tmp = &Sched{closed: map[uintptr]bool{}}
	}
	for i, c := range cases {
		if c.ready(tmp, nil) {
			return c.exec(tmp, nil, i)
		}
	}
	if hasDefault {
		return Sel{-1, false}
	}
	panic("vrt: blocking channel operation outside an execution")
}

func Send[T any](ch chan<- T, v T) { Select(false, SendCase(ch, v)) }
func Recv[T any](ch <-chan T) T {
	c := RecvCase(ch)
	Select(false, c)
	return c.val
}
func Recv2[T any](ch <-chan T) (T, bool) {
	c := RecvCase(ch)
	s := Select(false, c)
	return c.val, s.OK
}

func Close[T any](ch chan<- T) {
	if S != nil {
		p := uintptr(*(*unsafe.Pointer)(unsafe.Pointer(&ch)))
		S.closed[p] = true
		S.keep = append(S.keep, ch)
	}
	close(ch)
}

func RangeChan[T any](ch <-chan T) iter.Seq[T] {
	return func(yield func(T) bool) {
		for {
			v, ok := Recv2(ch)
			if !ok || !yield(v) {
				return
			}
		}
	}
}

// MapRange iterates a map in sorted key order (deterministic); entries deleted during the
// iteration are skipped, entries inserted during it are not visited (allowed by the spec).
func MapRange[M ~map[K]V, K comparable, V any](m M) iter.Seq2[K, V] {
	return func(yield func(K, V) bool) {
		keys := make([]K, 0, len(m))
		for k := range m {
			keys = append(keys, k)
		}
		sortKeys(keys)
		for _, k := range keys {
			v, ok := m[k]
			if !ok {
				continue
			}
			if !yield(k, v) {
				return
			}
		}
	}
}

func sortKeys[K comparable](keys []K) {
	switch ks := any(keys).(type) {
	case []string:
		slices.Sort(ks)
	case []int:
		slices.Sort(ks)
	case []uint64:
		slices.Sort(ks)
	case []int32:
		slices.Sort(ks)
	case []uint32:
		slices.Sort(ks)
	default:
		slices.SortFunc(keys, func(a, b K) int { return cmp.Compare(fmt.Sprint(a), fmt.Sprint(b)) })
	}
}

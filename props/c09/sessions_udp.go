package main

import (
	"verif/ev"
	"verif/mcx"
)

func addUDPSessionScenarios(r *ev.Run, scs *[]*mcx.Scenario) {}

package vsync

// Map replaces sync.Map in instrumented files: same API, deterministic Range order (insertion order)
// so that executions are reproducible. Operations are atomic with respect to the cooperative
// scheduler (no scheduling point inside), like sync.Map's are linearizable.
type Map struct {
	m     map[any]any
	order []any
}

func (m *Map) init() {
	if m.m == nil {
		m.m = map[any]any{}
	}
}

func (m *Map) Load(key any) (any, bool) { v, ok := m.m[key]; return v, ok }

func (m *Map) Store(key, value any) {
	m.init()
	if _, ok := m.m[key]; !ok {
		m.order = append(m.order, key)
	}
	m.m[key] = value
}

func (m *Map) LoadOrStore(key, value any) (any, bool) {
	if v, ok := m.m[key]; ok {
		return v, true
	}
	m.Store(key, value)
	return value, false
}

func (m *Map) LoadAndDelete(key any) (any, bool) {
	v, ok := m.m[key]
	if ok {
		m.Delete(key)
	}
	return v, ok
}

func (m *Map) Delete(key any) {
	if _, ok := m.m[key]; !ok {
		return
	}
	delete(m.m, key)
	for i, k := range m.order {
		if k == key {
			m.order = append(m.order[:i:i], m.order[i+1:]...)
			break
		}
	}
}

func (m *Map) Swap(key, value any) (any, bool) {
	v, ok := m.m[key]
	m.Store(key, value)
	return v, ok
}

func (m *Map) CompareAndSwap(key, old, new any) bool {
	if v, ok := m.m[key]; ok && v == old {
		m.m[key] = new
		return true
	}
	return false
}

func (m *Map) CompareAndDelete(key, old any) bool {
	if v, ok := m.m[key]; ok && v == old {
		m.Delete(key)
		return true
	}
	return false
}

func (m *Map) Range(f func(key, value any) bool) {
	keys := append([]any{}, m.order...)
	for _, k := range keys {
		v, ok := m.m[k]
		if !ok {
			continue
		}
		if !f(k, v) {
			return
		}
	}
}

func (m *Map) Clear() { m.m, m.order = nil, nil }

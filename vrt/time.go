package vrt

import (
	"context"
	"sort"
	"time"
)

type vtimer struct {
	at    time.Time
	fire  func(now time.Time)
	fired bool
	seq   int
}

// Now is the virtual clock (real time outside executions).
func Now() time.Time {
	if S == nil {
		return time.Now()
	}
	return S.clock
}

func (s *Sched) addTimer(at time.Time, fire func(time.Time)) *vtimer {
	t := &vtimer{at: at, fire: fire, seq: len(s.timers)}
	s.timers = append(s.timers, t)
	return t
}

// Advance moves the virtual clock forward and fires every timer / context deadline that is
// due, in (deadline, creation) order. Only the environment calls it.
func Advance(d time.Duration) { SetClock(Now().Add(d)) }

func SetClock(t time.Time) {
	s := S
	if t.Before(s.clock) {
		panic("vrt: clock moved backwards")
	}
	s.clock = t
	var due []*vtimer
	for _, tm := range s.timers {
		if !tm.fired && !tm.at.After(t) {
			due = append(due, tm)
		}
	}
	sort.SliceStable(due, func(i, j int) bool {
		if !due[i].at.Equal(due[j].at) {
			return due[i].at.Before(due[j].at)
		}
		return due[i].seq < due[j].seq
	})
	for _, tm := range due {
		tm.fired = true
		tm.fire(t)
	}
}

// PendingDeadlines lists the instants at which some timer/deadline will fire.
func PendingDeadlines() []time.Time {
	var out []time.Time
	for _, tm := range S.timers {
		if !tm.fired {
			out = append(out, tm.at)
		}
	}
	sort.Slice(out, func(i, j int) bool { return out[i].Before(out[j]) })
	return out
}

// After replaces time.After.
func After(d time.Duration) <-chan time.Time {
	ch := make(chan time.Time, 1)
	if S == nil {
		panic("vrt.After outside an execution")
	}
	S.addTimer(S.clock.Add(d), func(now time.Time) { ch <- now })
	return ch
}

type deadlineCtx struct {
	context.Context
	deadline time.Time
	timedOut *bool
}

func (d *deadlineCtx) Deadline() (time.Time, bool) { return d.deadline, true }
func (d *deadlineCtx) Err() error {
	err := d.Context.Err()
	if err != nil && *d.timedOut {
		return context.DeadlineExceeded
	}
	return err
}

// WithDeadline replaces context.WithDeadline: the deadline fires when the virtual clock
// reaches it.
func WithDeadline(parent context.Context, at time.Time) (context.Context, context.CancelFunc) {
	if pd, ok := parent.Deadline(); ok && pd.Before(at) {
		at = pd
	}
	c, cancel := context.WithCancel(parent)
	timedOut := new(bool)
	d := &deadlineCtx{Context: c, deadline: at, timedOut: timedOut}
	if S == nil {
		panic("vrt.WithDeadline outside an execution")
	}
	if !at.After(S.clock) {
		*timedOut = true
		cancel()
		return d, cancel
	}
	tm := S.addTimer(at, func(time.Time) {
		if c.Err() == nil {
			*timedOut = true
		}
		cancel()
	})
	return d, func() { tm.fired = true; cancel() }
}

func WithTimeout(parent context.Context, d time.Duration) (context.Context, context.CancelFunc) {
	return WithDeadline(parent, Now().Add(d))
}

// deterministic replacement for crypto/rand.
func RandRead(b []byte) (int, error) {
	var st *uint64
	if S != nil {
		st = &S.rng
	} else {
		st = &globalRng
	}
	for i := range b {
		*st = *st*6364136223846793005 + 1442695040888963407
		b[i] = byte(*st >> 56)
	}
	return len(b), nil
}

var globalRng uint64

package main

import (
	"bytes"
	"context"
	"fmt"
	"strings"
	"time"

	"github.com/plgd-dev/go-coap/v3/message"
	"github.com/plgd-dev/go-coap/v3/message/codes"
	"github.com/plgd-dev/go-coap/v3/message/pool"
	"github.com/plgd-dev/go-coap/v3/net/blockwise"
	"github.com/plgd-dev/go-coap/v3/net/responsewriter"
	tcpclient "github.com/plgd-dev/go-coap/v3/tcp/client"

	"verif/ev"
	"verif/mcx"
	"verif/vrt"
	"verif/worlds/tcpw"
)

// tcp two-party family: two real tcp/client.Conn endpoints joined by a byte relay (reliable,
// ordered; the relay chooses where the stream is cut). BERT (SZX 7) and the plain block sizes.

type tcfg struct {
	SzxA, SzxB blockwise.SZX
	MaxA, MaxB uint32
	Up, Down   int
	Cuts       int
}

func (c tcfg) String() string {
	return fmt.Sprintf("tcp two-party szx(client=%d,server=%d) maxmsg(client=%d,server=%d) up=%d down=%d cuts<=%d", c.SzxA, c.SzxB, c.MaxA, c.MaxB, c.Up, c.Down, c.Cuts)
}

func tcpScenario(c tcfg) *mcx.Scenario {
	return &mcx.Scenario{
		Name:   c.String(),
		Bounds: mcx.Bounds{Preempt: 0, Env: c.Cuts, Select: 0, Delay: 1},
		Opt:    vrt.Options{MaxSteps: 1500000},
		Body: func(s *vrt.Sched) func() (string, []mcx.Finding) {
			var fs []mcx.Finding
			var hist []string
			up, down := pattern(c.Up, 0x11), pattern(c.Down, 0x77)
			var handlerBodies [][]byte
			done := false
			var derr error
			var gotBody []byte
			var gotCode codes.Code
			vrt.App("relay", func() {
				csm := func() message.Message {
					bo := make([]byte, 4)
					opts, _, _ := message.Options{}.SetUint32(bo, message.TCPMaxMessageSize, 8192)
					opts = append(opts, message.Option{ID: message.TCPBlockWiseTransfer})
					return message.Message{Code: codes.CSM, Options: opts}
				}
				A := tcpw.New(tcpw.Opts{LimitTotal: 4, LimitEndpoint: 4, QueueSize: 8, BlockWise: true, SZX: c.SzxA, MaxMsgSize: c.MaxA, DisableCSM: true, BWTimeout: 20 * time.Second})
				B := tcpw.New(tcpw.Opts{LimitTotal: 4, LimitEndpoint: 4, QueueSize: 8, BlockWise: true, SZX: c.SzxB, MaxMsgSize: c.MaxB, DisableCSM: true, BWTimeout: 20 * time.Second,
					Handler: func(w *responsewriter.ResponseWriter[*tcpclient.Conn], r *pool.Message) {
						if r.Code() != codes.POST && r.Code() != codes.GET {
							return
						}
						b, _ := r.ReadBody()
						handlerBodies = append(handlerBodies, append([]byte{}, b...))
						if down != nil {
							_ = w.SetResponse(codes.Content, message.AppOctets, bytes.NewReader(down))
						} else {
							_ = w.SetResponse(codes.Changed, message.TextPlain, nil)
						}
					}})
				// both sides announce block-wise support (RFC 8323 §5.3.2)
				A.Inject(csm())
				B.Inject(csm())
				vrt.Quiesce("relay: CSM exchanged")
				vrt.App("client", func() {
					ctx, cancel := vrt.WithTimeout(context.Background(), 60*time.Second)
					defer cancel()
					req := A.CC.AcquireMessage(ctx)
					req.SetToken(message.Token{0xE7, 0x01})
					_ = req.SetPath("/big")
					if up != nil {
						req.SetCode(codes.POST)
						req.SetContentFormat(message.AppOctets)
						req.SetBody(bytes.NewReader(up))
					} else {
						req.SetCode(codes.GET)
					}
					resp, err := A.CC.Do(req)
					derr = err
					if err == nil {
						gotCode = resp.Code()
						gotBody, _ = resp.ReadBody()
					}
					done = true
				})
				sentA, sentB := 0, 0
				move := func(from *tcpw.World, sent *int, to *tcpw.World, name string) bool {
					out := from.St.Out[*sent:]
					if len(out) == 0 {
						return false
					}
					*sent = len(from.St.Out)
					// the relay may cut the run of bytes once (deviation): in the header region or in the middle
					cut := 0
					if len(out) > 3 {
						switch vrt.Choose(3, []int8{0, 1, 1}) {
						case 1:
							cut = 2
						case 2:
							cut = len(out) / 2
						}
					}
					if cut > 0 {
						hist = append(hist, fmt.Sprintf("%s:%d|%d", name, cut, len(out)-cut))
						to.InjectChunks(out[:cut], out[cut:])
					} else {
						hist = append(hist, fmt.Sprintf("%s:%d", name, len(out)))
						to.InjectChunks(out)
					}
					return true
				}
				laterCSM := 0
				for round := 0; round < 200; round++ {
					vrt.Quiesce("relay: settle")
					// a further CSM (capabilities are cumulative, RFC 8323 5.3: one that does not repeat Block-Wise-Transfer
					// revokes nothing) may arrive between two frames of the transfer
					if round > 0 && !done && laterCSM < 1 && vrt.Choose(2, []int8{0, 1}) == 1 {
						laterCSM++
						bo := make([]byte, 4)
						n, _ := message.EncodeUint32(bo, 2048)
						m := message.Message{Code: codes.CSM, Options: message.Options{{ID: message.TCPMaxMessageSize, Value: bo[:n]}}}
						if vrt.Choose(2, nil) == 0 {
							hist = append(hist, "CSM(no block-wise option)>A")
							A.Inject(m)
						} else {
							hist = append(hist, "CSM(no block-wise option)>B")
							B.Inject(m)
						}
						vrt.Quiesce("relay: later CSM consumed")
					}
					a := move(A, &sentA, B, "A>B")
					b := move(B, &sentB, A, "B>A")
					if !a && !b {
						if done {
							break
						}
						// nothing in flight and the caller still waits: let the deadline pass
						vrt.Advance(61 * time.Second)
					}
				}
			})
			return func() (string, []mcx.Finding) {
				fail := func(sig, format string, a ...any) {
					fs = append(fs, mcx.Finding{Sig: sig, What: c.String() + ": " + fmt.Sprintf(format, a...) + "; relay [" + strings.Join(hist, " ") + "]"})
				}
				if !done {
					return "hung", fs
				}
				wantUp := up
				if wantUp == nil {
					wantUp = []byte{}
				}
				for i, b := range handlerBodies {
					if !bytes.Equal(b, wantUp) {
						fail("tcp/handler-got-wrong-body", "handler invocation %d got %d bytes %s, the client sent %d bytes %s", i, len(b), head(b), len(wantUp), head(wantUp))
					}
				}
				if len(handlerBodies) > 1 && up != nil {
					fail("tcp/handler-invoked-twice", "handler ran %d times for one uploaded body", len(handlerBodies))
				}
				if derr == nil && (gotCode == codes.Content || gotCode == codes.Changed) {
					wantDown := down
					if wantDown == nil {
						wantDown = []byte{}
					}
					if gotBody == nil {
						gotBody = []byte{}
					}
					if !bytes.Equal(gotBody, wantDown) {
						fail("tcp/client-got-wrong-body", "Do returned %d bytes %s, the server sent %d bytes %s", len(gotBody), head(gotBody), len(wantDown), head(wantDown))
					}
					if len(handlerBodies) < 1 {
						fail("tcp/success-without-handler", "Do succeeded but the handler never ran")
					}
				} else {
					// The statement allows an exchange to end with an error or a timeout; a transfer that does not
					// complete on a fault-free stream is recorded as an observation (DESIGN O4: a BERT upload whose
					// body fits the first block still announces more=1 and then stalls until the deadline).
					vrt.S = s
					vrt.Metric("fault_free_stream_transfers_ending_in_error_or_timeout", 1)
					vrt.S = nil
				}
				return fmt.Sprintf("%v/%v/%d", derr != nil, gotCode, len(handlerBodies)), fs
			}
		},
	}
}

func addTCP(r *ev.Run, scs *[]*mcx.Scenario) {
	type pair struct {
		a, b       blockwise.SZX
		maxA, maxB uint32
	}
	pairs := []pair{{7, 7, 1152, 1152}, {7, 7, 4096, 2300}, {7, 6, 4096, 4096}, {6, 7, 4096, 4096}, {2, 7, 4096, 4096}, {0, 0, 4096, 4096}}
	for _, p := range pairs {
		blk := 1024
		if p.a < 7 && p.b < 7 {
			blk = 16 << min(p.a, p.b)
		} else if p.a < 7 {
			blk = 16 << p.a
		} else if p.b < 7 {
			blk = 16 << p.b
		}
		var ns []int
		for _, k := range []int{1, 2, 3} {
			ns = append(ns, k*blk-1, k*blk, k*blk+1)
		}
		ns = append(ns, 0, 1, 5000)
		for _, n := range ns {
			if blk < 1024 && n > 3*blk+1 {
				continue // (a 5000-byte body in 16..512-byte blocks needs more relay rounds than the harness horizon of 200)
			}
			*scs = append(*scs, tcpScenario(tcfg{SzxA: p.a, SzxB: p.b, MaxA: p.maxA, MaxB: p.maxB, Up: n, Down: -1, Cuts: ev.Pick(r, 1, 2)}))
			*scs = append(*scs, tcpScenario(tcfg{SzxA: p.a, SzxB: p.b, MaxA: p.maxA, MaxB: p.maxB, Up: -1, Down: n, Cuts: ev.Pick(r, 1, 2)}))
		}
		*scs = append(*scs, tcpScenario(tcfg{SzxA: p.a, SzxB: p.b, MaxA: p.maxA, MaxB: p.maxB, Up: 2*blk + 1, Down: 2*blk + 1, Cuts: 1}))
	}
}

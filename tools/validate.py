#!/opt/veriftools/pyvenv/bin/python
import json,jsonschema,sys,glob
m=json.load(open('/verif/MANIFEST.json')); jsonschema.validate(m,json.load(open('/root/.vp/MANIFEST.schema.json')))
es=json.load(open('/root/.vp/EVIDENCE.schema.json'))
ids=[l and json.loads(l)['id'] for l in open('/verif/properties.jsonl')]
claimed=[c['property_id'] for c in m['checks']]
na=[c['property_id'] for c in m.get('not_applicable',[])]
for f in glob.glob('/verif/evidence/*.json'):
    jsonschema.validate(json.load(open(f)),es)
missing=[i for i in ids if i not in claimed and i not in na]
print("manifest ok; claimed",len(claimed),"na",len(na),"unlisted",missing)

// C12 — a pooled message has one owner at a time.
// Driver: re-runs the worlds of C03, C05, C06, C08 (and C04 once built) compiled with the
// overlay variant c12, in which message/pool carries a lifecycle tracker: released objects are
// quarantined and marked dead, every *pool.Message method starts with a liveness check, and the
// harnesses mark the windows in which the application holds a message. The part binaries are
// built by ./check from /repo's working tree; this program runs them and merges their evidence.
package main

import (
	"encoding/json"
	"fmt"
	"os"
	"os/exec"
	"path/filepath"
	"strings"

	"verif/ev"
)

func main() {
	r := ev.Start("C12", "model_checking")
	parts := strings.Fields(os.Getenv("VERIF_C12_PARTS"))
	if len(parts) == 0 {
		ev.EngineError("VERIF_C12_PARTS not set (run through ./check C12)")
	}
	if p := ev.Arg("replay"); p != "" {
		// a replay file names its scenario; try each part until one knows it
		for _, part := range parts {
			part = strings.TrimLeft(part, "+=")
			cmd := exec.Command(filepath.Join(binDir(), "c12-"+part), "--replay", p)
			cmd.Env = append(os.Environ(), "VERIF_AS=C12", "VERIF_PART="+part)
			out, _ := cmd.CombinedOutput()
			if !strings.Contains(string(out), "unknown scenario") {
				fmt.Print(string(out))
				return
			}
		}
		ev.EngineError("no part knows the scenario of %s", p)
	}
	var states, transitions, execs, outcomes int64
	exhaustive := true
	perPart := map[string]any{}
	failed := false
	for _, part := range parts {
		tier, full := r.Tier, ""
		if strings.HasPrefix(part, "+") {
			// a part marked '+' always runs its (reduced) quick-tier scenario set: its thorough set belongs to its own property's thorough check
			part, tier = part[1:], "quick"
		} else if strings.HasPrefix(part, "=") {
			// a part marked '=' runs, in the thorough tier, its full quick-tier scenario set (not the reduced one): its own
			// thorough set takes 12-15 minutes per part even without the tracker
			part = part[1:]
			if tier == "thorough" {
				tier, full = "quick", "1"
			}
		}
		cmd := exec.Command(filepath.Join(binDir(), "c12-"+part), "--tier", tier)
		cmd.Env = append(os.Environ(), "VERIF_AS=C12", "VERIF_PART="+part, "VERIF_PART_FULL="+full)
		out, err := cmd.CombinedOutput()
		for _, l := range strings.Split(string(out), "\n") {
			if strings.HasPrefix(l, "VIOLATION") || strings.HasPrefix(l, "KNOWN-FINDING") || strings.HasPrefix(l, "  ") || strings.HasPrefix(l, "ENGINE-ERROR") {
				fmt.Println(l)
			}
		}
		if err != nil {
			if ee, ok := err.(*exec.ExitError); ok && ee.ExitCode() == 1 {
				failed = true
			} else {
				ev.EngineError("part %s failed: %v\n%s", part, err, out)
			}
		}
		b, err := os.ReadFile(filepath.Join(ev.Root, "evidence", ".parts", "C12-"+part+".json"))
		if err != nil {
			ev.EngineError("part %s wrote no evidence: %v", part, err)
		}
		var e struct {
			Coverage map[string]any `json:"coverage"`
			WallS    float64        `json:"wall_s"`
		}
		if err := json.Unmarshal(b, &e); err != nil {
			ev.EngineError("part %s evidence: %v", part, err)
		}
		num := func(k string) int64 { f, _ := e.Coverage[k].(float64); return int64(f) }
		// a part whose binary was built without the tracker re-runs its scenarios for nothing: refuse to count it
		mm, _ := e.Coverage["max_metrics"].(map[string]any)
		if acq, _ := mm["pool_acquired"].(float64); acq == 0 {
			ev.EngineError("part %s ran without the lifecycle tracker (no tracked acquisition in any execution): its worlds must import verif/worlds/track", part)
		}
		if chk, _ := mm["pool_liveness_checks"].(float64); chk == 0 {
			ev.EngineError("part %s: the tracker saw no method call on a pooled message", part)
		}
		states += num("states")
		transitions += num("transitions")
		execs += num("traces_validated_against_impl")
		outcomes += num("distinct_outcomes")
		if ex, _ := e.Coverage["exhaustive"].(bool); !ex {
			exhaustive = false
		}
		perPart[part] = map[string]any{"executions": num("traces_validated_against_impl"), "states": num("states"), "transitions": num("transitions"), "distinct_outcomes": num("distinct_outcomes"), "wall_s": e.WallS, "exhaustive": e.Coverage["exhaustive"], "tracker": e.Coverage["max_metrics"]}
		if s, ok := e.Coverage["samples"].([]any); ok && len(s) > 0 {
			r.Sample(map[string]any{"part": part, "case": s[0]})
		}
	}
	r.Set("states", states)
	r.Set("transitions", transitions)
	r.Set("traces_validated_against_impl", execs)
	r.Set("evaluations", execs)
	r.Set("distinct_outcomes", outcomes)
	r.Set("distinct_nontrivial", outcomes)
	r.Set("exhaustive", exhaustive)
	r.Set("parts", perPart)
	r.Set("rule", "the scenario sets of the listed parts (token routing, block-wise, de-duplication, retransmission, observe streams at the tier of this run; exchange histories incl. error paths that release early, nested handlers, cancel/close/stop paths and server worlds at their quick-tier size; see their own evidence for the spaces) re-executed with the pool lifecycle tracker: violation = second release of an object, any *pool.Message method call on a released object, release of a message while the application holds it (response returned from Do, request inside a handler, notification inside a callback), or a change of its content during that window")
	r.Assume("all pool.Message fields are unexported, so method-entry checks see every library access", "leaks (never released) are not violations of C12", "the tracker ignores the unwinding of threads after an execution has ended", "findings of a part's own functional oracle (wrong body, wrong caller, ...) are not C12 violations: the part's own property check runs the same scenarios with the same oracle and the same poison-on-release; here they are only counted in the part's evidence")
	if failed {
		// the part binaries already printed their VIOLATION lines and wrote the replay files
		r.Set("part_reported_violations", true)
		r.Violate("see-parts", "one of the parts reported a pool-ownership violation (lines above)", nil)
	}
	r.Finish()
}

func binDir() string {
	if d := os.Getenv("VERIF_BIN_DIR"); d != "" {
		return d
	}
	return filepath.Join(ev.Root, ".build", "bin")
}

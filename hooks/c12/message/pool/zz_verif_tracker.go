//go:build verif

package pool

import (
	"context"

	"fmt"
	"io"
	"runtime"
	"strings"
	"verif/vrt"
)

// Lifecycle tracker injected by the verification overlay (variant c12). Every *Message method
// starts with verifLive(...); AcquireMessage / ReleaseMessage are diverted here. Released
// objects are quarantined (never handed out again) and marked dead, so a second release, any
// later method call and a release while the application holds the message fail immediately.

type VerifViolation struct {
	Kind  string // double-release | use-after-release | released-while-held | changed-while-held
	What  string
	Stack string
}

type verifState struct {
	dead      bool
	held      string // non-empty: the application holds the message (label)
	heldHash  string
	releaseAt string
	byApp     bool // released by the application (harness), i.e. by its rightful owner
}

type VerifTracker struct {
	state      map[*Message]*verifState
	Violations []VerifViolation
	Acquired   int
	Released   int
	Checks     int
	// library accesses to a message after the APPLICATION released it (e.g. the deferred IsHijacked()
	// of ProcessReceivedMessageWithHandler on a response already consumed by the caller of Do):
	// outside the statement ("the library never reads or writes a message after releasing it"),
	// counted as an observation
	AfterAppRelease int
	inTracker  bool
	// Points: every *Message method entry is a scheduling point (only for dedicated small scenarios:
	// it makes races between a reader of a message and a concurrent release visible to the explorer)
	Points bool
}

// VerifTrack is nil unless a harness switched the tracker on for the current execution.
var VerifTrack *VerifTracker

func NewVerifTracker() *VerifTracker { return &VerifTracker{state: map[*Message]*verifState{}} }

func verifStack() string {
	buf := make([]byte, 4096)
	n := runtime.Stack(buf, false)
	lines := strings.Split(string(buf[:n]), "\n")
	var keep []string
	for _, l := range lines {
		if strings.Contains(l, "/udp/") || strings.Contains(l, "/tcp/") || strings.Contains(l, "/net/") || strings.Contains(l, "/message/") || strings.Contains(l, "/verif/props") || strings.Contains(l, "/verif/worlds") {
			keep = append(keep, strings.TrimSpace(l))
		}
	}
	if len(keep) > 10 {
		keep = keep[:10]
	}
	return strings.Join(keep, " <- ")
}

// callSite names the first repository frame outside message/pool (stable signature component).
func verifCallSite() string {
	pcs := make([]uintptr, 24)
	n := runtime.Callers(3, pcs)
	fr := runtime.CallersFrames(pcs[:n])
	for {
		f, more := fr.Next()
		lib := strings.HasPrefix(f.Function, "github.com/plgd-dev/go-coap/v3/")
		if strings.HasSuffix(f.Function, ".ReleaseMessage") || strings.HasSuffix(f.Function, ".AcquireMessage") {
			// thin wrappers (Conn.ReleaseMessage, Session.ReleaseMessage, ...): the caller decides who acts
		} else if lib && !strings.HasPrefix(f.Function, "github.com/plgd-dev/go-coap/v3/message/pool.") {
			name := f.Function
			if i := strings.LastIndex(name, "/"); i >= 0 {
				name = name[i+1:]
			}
			return name
		} else if !lib && (strings.HasPrefix(f.Function, "verif/props") || strings.HasPrefix(f.Function, "verif/worlds") || strings.HasPrefix(f.Function, "main.")) {
			return "harness(application)"
		}
		if !more {
			return "?"
		}
	}
}

func (t *VerifTracker) violate(kind, what string) {
	t.Violations = append(t.Violations, VerifViolation{Kind: kind + " at " + verifCallSite(), What: what, Stack: verifStack()})
}

func verifLive(m *Message, method string) {
	t := VerifTrack
	if t == nil || m == nil || t.inTracker || vrt.Killed() {
		return
	}
	if t.Points {
		vrt.PointAtomic("pool.Message." + method)
	}
	t.Checks++
	if st := t.state[m]; st != nil && st.dead {
		if st.byApp && verifCallSite() != "harness(application)" {
			t.AfterAppRelease++
			return
		}
		t.violate("use-after-release", fmt.Sprintf("method %s called on a message that was released at [%s]", method, st.releaseAt))
	}
}

func verifAcquire(ctx context.Context) *Message {
	t := VerifTrack
	if t == nil {
		return nil
	}
	m := NewMessage(ctx) // quarantine: never recycle while tracking
	t.state[m] = &verifState{}
	t.Acquired++
	return m
}

func verifRelease(m *Message) bool {
	t := VerifTrack
	if t == nil || m == nil {
		return false
	}
	if vrt.Killed() {
		return true // unwinding of an execution that is over: not part of any explored behaviour
	}
	st := t.state[m]
	if st == nil {
		st = &verifState{} // created with NewMessage directly
		t.state[m] = st
	}
	if st.dead {
		t.violate("double-release", fmt.Sprintf("message released twice; first release at [%s]", st.releaseAt))
		return true
	}
	if st.held != "" {
		t.violate("released-while-held", fmt.Sprintf("message released while the application holds it (%s)", st.held))
	}
	st.dead = true
	st.releaseAt = verifCallSite()
	st.byApp = st.releaseAt == "harness(application)"
	// what the real pool does to a recycled object (the object itself stays quarantined): a later
	// reader sees a reset message, e.g. whatever Reset() leaves in the hijack flag
	t.inTracker = true
	m.Reset()
	m.ctx = nil
	verifPoison(m)
	t.inTracker = false
	t.Released++
	return true
}

func (t *VerifTracker) hash(m *Message) string {
	t.inTracker = true
	defer func() { t.inTracker = false }()
	var body []byte
	if m.body != nil {
		pos, err := m.body.Seek(0, io.SeekCurrent)
		if err == nil {
			_, _ = m.body.Seek(0, io.SeekStart)
			body, _ = io.ReadAll(m.body)
			_, _ = m.body.Seek(pos, io.SeekStart)
		}
	}
	return fmt.Sprintf("%v|%v|%x|%d|%v|%x", m.msg.Code, m.msg.Type, []byte(m.msg.Token), m.msg.MessageID, m.msg.Options, body)
}

// Hold marks m as held by the application (response returned from a request call, request inside
// a handler, notification inside a callback) and remembers its content.
func (t *VerifTracker) Hold(m *Message, label string) {
	if t == nil || m == nil {
		return
	}
	st := t.state[m]
	if st == nil {
		st = &verifState{}
		t.state[m] = st
	}
	if st.dead {
		t.violate("handed-over-dead", "a message that had already been released was handed to the application as "+label)
	}
	st.held, st.heldHash = label, t.hash(m)
}

// Unhold ends the window and verifies that the content did not change meanwhile.
func (t *VerifTracker) Unhold(m *Message) {
	if t == nil || m == nil {
		return
	}
	st := t.state[m]
	if st == nil || st.held == "" {
		return
	}
	if !st.dead {
		if h := t.hash(m); h != st.heldHash {
			t.violate("changed-while-held", fmt.Sprintf("content of a message held by the application (%s) changed: %s -> %s", st.held, st.heldHash, h))
		}
	}
	st.held = ""
}

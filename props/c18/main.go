// C18 — inactivity and keep-alive monitors close exactly the dead connections.
// Engine E2 (world mode): every history of {message received, pong for ping g, wait, tick at
// now+d} events up to a bound, applied to the real Monitor / KeepAlive wired exactly as
// options.WithKeepAlive / WithInactivityMonitor wire them, against a reference written from
// the statement. The clock is the vrt virtual clock.
package main

import (
	"context"
	"errors"
	"fmt"
	"strings"
	"time"

	"github.com/plgd-dev/go-coap/v3/net/monitor/inactivity"

	"verif/ev"
	"verif/mcx"
	"verif/vrt"
)

type fakeConn struct{ closed int }

func (c *fakeConn) Context() context.Context { return context.Background() }
func (c *fakeConn) Close() error             { c.closed++; return nil }

const P = 10 * time.Second
const eps = time.Millisecond

type cfg struct {
	KeepAlive   bool
	MaxRetries  uint32
	Depth       int
	SendMayFail bool // the ping cannot always be written
	Split       bool // a pong is two events: its arrival (received message) and, later, the run of the ping's callback (receive queue delay)
}

func (c cfg) String() string {
	if !c.KeepAlive {
		return fmt.Sprintf("inactivity-monitor period=%v depth=%d", P, c.Depth)
	}
	sp := ""
	if c.Split {
		sp = " pong-arrival-and-callback-separate"
	}
	return fmt.Sprintf("keep-alive maxRetries=%d period=%v depth=%d ping-send-may-fail=%v%s", c.MaxRetries, P, c.Depth, c.SendMayFail, sp)
}

var deltas = []time.Duration{P / 2, P - eps, P + eps, 2*P + eps, P - P/32}

func scenario(c cfg) *mcx.Scenario {
	return &mcx.Scenario{
		Name:   c.String(),
		Bounds: mcx.Bounds{Preempt: 0, Env: -1, Select: -1},
		Body: func(s *vrt.Sched) func() (string, []mcx.Finding) {
			cc := &fakeConn{}
			var hist []string
			var fs []mcx.Finding
			fail := func(sig, format string, a ...any) {
				fs = append(fs, mcx.Finding{Sig: sig, What: c.String() + ": " + fmt.Sprintf(format, a...) + "; history [" + strings.Join(hist, " ") + "]"})
			}
			vrt.App("env", func() {
				// --- real objects, wired as options.KeepAliveOpt / InactivityMonitorOpt do
				closedByMonitor := 0
				onInactive := func(x *fakeConn) { closedByMonitor++; _ = x.Close() }
				type ping struct {
					pong      func()
					cancelled bool
					arrived   bool
				}
				var pings []*ping
				var queued []int
				sendFailed := false
				var mon *inactivity.Monitor[*fakeConn]
				if c.KeepAlive {
					ka := inactivity.NewKeepAlive(c.MaxRetries, onInactive, func(x *fakeConn, receivePong func()) (func(), error) {
						if c.SendMayFail && vrt.Choose(2, nil) == 1 {
							hist = append(hist, "(ping-send-fails)")
							sendFailed = true
							return nil, errors.New("cannot write ping")
						}
						p := &ping{pong: receivePong}
						pings = append(pings, p)
						return func() { p.cancelled = true }, nil
					})
					mon = inactivity.NewKeepAliveMonitor(P, ka) // the constructor options.WithKeepAlive uses
				} else {
					mon = inactivity.New(P, onInactive)
				}
				// --- reference state (from the statement)
				last := vrt.Now() // time of the last received message (creation counts as activity)
				fails := 0        // consecutive inactivity detections without credit
				gen := 0          // number of pings the reference expects to have been emitted
				for step := 0; step < c.Depth; step++ {
					// alphabet: recv, pong(current), pong(previous), wait P/2, tick(d) for d in deltas
					n := 2 + len(deltas)
					if c.KeepAlive {
						n += 2
					}
					if c.Split {
						n++
					}
					k := vrt.Choose(n, nil)
					switch {
					case c.Split && k == n-1:
						// the callback of the oldest pong that has arrived but was not dispatched yet runs now
						if len(queued) == 0 {
							hist = append(hist, "callback(none)")
							continue
						}
						g := queued[0]
						queued = queued[1:]
						hist = append(hist, fmt.Sprintf("callback(%d)", g+1))
						pings[g].pong()
						if g == len(pings)-1 {
							fails = 0 // the current ping is answered
						} // a late answer to an earlier ping is not credited to a later one
					case c.Split && c.KeepAlive && k >= 2+len(deltas):
						g := len(pings) - 1 - (k - (2 + len(deltas)))
						if g < 0 || pings[g].arrived {
							hist = append(hist, "pong-arrives(none)")
							continue
						}
						hist = append(hist, fmt.Sprintf("pong-arrives(%d)", g+1))
						pings[g].arrived = true
						queued = append(queued, g)
						mon.Notify() // the datagram is a received message now; its callback runs when it is dispatched
						last = vrt.Now()
						fails = 0
					case k == 0:
						hist = append(hist, "recv")
						mon.Notify()
						last = vrt.Now()
						fails = 0 // "any ... other received message resets the count"
					case k == 1:
						// a short or a long pause without a tick (two messages less than P/8 apart, or half a period)
						if vrt.Choose(2, nil) == 0 {
							hist = append(hist, "wait(P/2)")
							vrt.Advance(P / 2)
						} else {
							hist = append(hist, "wait(P/16)")
							vrt.Advance(P / 16)
						}
					case k < 2+len(deltas):
						d := deltas[k-2]
						hist = append(hist, fmt.Sprintf("tick(+%v)", d))
						vrt.Advance(d)
						now := vrt.Now()
						before, pingsBefore := closedByMonitor, len(pings)
						sendFailed = false
						mon.CheckInactivity(now, cc)
						fires := now.After(last.Add(P))
						closedNow := closedByMonitor > before
						if !c.KeepAlive {
							if closedNow && !fires {
								fail("monitor-closed-without-full-silent-period", "closed at a tick although a message was received %v ago (period %v)", now.Sub(last), P)
							}
							if !closedNow && fires {
								fail("monitor-did-not-close-at-first-tick-after-period", "not closed at a tick %v after the last received message (period %v)", now.Sub(last), P)
							}
						} else {
							wantClose := false
							if fires {
								fails++
								if fails > int(c.MaxRetries) {
									wantClose = true
								} else {
									gen++
								}
							}
							if closedNow && !fires {
								fail("keepalive-closed-without-inactivity", "closed at a tick although a message was received %v ago", now.Sub(last))
							} else if closedNow && !wantClose {
								fail("keepalive-closed-early", "closed after %d consecutive uncredited inactivity detections, allowed only after more than maxRetries=%d", fails, c.MaxRetries)
							} else if !closedNow && wantClose {
								fail("keepalive-did-not-close", "not closed although %d consecutive inactivity detections went uncredited (maxRetries=%d)", fails, c.MaxRetries)
							}
							if !closedNow && fires && !wantClose && len(pings) != pingsBefore+1 && !sendFailed {
								fail("keepalive-no-ping-on-inactivity", "inactivity detected but %d pings were emitted at this tick", len(pings)-pingsBefore)
							}
							if !fires && len(pings) != pingsBefore {
								fail("keepalive-ping-without-inactivity", "ping emitted at a tick without inactivity")
							}
						}
						if closedNow {
							return // the connection is closed: end of this history
						}
					case k == 2+len(deltas): // pong for the current ping
						if len(pings) == 0 {
							hist = append(hist, "pong(none)")
							continue
						}
						hist = append(hist, fmt.Sprintf("pong(%d=current)", len(pings)))
						mon.Notify() // a pong is a received message
						pings[len(pings)-1].pong()
						last = vrt.Now()
						fails = 0
					default: // late pong for the previous (superseded) ping
						if len(pings) < 2 {
							hist = append(hist, "latepong(none)")
							continue
						}
						hist = append(hist, fmt.Sprintf("latepong(%d)", len(pings)-1))
						mon.Notify()
						pings[len(pings)-2].pong()
						last = vrt.Now()
						fails = 0 // it is still a received message; what it must NOT do is credit beyond that - covered by the tick oracle
					}
				}
				_ = gen
			})
			return func() (string, []mcx.Finding) {
				return strings.Join(hist, " ") + fmt.Sprintf("|closed=%d", cc.closed), fs
			}
		},
	}
}

func main() {
	r := ev.Start("C18", "model_checking")
	var scs []*mcx.Scenario
	d := ev.Pick(r, 6, 8)
	scs = append(scs, scenario(cfg{Depth: d + 1}))
	for _, n := range []uint32{0, 1, 2, 3} {
		scs = append(scs, scenario(cfg{KeepAlive: true, MaxRetries: n, Depth: d}))
		scs = append(scs, scenario(cfg{KeepAlive: true, MaxRetries: n, Depth: d - 1, SendMayFail: true}))
		scs = append(scs, scenario(cfg{KeepAlive: true, MaxRetries: n, Depth: d, Split: true}))
	}
	addConnLevel(r, &scs)
	addServerLevel(r, &scs)
	addConc(r, &scs)
	sum := mcx.Explore(r, scs, mcx.Config{Wall: ev.Pick(r, 3*time.Minute, 20*time.Minute)})
	mcx.Report(r, scs, sum)
	r.Set("rule", "every history up to the depth over {recv, wait P/2, tick(+P/2), tick(+P-1ms), tick(+P+1ms), tick(+2P+1ms), pong(current ping), late pong(previous ping)} applied to the real Monitor/KeepAlive (wired as options.WithKeepAlive does) with a virtual clock; reference: tick fires iff now > last received + P; plain monitor closes iff fires; keep-alive closes exactly at a firing tick at which more than maxRetries consecutive detections are uncredited, credit = any received message (pong or other); distinct outcome = distinct history + close count; split variant: pong arrival (a received message) and the run of the ping's callback are separate events; connection level: real udp/tcp conns configured by the real options incl. reads ending inside the next message; server level: udp server with per-peer inactivity monitor and with keep-alive (maxRetries=2), two peers, pongs per peer")
	r.Sample(map[string]any{"scenario": scs[2].Name, "history": "tick(+10.001s) recv tick(+10.001s)", "reference": "count reset by recv: second tick is detection #1, no close with maxRetries=1"})
	r.Assume("events are atomic (the quantifier is over histories); conn-level wiring of Notify/CheckInactivity is exercised by the connection worlds")
	r.Finish()
}

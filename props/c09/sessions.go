package main

import (
	"bytes"
	"context"
	"fmt"
	"time"

	"github.com/plgd-dev/go-coap/v3/message"
	"github.com/plgd-dev/go-coap/v3/message/codes"
	"github.com/plgd-dev/go-coap/v3/message/pool"
	"github.com/plgd-dev/go-coap/v3/net/responsewriter"
	"github.com/plgd-dev/go-coap/v3/tcp/client"

	"verif/ev"
	"verif/mcx"
	"verif/vrt"
	"verif/worlds/tcpw"
)

// Session-level scenarios: the REAL tcp/client.Session (Run loop, Close, shutdown, on-close
// callbacks, Done) over an in-memory net.Conn, including a write that is blocked because the peer
// stopped reading, a half-open stream, peer close, and Close called from two goroutines.

type tcfg struct {
	Op      string // do | observe | ping | write-blocked | idle
	Intr    string // cancel | close2 (two goroutines call Close) | peer-close | peer-error
	Preempt int
}

func (c tcfg) String() string {
	return fmt.Sprintf("tcp-session op=%s interrupt=%s preempt<=%d", c.Op, c.Intr, c.Preempt)
}

func tcpScenario(c tcfg) *mcx.Scenario {
	return &mcx.Scenario{
		Name:        c.String(),
		Bounds:      mcx.Bounds{Preempt: c.Preempt, Env: -1, Select: 0},
		DeadlockSig: "blocked-forever/tcp-" + c.Op + "/" + c.Intr,
		Body: func(s *vrt.Sched) func() (string, []mcx.Finding) {
			var fs []mcx.Finding
			result := "not-returned"
			returned := false
			closes := 0
			onClose := 0
			var w *tcpw.World
			vrt.App("setup", func() {
				handlerGo, handlerRuns := false, 0
				o := tcpw.Opts{LimitTotal: 2, LimitEndpoint: 2, QueueSize: 2, DisableCSM: true}
				if c.Op == "full-queue" {
					o.QueueSize = 1
					o.Handler = func(*responsewriter.ResponseWriter[*client.Conn], *pool.Message) {
						handlerRuns++
						vrt.WaitUntil("application handler busy", func() bool { return handlerGo })
					}
				}
				if c.Op == "close-from-handler" {
					// the application closes the connection from inside its handler (and waits for the done signal there)
					o.Handler = func(w *responsewriter.ResponseWriter[*client.Conn], _ *pool.Message) {
						handlerRuns++
						_ = w.Conn().Close()
						closes++
						vrt.Recv(w.Conn().Done())
					}
				}
				w = tcpw.New(o)
				w.CC.AddOnClose(func() { onClose++ })
				w.CC.AddOnClose(func() { onClose++ })
				ctx, cancel := context.WithCancel(context.Background())
				if c.Op == "write-blocked" {
					w.St.BlockWrites = true
				}
				vrt.App("op", func() {
					var err error
					switch c.Op {
					case "do":
						req := w.CC.AcquireMessage(ctx)
						req.SetCode(codes.GET)
						req.SetToken(message.Token{0xD1})
						_ = req.SetPath("/a")
						_, err = w.CC.Do(req)
					case "write-blocked":
						req := w.CC.AcquireMessage(ctx)
						req.SetCode(codes.POST)
						req.SetToken(message.Token{0xD1})
						_ = req.SetPath("/a")
						req.SetBody(bytes.NewReader(bytes.Repeat([]byte("x"), 64)))
						_, err = w.CC.Do(req)
					case "observe":
						_, err = w.CC.Observe(ctx, "/obs", func(*pool.Message) {})
					case "ping":
						err = w.CC.Ping(ctx)
					case "idle":
						vrt.Recv(w.CC.Done())
					case "close-from-handler":
						w.Inject(message.Message{Code: codes.GET, Token: message.Token{0xB1}})
						vrt.Recv(w.CC.Done())
					case "full-queue":
						// one message in the busy handler, one queued, the read loop parked handing over the third
						for i := 0; i < 3; i++ {
							w.Inject(message.Message{Code: codes.GET, Token: message.Token{0xB0, byte(i)}})
						}
						vrt.WaitUntil("read loop parked on the full queue", func() bool { return len(w.St.In) == 0 && handlerRuns == 1 })
						vrt.Quiesce("full queue")
						for i := 0; i < 2; i++ {
							vrt.App(fmt.Sprintf("closer%d", i), func() {
								_ = w.CC.Close()
								closes++
							})
						}
						vrt.Recv(w.CC.Done())
						handlerGo = true
					}
					returned = true
					result = fmt.Sprint(err)
				})
				switch c.Intr {
				case "cancel":
					vrt.App("interrupter", func() {
						cancel()
						if c.Op == "idle" {
							_ = w.CC.Close()
							closes++
						}
					})
				case "close2":
					for i := 0; i < 2 && c.Op != "full-queue"; i++ {
						vrt.App(fmt.Sprintf("closer%d", i), func() {
							_ = w.CC.Close()
							closes++
						})
					}
				case "peer-close":
					vrt.App("peer", func() { w.St.PeerClosed = true })
				case "peer-error":
					vrt.App("peer", func() { w.St.ReadErr = fmt.Errorf("read: connection reset by peer") })
				}
				_ = time.Second
			})
			return func() (string, []mcx.Finding) {
				fail := func(sig, format string, a ...any) {
					fs = append(fs, mcx.Finding{Sig: sig, What: c.String() + ": " + fmt.Sprintf(format, a...)})
				}
				closed := c.Intr != "cancel" || c.Op == "idle"
				if closed && !s.Deadlock {
					select {
					case <-w.CC.Done():
					default:
						fail("tcp/done-not-closed", "Done() is not closed although the connection was closed (Run returned=%v err=%v)", w.RunDone, w.RunErr)
					}
					if !w.RunDone {
						fail("tcp/run-did-not-return", "Session.Run did not return after the connection was closed")
					}
					if onClose != 2 {
						fail("tcp/on-close-callback-count", "2 on-close callbacks were registered, %d executions happened", onClose)
					}
					if !returned {
						fail("tcp/op-never-returned", "the operation did not return")
					}
				}
				return result, fs
			}
		},
	}
}

// The CSM that a tcp/tls session sends at construction cannot be written (the TLS handshake fails, the peer
// hung up): the read loop ends at once; the connection must still complete its done signal and run its
// on-close callbacks exactly once.
func csmFailScenario(handshake bool) *mcx.Scenario {
	name := fmt.Sprintf("tcp-session whose initial CSM cannot be written (handshake-path=%v)", handshake)
	return &mcx.Scenario{
		Name:        name,
		Bounds:      mcx.Bounds{Preempt: 1, Env: -1, Select: 0},
		DeadlockSig: "blocked-forever/tcp-csm-write-fails",
		Body: func(s *vrt.Sched) func() (string, []mcx.Finding) {
			var fs []mcx.Finding
			onClose := 0
			var w *tcpw.World
			waited := false
			vrt.App("setup", func() {
				o := tcpw.Opts{LimitTotal: 2, LimitEndpoint: 2, QueueSize: 2, OnClose: []func(){func() { onClose++ }, func() { onClose++ }}}
				if handshake {
					o.Handshake = func(context.Context) error { return fmt.Errorf("tls: first record does not look like a TLS handshake") }
				} else {
					o.WriteErr = fmt.Errorf("write: broken pipe")
				}
				w = tcpw.New(o)
				vrt.App("waiter", func() { vrt.Recv(w.CC.Done()); waited = true })
			})
			return func() (string, []mcx.Finding) {
				fail := func(sig, format string, a ...any) {
					fs = append(fs, mcx.Finding{Sig: sig, What: name + ": " + fmt.Sprintf(format, a...)})
				}
				if !s.Deadlock {
					if !w.RunDone {
						fail("tcp/run-did-not-return", "Session.Run did not return")
					} else if w.RunErr == nil {
						fail("tcp/run-returned-no-error", "Session.Run returned nil although the CSM could not be written")
					}
					if !waited {
						fail("tcp/done-not-closed", "Done() is not closed after the read loop ended (err=%v)", w.RunErr)
					}
					if onClose != 2 {
						fail("tcp/on-close-callback-count", "2 on-close callbacks were registered, %d executions happened", onClose)
					}
				}
				return fmt.Sprint(w.RunErr != nil), fs
			}
		},
	}
}

// addSessionScenarios adds the scenarios over the real session types.
func addSessionScenarios(r *ev.Run, scs *[]*mcx.Scenario) {
	for _, op := range []string{"do", "observe", "ping", "write-blocked", "idle"} {
		for _, in := range []string{"cancel", "close2", "peer-close", "peer-error"} {
			if op == "write-blocked" && in == "cancel" {
				continue // a write blocked in the socket cannot observe a context (stated assumption); Close must still work
			}
			*scs = append(*scs, tcpScenario(tcfg{Op: op, Intr: in, Preempt: ev.Pick(r, 1, 2)}))
		}
	}
	*scs = append(*scs, tcpScenario(tcfg{Op: "full-queue", Intr: "close2", Preempt: ev.Pick(r, 1, 2)}))
	*scs = append(*scs, csmFailScenario(false), csmFailScenario(true))
	*scs = append(*scs, tcpScenario(tcfg{Op: "close-from-handler", Intr: "none", Preempt: ev.Pick(r, 1, 2)}))
	addUDPSessionScenarios(r, scs)
}

// Package uatomic replaces "go.uber.org/atomic" in instrumented files.
package uatomic

import (
	"time"
	"unsafe"

	"go.uber.org/atomic"

	"verif/vrt"
)

func pt(l string) { vrt.PointAtomic(l) }

type Bool struct{ atomic.Bool }

func NewBool(v bool) *Bool                    { b := &Bool{}; b.Bool.Store(v); return b }
func (b *Bool) Load() bool                    { pt("Bool.Load"); return b.Bool.Load() }
func (b *Bool) Store(v bool)                  { pt("Bool.Store"); b.Bool.Store(v) }
func (b *Bool) Swap(v bool) bool              { pt("Bool.Swap"); return b.Bool.Swap(v) }
func (b *Bool) Toggle() bool                  { pt("Bool.Toggle"); return b.Bool.Toggle() }
func (b *Bool) CAS(o, n bool) bool            { pt("Bool.CAS"); return b.Bool.CompareAndSwap(o, n) }
func (b *Bool) CompareAndSwap(o, n bool) bool { pt("Bool.CAS"); return b.Bool.CompareAndSwap(o, n) }

type Uint32 struct{ atomic.Uint32 }

func NewUint32(v uint32) *Uint32                  { b := &Uint32{}; b.Uint32.Store(v); return b }
func (b *Uint32) Load() uint32                    { pt("Uint32.Load"); return b.Uint32.Load() }
func (b *Uint32) Store(v uint32)                  { pt("Uint32.Store"); b.Uint32.Store(v) }
func (b *Uint32) Swap(v uint32) uint32            { pt("Uint32.Swap"); return b.Uint32.Swap(v) }
func (b *Uint32) Inc() uint32                     { pt("Uint32.Inc"); return b.Uint32.Inc() }
func (b *Uint32) Dec() uint32                     { pt("Uint32.Dec"); return b.Uint32.Dec() }
func (b *Uint32) Add(d uint32) uint32             { pt("Uint32.Add"); return b.Uint32.Add(d) }
func (b *Uint32) Sub(d uint32) uint32             { pt("Uint32.Sub"); return b.Uint32.Sub(d) }
func (b *Uint32) CAS(o, n uint32) bool            { pt("Uint32.CAS"); return b.Uint32.CompareAndSwap(o, n) }
func (b *Uint32) CompareAndSwap(o, n uint32) bool { pt("Uint32.CAS"); return b.Uint32.CompareAndSwap(o, n) }

type Uint64 struct{ atomic.Uint64 }

func NewUint64(v uint64) *Uint64                  { b := &Uint64{}; b.Uint64.Store(v); return b }
func (b *Uint64) Load() uint64                    { pt("Uint64.Load"); return b.Uint64.Load() }
func (b *Uint64) Store(v uint64)                  { pt("Uint64.Store"); b.Uint64.Store(v) }
func (b *Uint64) Swap(v uint64) uint64            { pt("Uint64.Swap"); return b.Uint64.Swap(v) }
func (b *Uint64) Inc() uint64                     { pt("Uint64.Inc"); return b.Uint64.Inc() }
func (b *Uint64) Dec() uint64                     { pt("Uint64.Dec"); return b.Uint64.Dec() }
func (b *Uint64) Add(d uint64) uint64             { pt("Uint64.Add"); return b.Uint64.Add(d) }
func (b *Uint64) Sub(d uint64) uint64             { pt("Uint64.Sub"); return b.Uint64.Sub(d) }
func (b *Uint64) CompareAndSwap(o, n uint64) bool { pt("Uint64.CAS"); return b.Uint64.CompareAndSwap(o, n) }

type Int32 struct{ atomic.Int32 }

func NewInt32(v int32) *Int32                   { b := &Int32{}; b.Int32.Store(v); return b }
func (b *Int32) Load() int32                    { pt("Int32.Load"); return b.Int32.Load() }
func (b *Int32) Store(v int32)                  { pt("Int32.Store"); b.Int32.Store(v) }
func (b *Int32) Swap(v int32) int32             { pt("Int32.Swap"); return b.Int32.Swap(v) }
func (b *Int32) Inc() int32                     { pt("Int32.Inc"); return b.Int32.Inc() }
func (b *Int32) Dec() int32                     { pt("Int32.Dec"); return b.Int32.Dec() }
func (b *Int32) Add(d int32) int32              { pt("Int32.Add"); return b.Int32.Add(d) }
func (b *Int32) Sub(d int32) int32              { pt("Int32.Sub"); return b.Int32.Sub(d) }
func (b *Int32) CompareAndSwap(o, n int32) bool { pt("Int32.CAS"); return b.Int32.CompareAndSwap(o, n) }

type Int64 struct{ atomic.Int64 }

func NewInt64(v int64) *Int64                   { b := &Int64{}; b.Int64.Store(v); return b }
func (b *Int64) Load() int64                    { pt("Int64.Load"); return b.Int64.Load() }
func (b *Int64) Store(v int64)                  { pt("Int64.Store"); b.Int64.Store(v) }
func (b *Int64) Swap(v int64) int64             { pt("Int64.Swap"); return b.Int64.Swap(v) }
func (b *Int64) Inc() int64                     { pt("Int64.Inc"); return b.Int64.Inc() }
func (b *Int64) Dec() int64                     { pt("Int64.Dec"); return b.Int64.Dec() }
func (b *Int64) Add(d int64) int64              { pt("Int64.Add"); return b.Int64.Add(d) }
func (b *Int64) Sub(d int64) int64              { pt("Int64.Sub"); return b.Int64.Sub(d) }
func (b *Int64) CompareAndSwap(o, n int64) bool { pt("Int64.CAS"); return b.Int64.CompareAndSwap(o, n) }

type Duration struct{ atomic.Duration }

func NewDuration(v time.Duration) *Duration { b := &Duration{}; b.Duration.Store(v); return b }
func (b *Duration) Load() time.Duration     { pt("Duration.Load"); return b.Duration.Load() }
func (b *Duration) Store(v time.Duration)   { pt("Duration.Store"); b.Duration.Store(v) }

type Time struct{ atomic.Time }

func NewTime(v time.Time) *Time     { b := &Time{}; b.Time.Store(v); return b }
func (b *Time) Load() time.Time     { pt("Time.Load"); return b.Time.Load() }
func (b *Time) Store(v time.Time)   { pt("Time.Store"); b.Time.Store(v) }

type Value struct{ atomic.Value }

func (b *Value) Load() any                    { pt("Value.Load"); return b.Value.Load() }
func (b *Value) Store(v any)                  { pt("Value.Store"); b.Value.Store(v) }
func (b *Value) Swap(v any) any               { pt("Value.Swap"); return b.Value.Swap(v) }
func (b *Value) CompareAndSwap(o, n any) bool { pt("Value.CAS"); return b.Value.CompareAndSwap(o, n) }

type UnsafePointer struct{ atomic.UnsafePointer }

func (b *UnsafePointer) Load() unsafe.Pointer                 { pt("UnsafePointer.Load"); return b.UnsafePointer.Load() }
func (b *UnsafePointer) Store(v unsafe.Pointer)               { pt("UnsafePointer.Store"); b.UnsafePointer.Store(v) }
func (b *UnsafePointer) Swap(v unsafe.Pointer) unsafe.Pointer { pt("UnsafePointer.Swap"); return b.UnsafePointer.Swap(v) }
func (b *UnsafePointer) CompareAndSwap(o, n unsafe.Pointer) bool {
	pt("UnsafePointer.CAS")
	return b.UnsafePointer.CompareAndSwap(o, n)
}

type Pointer[T any] struct{ atomic.Pointer[T] }

func NewPointer[T any](v *T) *Pointer[T]          { p := &Pointer[T]{}; p.Pointer.Store(v); return p }
func (p *Pointer[T]) Load() *T                    { pt("Pointer.Load"); return p.Pointer.Load() }
func (p *Pointer[T]) Store(v *T)                  { pt("Pointer.Store"); p.Pointer.Store(v) }
func (p *Pointer[T]) Swap(v *T) *T                { pt("Pointer.Swap"); return p.Pointer.Swap(v) }
func (p *Pointer[T]) CompareAndSwap(o, n *T) bool { pt("Pointer.CAS"); return p.Pointer.CompareAndSwap(o, n) }

// buildall: compiles every instrumented package (smoke test of the instrumenter).
package main

import (
	_ "github.com/plgd-dev/go-coap/v3/dtls"
	_ "github.com/plgd-dev/go-coap/v3/dtls/server"
	_ "github.com/plgd-dev/go-coap/v3/mux"
	_ "github.com/plgd-dev/go-coap/v3/pkg/runner/periodic"
	_ "github.com/plgd-dev/go-coap/v3/tcp"
	_ "github.com/plgd-dev/go-coap/v3/tcp/server"
	_ "github.com/plgd-dev/go-coap/v3/udp"
	_ "github.com/plgd-dev/go-coap/v3/udp/server"
)

func main() {}

#!/bin/bash
# tools/baseline.sh [repo-dir]: runs the repository's pinned test suite and compares with BASELINE.json stable_pass.
# exit 0 iff every stable_pass test passed. Packages with a non-passing pinned test are re-run (up to 2 more
# times) because concurrent test runs in the sandbox collide on fixed ports; a test counts as passing if it
# passed in any run (the pinned list itself is "stable over 3 runs").
R=${1:-/repo}
export GOFLAGS=-mod=mod GOPROXY=off
OUT=$(mktemp /tmp/baseline.XXXXXX.json)
(cd $R && go test -json -vet=off -count=1 -timeout 25m ./... > $OUT 2>/dev/null)
for try in 1 2; do
  PK=$(python3 - "$OUT" <<'PY'
import json,sys
passed=set()
for l in open(sys.argv[1]):
    try: e=json.loads(l)
    except: continue
    if e.get('Test') and e.get('Action')=='pass': passed.add(e['Package']+'::'+e['Test'])
sp=set(json.load(open('/root/.vp/BASELINE.json'))['stable_pass'])
print(' '.join(sorted({m.split('::')[0] for m in sp-passed})))
PY
)
  [ -z "$PK" ] && break
  echo "baseline: retry $try of: $PK"
  (cd $R && go test -json -vet=off -count=1 -timeout 25m $PK >> $OUT 2>/dev/null)
done
python3 - "$OUT" <<'PY'
import json,sys
passed=set()
for l in open(sys.argv[1]):
    try: e=json.loads(l)
    except: continue
    if e.get('Test') and e.get('Action')=='pass': passed.add(e['Package']+'::'+e['Test'])
sp=set(json.load(open('/root/.vp/BASELINE.json'))['stable_pass'])
missing=sorted(sp-passed)
print(f"baseline: stable_pass={len(sp)} passed_now={len(passed&sp)} missing_or_failed={len(missing)}")
for m in missing[:30]: print("  NOT PASSING:",m)
sys.exit(1 if missing else 0)
PY
rc=$?; rm -f $OUT; exit $rc

package main

import (
	"context"
	"fmt"
	"net"
	"strings"
	"time"

	"github.com/plgd-dev/go-coap/v3/message"
	"github.com/plgd-dev/go-coap/v3/message/codes"
	"github.com/plgd-dev/go-coap/v3/message/pool"
	"github.com/plgd-dev/go-coap/v3/net/responsewriter"
	tcpclient "github.com/plgd-dev/go-coap/v3/tcp/client"
	udpclient "github.com/plgd-dev/go-coap/v3/udp/client"

	"verif/ev"
	"verif/mcx"
	"verif/vrt"
	"verif/worlds/srvw"
	"verif/worlds/tcpw"
)

// Stopping a SERVER while operations are in flight: two peers' connections, one with an
// application handler still running, one with a server-initiated request waiting for its response;
// Stop is called from two goroutines. Serve must return, every connection's done signal must
// complete, each registered on-close callback must run exactly once, the waiting request must
// return, and nobody may stay parked.

type scfg struct {
	T       string // udp | tcp | dtls
	Preempt int
}

func (c scfg) String() string {
	return fmt.Sprintf("%s-server Stop x2 with a handler in flight and a server-initiated request waiting, preempt<=%d", c.T, c.Preempt)
}

type connView struct {
	name    string
	done    <-chan struct{}
	onClose *int
}

func serverStopScenario(c scfg) *mcx.Scenario {
	return &mcx.Scenario{
		Name:        c.String(),
		Bounds:      mcx.Bounds{Preempt: c.Preempt, Env: -1, Select: 0, Delay: 1},
		DeadlockSig: "blocked-forever/" + c.T + "-server-stop",
		Body: func(s *vrt.Sched) func() (string, []mcx.Finding) {
			var fs []mcx.Finding
			fail := func(sig, format string, a ...any) {
				fs = append(fs, mcx.Finding{Sig: sig, What: c.String() + ": " + fmt.Sprintf(format, a...)})
			}
			var conns []connView
			handlerGo, handlerRuns, handlerDone := false, 0, false
			doReturned, doErr := false, error(nil)
			stops := 0
			serveDone := func() bool { return false }
			cleanup := func() {}
			vrt.App("env", func() {
				var startDo func() // issues the server-initiated request on the second connection
				switch c.T {
				case "udp":
					var second *udpclient.Conn
					u := srvw.NewUDP(srvw.UDPOpts{
						OnNewConn: func(cc *udpclient.Conn) {
							n := new(int)
							cc.AddOnClose(func() { *n++ })
							cc.AddOnClose(func() { *n++ })
							conns = append(conns, connView{cc.RemoteAddr().String(), cc.Done(), n})
							if len(conns) == 2 {
								second = cc
							}
						},
						Handler: func(w *responsewriter.ResponseWriter[*udpclient.Conn], r *pool.Message) {
							if p, _ := r.Path(); strings.HasSuffix(p, "busy") {
								handlerRuns++
								vrt.WaitUntil("application handler busy", func() bool { return handlerGo })
								handlerDone = true
							}
						}})
					serveDone = func() bool { return u.ServeDone }
					cleanup = u.Cleanup
					vrt.Quiesce("env: server up")
					p0, p1 := &net.UDPAddr{IP: net.IPv4(10, 0, 0, 11), Port: 1}, &net.UDPAddr{IP: net.IPv4(10, 0, 0, 12), Port: 1}
					u.Send(p0, srvw.EncodeUDP(message.Message{Type: message.NonConfirmable, Code: codes.GET, MessageID: 1, Token: message.Token{1}, Options: message.Options{{ID: message.URIPath, Value: []byte("busy")}}}))
					vrt.Quiesce("env: first peer's handler running")
					u.Send(p1, srvw.EncodeUDP(message.Message{Type: message.NonConfirmable, Code: codes.GET, MessageID: 2, Token: message.Token{2}, Options: message.Options{{ID: message.URIPath, Value: []byte("idle")}}}))
					vrt.Quiesce("env: second peer known")
					startDo = func() {
						r := second.AcquireMessage(context.Background())
						_ = r.SetupGet("/from-server", message.Token{0xA1})
						r.SetType(message.NonConfirmable)
						_, doErr = second.Do(r)
						doReturned = true
					}
					defer func() {
						for i := 0; i < 2; i++ {
							vrt.App(fmt.Sprintf("stopper%d", i), func() { u.S.Stop(); stops++ })
						}
					}()
				case "tcp":
					var second *tcpclient.Conn
					t := srvw.NewTCP(srvw.StreamOpts{
						OnNewTCP: func(cc *tcpclient.Conn) {
							n := new(int)
							cc.AddOnClose(func() { *n++ })
							cc.AddOnClose(func() { *n++ })
							conns = append(conns, connView{cc.RemoteAddr().String(), cc.Done(), n})
							if len(conns) == 2 {
								second = cc
							}
						},
						TCPHandler: func(w *responsewriter.ResponseWriter[*tcpclient.Conn], r *pool.Message) {
							if p, _ := r.Path(); strings.HasSuffix(p, "busy") {
								handlerRuns++
								vrt.WaitUntil("application handler busy", func() bool { return handlerGo })
								handlerDone = true
							}
						}})
					serveDone = func() bool { return t.ServeDone }
					vrt.Quiesce("env: server up")
					a := t.L.Connect("10.0.0.11:1000", nil)
					vrt.Quiesce("env: first accepted")
					a.Send(tcpw.Encode(message.Message{Code: codes.GET, Token: message.Token{1}, Options: message.Options{{ID: message.URIPath, Value: []byte("busy")}}}))
					vrt.Quiesce("env: first peer's handler running")
					t.L.Connect("10.0.0.12:1000", nil)
					vrt.Quiesce("env: second accepted")
					startDo = func() {
						r := second.AcquireMessage(context.Background())
						_ = r.SetupGet("/from-server", message.Token{0xA1})
						_, doErr = second.Do(r)
						doReturned = true
					}
					defer func() {
						for i := 0; i < 2; i++ {
							vrt.App(fmt.Sprintf("stopper%d", i), func() { t.S.Stop(); stops++ })
						}
					}()
				case "dtls":
					var second *udpclient.Conn
					d := srvw.NewDTLS(srvw.StreamOpts{
						OnNewDTLS: func(cc *udpclient.Conn) {
							n := new(int)
							cc.AddOnClose(func() { *n++ })
							cc.AddOnClose(func() { *n++ })
							conns = append(conns, connView{cc.RemoteAddr().String(), cc.Done(), n})
							if len(conns) == 2 {
								second = cc
							}
						},
						DTLSHandler: func(w *responsewriter.ResponseWriter[*udpclient.Conn], r *pool.Message) {
							if p, _ := r.Path(); strings.HasSuffix(p, "busy") {
								handlerRuns++
								vrt.WaitUntil("application handler busy", func() bool { return handlerGo })
								handlerDone = true
							}
						}})
					serveDone = func() bool { return d.ServeDone }
					vrt.Quiesce("env: server up")
					ok := func(context.Context) error { return nil }
					a := d.L.Connect("10.0.0.11:1000", ok)
					vrt.Quiesce("env: first accepted")
					a.Send(srvw.EncodeUDP(message.Message{Type: message.NonConfirmable, Code: codes.GET, MessageID: 1, Token: message.Token{1}, Options: message.Options{{ID: message.URIPath, Value: []byte("busy")}}}))
					vrt.Quiesce("env: first peer's handler running")
					d.L.Connect("10.0.0.12:1000", ok)
					vrt.Quiesce("env: second accepted")
					startDo = func() {
						r := second.AcquireMessage(context.Background())
						_ = r.SetupGet("/from-server", message.Token{0xA1})
						r.SetType(message.NonConfirmable)
						_, doErr = second.Do(r)
						doReturned = true
					}
					defer func() {
						for i := 0; i < 2; i++ {
							vrt.App(fmt.Sprintf("stopper%d", i), func() { d.S.Stop(); stops++ })
						}
					}()
				}
				if len(conns) != 2 || handlerRuns != 1 {
					fail("ENGINE/setup", "setup did not reach the intended state: %d connections, handler runs %d", len(conns), handlerRuns)
					return
				}
				vrt.App("server-request", startDo)
				vrt.Quiesce("env: request on the wire")
				vrt.App("handler-release", func() {
					vrt.WaitUntil("both Stop calls returned", func() bool { return stops == 2 })
					handlerGo = true
				})
			})
			return func() (string, []mcx.Finding) {
				cleanup()
				if !s.Deadlock && len(conns) == 2 {
					if !serveDone() {
						fail("server-stop/serve-did-not-return", "Serve did not return after Stop")
					}
					for _, cv := range conns {
						select {
						case <-cv.done:
						default:
							fail("server-stop/done-not-closed", "connection of %s: Done() is not closed after the server was stopped", cv.name)
						}
						if *cv.onClose != 2 {
							fail("server-stop/on-close-callback-count", "connection of %s: 2 on-close callbacks registered, %d executions", cv.name, *cv.onClose)
						}
					}
					if !doReturned {
						fail("server-stop/request-never-returned", "the server-initiated request did not return")
					} else if doErr == nil {
						fail("server-stop/request-succeeded", "the server-initiated request returned success although nobody answered")
					}
					if !handlerDone {
						fail("server-stop/handler-lost", "the handler was not resumed")
					}
				}
				return fmt.Sprintf("%v/%v", doReturned, doErr != nil), fs
			}
		},
	}
}

// Stop falls between "connection accepted" and "connection registered": the application's OnNewConn
// callback of a new connection is still running when Stop is called, and the peer stays connected and
// silent afterwards. Serve must still return and the late connection must end cleanly.
func serverStopDuringRegistration(t string, preempt int) *mcx.Scenario {
	name := fmt.Sprintf("%s-server Stop while a new connection is inside OnNewConn (silent peer), preempt<=%d", t, preempt)
	return &mcx.Scenario{
		Name:        name,
		Bounds:      mcx.Bounds{Preempt: preempt, Env: -1, Select: 0, Delay: 1},
		DeadlockSig: "blocked-forever/" + t + "-server-stop-during-registration",
		Body: func(s *vrt.Sched) func() (string, []mcx.Finding) {
			var fs []mcx.Finding
			fail := func(sig, format string, a ...any) {
				fs = append(fs, mcx.Finding{Sig: sig, What: name + ": " + fmt.Sprintf(format, a...)})
			}
			inCallback, release := false, false
			onClose := 0
			var done <-chan struct{}
			serveDone := func() bool { return false }
			vrt.App("env", func() {
				var stop func()
				ok := func(context.Context) error { return nil }
				if t == "tcp" {
					srv := srvw.NewTCP(srvw.StreamOpts{OnNewTCP: func(cc *tcpclient.Conn) {
						cc.AddOnClose(func() { onClose++ })
						done = cc.Done()
						inCallback = true
						vrt.WaitUntil("application OnNewConn callback", func() bool { return release })
					}})
					serveDone = func() bool { return srv.ServeDone }
					stop = srv.S.Stop
					vrt.Quiesce("env: server up")
					srv.L.Connect("10.0.0.11:1000", nil)
				} else {
					srv := srvw.NewDTLS(srvw.StreamOpts{OnNewDTLS: func(cc *udpclient.Conn) {
						cc.AddOnClose(func() { onClose++ })
						done = cc.Done()
						inCallback = true
						vrt.WaitUntil("application OnNewConn callback", func() bool { return release })
					}})
					serveDone = func() bool { return srv.ServeDone }
					stop = srv.S.Stop
					vrt.Quiesce("env: server up")
					srv.L.Connect("10.0.0.11:1000", ok)
				}
				vrt.WaitUntil("the new connection is inside OnNewConn", func() bool { return inCallback })
				vrt.App("stopper", func() { stop() })
				vrt.Quiesce("env: Stop returned, accept loop over")
				release = true
				vrt.Quiesce("env: registration finished")
			})
			return func() (string, []mcx.Finding) {
				if !s.Deadlock && inCallback {
					if !serveDone() {
						fail("server-stop/serve-did-not-return", "Serve did not return after Stop although the only connection's peer is silent")
					}
					select {
					case <-done:
					default:
						fail("server-stop/done-not-closed", "the connection registered during Stop never completed its done signal")
					}
					if onClose != 1 {
						fail("server-stop/on-close-callback-count", "1 on-close callback registered, %d executions", onClose)
					}
				}
				return fmt.Sprint(inCallback), fs
			}
		},
	}
}

// A per-peer connection of a udp server that the application has closed is torn down by two of the server's reapers
// at once (housekeeping sweep, Stop, the next datagram of that peer): its on-close callbacks still run exactly once.
func serverReapersScenario(second string, preempt int) *mcx.Scenario {
	name := fmt.Sprintf("udp-server: a closed per-peer connection reaped by the housekeeping sweep and by %s at once, preempt<=%d", second, preempt)
	return &mcx.Scenario{
		Name:        name,
		Bounds:      mcx.Bounds{Preempt: preempt, Env: -1, Select: 0, Delay: 1},
		DeadlockSig: "blocked-forever/udp-server-reapers-" + second,
		Body: func(s *vrt.Sched) func() (string, []mcx.Finding) {
			var fs []mcx.Finding
			fail := func(sig, format string, a ...any) {
				fs = append(fs, mcx.Finding{Sig: sig, What: name + ": " + fmt.Sprintf(format, a...)})
			}
			onClose := 0
			var u *srvw.UDP
			vrt.App("env", func() {
				var conns []*udpclient.Conn
				u = srvw.NewUDP(srvw.UDPOpts{Handler: func(w *responsewriter.ResponseWriter[*udpclient.Conn], r *pool.Message) {
					_ = w.SetResponse(codes.Content, message.TextPlain, nil)
				}, OnNewConn: func(cc *udpclient.Conn) {
					cc.AddOnClose(func() { onClose++; vrt.Point("inside an on-close callback") })
					cc.AddOnClose(func() { onClose++ })
					conns = append(conns, cc)
				}})
				P := &net.UDPAddr{IP: net.IPv4(10, 0, 0, 11), Port: 40001}
				vrt.Quiesce("env: server up")
				get := func(mid int32) []byte {
					return srvw.EncodeUDP(message.Message{Type: message.NonConfirmable, Code: codes.GET, MessageID: mid, Token: message.Token{byte(mid)}, Options: message.Options{{ID: message.URIPath, Value: []byte("x")}}})
				}
				u.Send(P, get(11))
				vrt.Quiesce("env: connection established")
				if len(conns) != 1 {
					fail("ENGINE/setup", "%d connections after the first datagram", len(conns))
					return
				}
				_ = conns[0].Close() // the application is done with this peer
				vrt.Quiesce("env: closed by the application")
				vrt.Advance(time.Second)
				now := vrt.Now()
				vrt.App("sweep", func() {
					if u.Tick != nil {
						u.Tick(now)
					}
				})
				vrt.App("second-reaper", func() {
					if second == "Stop" {
						u.S.Stop()
					} else {
						u.Send(P, get(12))
					}
				})
				vrt.Quiesce("env: reaped")
				if onClose != 2 {
					fail("server-reapers/on-close-callback-count", "2 on-close callbacks registered on the closed connection, %d executions", onClose)
				}
				select {
				case <-conns[0].Done():
				default:
					fail("server-reapers/done-not-closed", "the closed connection never completed its done signal")
				}
				u.S.Stop()
				vrt.Quiesce("env: stopped")
			})
			return func() (string, []mcx.Finding) {
				if u != nil {
					u.Cleanup()
				}
				return fmt.Sprint(onClose), fs
			}
		},
	}
}

func addServerStop(r *ev.Run, scs *[]*mcx.Scenario) {
	for _, second := range []string{"Stop", "the next datagram of that peer"} {
		*scs = append(*scs, serverReapersScenario(second, ev.Pick(r, 2, 3)))
	}
	for _, t := range []string{"tcp", "dtls"} {
		*scs = append(*scs, serverStopDuringRegistration(t, ev.Pick(r, 1, 2)))
	}
	for _, t := range []string{"udp", "tcp", "dtls"} {
		*scs = append(*scs, serverStopScenario(scfg{T: t, Preempt: ev.Pick(r, 1, 2)}))
	}
}

// Free-running race pass for C16 (supplementary, DESIGN §3.2.7): the parallel-request limiter driven
// from real goroutines (requests on two paths, cancellations racing with releases, observations) on
// the UNINSTRUMENTED package under `-race`. Sampling: it can only ADD a violation.
package main

import (
	"context"
	"fmt"
	"os"
	"runtime"
	"strconv"
	"sync"

	"github.com/plgd-dev/go-coap/v3/message"
	"github.com/plgd-dev/go-coap/v3/message/codes"
	"github.com/plgd-dev/go-coap/v3/message/pool"
	limitParallelRequests "github.com/plgd-dev/go-coap/v3/net/client/limitParallelRequests"
)

type obs struct{}

func (obs) Cancel(context.Context, ...message.Option) error { return nil }
func (obs) Canceled() bool                                  { return false }

func main() {
	iters := 5000
	if len(os.Args) > 1 {
		iters, _ = strconv.Atoi(os.Args[1])
	}
	for _, lim := range [][2]int64{{1, 1}, {2, 1}, {0, 2}} {
		l := limitParallelRequests.New(lim[0], lim[1],
			func(req *pool.Message) (*pool.Message, error) { runtime.Gosched(); return nil, nil },
			func(req *pool.Message, _ func(*pool.Message)) (limitParallelRequests.Observation, error) {
				runtime.Gosched()
				return obs{}, nil
			})
		var wg sync.WaitGroup
		for g := 0; g < 8; g++ {
			g := g
			wg.Add(1)
			go func() {
				defer wg.Done()
				for i := 0; i < iters; i++ {
					ctx, cancel := context.WithCancel(context.Background())
					req := pool.NewMessage(ctx)
					req.SetCode(codes.GET)
					_ = req.SetPath([]string{"/p", "/q"}[(g+i)%2])
					if (g+i)%3 == 0 {
						go cancel() // cancellation races with admission / release
					}
					if g == 7 {
						_, _ = l.DoObserve(req, func(*pool.Message) {})
					} else {
						_, _ = l.Do(req)
					}
					cancel()
				}
			}()
		}
		wg.Wait()
	}
	fmt.Printf("race-pass: 3 limit settings x %d iterations x 8 goroutines, no race reported\n", iters)
}

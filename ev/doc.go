package ev

package codecref

import (
	"bytes"
	"encoding/hex"
	"fmt"
	"strings"
	"sync/atomic"
	"time"

	"github.com/plgd-dev/go-coap/v3/message"
	"github.com/plgd-dev/go-coap/v3/message/codes"
)

// This file holds the glue between the reference form and the library's types (type
// conversion, field-wise comparison, hex rendering) and a lock-free per-worker watchdog.
// It contains no codec logic.

// FromLib converts a library message into reference form (slices are shared, not copied).
func FromLib(m *message.Message, out *Msg) {
	out.Type = int(m.Type)
	out.MID = int(m.MessageID)
	out.Code = int(m.Code)
	out.Token = m.Token
	out.Payload = m.Payload
	out.Opts = out.Opts[:0]
	for _, o := range m.Options {
		out.Opts = append(out.Opts, Opt{Num: int(o.ID), Val: o.Value})
	}
}

// ToLib converts a reference message into the library form; opts is reused as backing store.
func ToLib(m *Msg, opts message.Options) message.Message {
	opts = opts[:0]
	for _, o := range m.Opts {
		opts = append(opts, message.Option{ID: message.OptionID(o.Num), Value: o.Val})
	}
	return message.Message{Token: m.Token, Options: opts, Code: codes.Code(m.Code), Payload: m.Payload,
		MessageID: int32(m.MID), Type: message.Type(m.Type)}
}

// Diff compares two messages field-wise (nil and empty slices are the same) and names the
// first differing field, or returns "". Type and MID are compared for datagram framing only.
func Diff(a, b *Msg, datagram bool) string {
	if datagram {
		if a.Type != b.Type {
			return "type"
		}
		if a.MID != b.MID {
			return "mid"
		}
	}
	if a.Code != b.Code {
		return "code"
	}
	if !bytes.Equal(a.Token, b.Token) {
		return "token"
	}
	if len(a.Opts) != len(b.Opts) {
		return "option-count"
	}
	for i := range a.Opts {
		if a.Opts[i].Num != b.Opts[i].Num {
			return "option-number"
		}
		if !bytes.Equal(a.Opts[i].Val, b.Opts[i].Val) {
			return "option-value"
		}
	}
	if !bytes.Equal(a.Payload, b.Payload) {
		return "payload"
	}
	return ""
}

// Hex renders b in hex, abbreviating the middle of long strings.
func Hex(b []byte) string {
	if len(b) <= 96 {
		return hex.EncodeToString(b)
	}
	return fmt.Sprintf("%s..(%d bytes)..%s", hex.EncodeToString(b[:40]), len(b), hex.EncodeToString(b[len(b)-16:]))
}

// Describe renders a message for humans.
func Describe(m *Msg, datagram bool) string {
	var sb strings.Builder
	if datagram {
		fmt.Fprintf(&sb, "type=%d mid=%d ", m.Type, m.MID)
	}
	fmt.Fprintf(&sb, "code=%d token=%s opts=[", m.Code, Hex(m.Token))
	for i, o := range m.Opts {
		if i > 0 {
			sb.WriteByte(' ')
		}
		if len(o.Val) <= 12 {
			fmt.Fprintf(&sb, "%d:%s", o.Num, hex.EncodeToString(o.Val))
		} else {
			fmt.Fprintf(&sb, "%d:<%dB>", o.Num, len(o.Val))
		}
	}
	fmt.Fprintf(&sb, "] payload=%s", Hex(m.Payload))
	return sb.String()
}

// ---------------------------------------------------------------------------------------------

// Slot is one worker's watchdog slot: the worker updates its own current-case variables and
// then bumps the tick (Touch) before every library call; a call that never returns leaves the
// tick frozen while the slot is busy.
type Slot struct {
	tick atomic.Uint64
	busy atomic.Bool
	Case func() (signature, what string, replay any) // read by the watchdog only after a stall
	_    [64]byte
}

// Describe installs the function that renders the worker's current case (called only after a stall).
func (s *Slot) Describe(c func() (string, string, any)) { s.Case = c }

// Resume marks the worker busy: from now on it must Touch at least once per watchdog period.
func (s *Slot) Resume() {
	s.busy.Store(true)
	s.tick.Add(1)
}

// Touch marks progress without changing the published case.
func (s *Slot) Touch() { s.tick.Add(1) }

// End marks the worker idle.
func (s *Slot) End() { s.busy.Store(false); s.tick.Add(1) }

// Watch starts the watchdog: if a busy slot does not advance for d, onStall is called with the
// published case (once; it is expected to report and terminate the process).
func Watch(slots []*Slot, d time.Duration, onStall func(signature, what string, replay any)) {
	go func() {
		last := make([]uint64, len(slots))
		since := make([]time.Time, len(slots))
		for i := range since {
			since[i] = time.Now()
		}
		for {
			time.Sleep(d / 8)
			now := time.Now()
			for i, s := range slots {
				t := s.tick.Load()
				if t != last[i] || !s.busy.Load() {
					last[i], since[i] = t, now
					continue
				}
				if now.Sub(since[i]) > d && s.Case != nil {
					sig, what, rep := s.Case()
					onStall(sig, what, rep)
					return
				}
			}
		}
	}()
}

// C16 — parallel-request limits are never exceeded and never leak.
// Engine E2: the real LimitParallelRequests (and the instrumented copy of x/sync/semaphore)
// under the vrt scheduler; the environment issues every order of {arrive, cancel, finish}
// events; gauges inside the wrapped do function are the oracle.
package main

import (
	"context"
	"errors"
	"fmt"
	"github.com/plgd-dev/go-coap/v3/message"
	"github.com/plgd-dev/go-coap/v3/message/codes"
	"strings"
	"time"

	"github.com/plgd-dev/go-coap/v3/message/pool"
	limiter "github.com/plgd-dev/go-coap/v3/net/client/limitParallelRequests"

	"verif/ev"
	"verif/mcx"
	"verif/vrt"
)

type cfg struct {
	Total, Endpoint int64
	Paths           string // one letter per request: its path
	Burst           bool   // environment may issue two events without letting the system settle in between
	Preempt         int
}

func (c cfg) String() string {
	return fmt.Sprintf("limits(total=%d,endpoint=%d) paths=%s burst=%v preempt=%d", c.Total, c.Endpoint, c.Paths, c.Burst, c.Preempt)
}

type world struct {
	c                                      cfg
	l                                      *limiter.LimitParallelRequests
	arrived, cancelled, finish, inDo, done []bool
	ranDo                                  []bool
	err                                    []error
	cancelledWhileWaiting                  []bool
	cancelFn                               []context.CancelFunc
	total                                  int64
	perPath                                map[byte]int64
	admission                              map[byte][]int
	arrival                                map[byte][]int
	events                                 []string
	maxTotal, maxPath                      int64
}

func scenario(c cfg) *mcx.Scenario {
	envBound := -1
	if c.Burst {
		envBound = 1
	}
	return &mcx.Scenario{
		Name:   c.String(),
		Bounds: mcx.Bounds{Preempt: c.Preempt, Env: envBound, Select: -1},
		Body: func(s *vrt.Sched) func() (string, []mcx.Finding) {
			n := len(c.Paths)
			w := &world{c: c, arrived: make([]bool, n), cancelled: make([]bool, n), finish: make([]bool, n), inDo: make([]bool, n), done: make([]bool, n), ranDo: make([]bool, n),
				err: make([]error, n), cancelledWhileWaiting: make([]bool, n), cancelFn: make([]context.CancelFunc, n), perPath: map[byte]int64{}, admission: map[byte][]int{}, arrival: map[byte][]int{}}
			p := pool.New(0, 0)
			reqs := make([]*pool.Message, n+1)
			idx := map[*pool.Message]int{}
			do := func(req *pool.Message) (*pool.Message, error) {
				i := idx[req]
				path := byte('z')
				if i < n {
					path = lower(c.Paths[i])
				}
				w.total++
				w.perPath[path]++
				if w.total > w.maxTotal {
					w.maxTotal = w.total
				}
				if w.perPath[path] > w.maxPath {
					w.maxPath = w.perPath[path]
				}
				if c.Total > 0 && w.total > c.Total {
					vrt.Failf("total-limit-exceeded", "%d requests in flight with total limit %d after events %v", w.total, c.Total, w.events)
				}
				if c.Endpoint > 0 && w.perPath[path] > c.Endpoint {
					vrt.Failf("endpoint-limit-exceeded", "%d requests in flight on path %c with endpoint limit %d after events %v", w.perPath[path], path, c.Endpoint, w.events)
				}
				if i < n {
					w.ranDo[i] = true
					w.inDo[i] = true
					w.admission[path] = append(w.admission[path], i)
					vrt.WaitUntil(fmt.Sprintf("do(%d) waits for finish", i), func() bool { return w.finish[i] })
					w.inDo[i] = false
				}
				w.total--
				w.perPath[path]--
				return nil, nil
			}
			w.l = limiter.New(c.Total, c.Endpoint, do, nil)
			mk := func(i int, path byte) (*pool.Message, context.CancelFunc) {
				ctx, cancel := context.WithCancel(context.Background())
				m := p.AcquireMessage(ctx)
				m.SetCode(codes.GET)
				_ = m.SetPath("/" + string(lower(path)))
				if path != lower(path) {
					m.SetCode(codes.Code(5)) // FETCH: method codes run up to 0.31, every one of them is a request
					// same target path, other request options (a conditional / proxy-style request): still the same endpoint
					m.SetOptionBytes(message.ETag, []byte{0xe0, byte(i)})
					m.SetOptionString(message.URIHost, fmt.Sprintf("host%d", i))
					m.SetOptionUint32(message.Observe, 1)
					m.SetOptionString(message.URIQuery, fmt.Sprintf("q=%d", i))
				}
				idx[m] = i
				return m, cancel
			}
			for i := 0; i < n; i++ {
				i := i
				reqs[i], w.cancelFn[i] = mk(i, c.Paths[i])
				vrt.App(fmt.Sprintf("req%d", i), func() {
					vrt.WaitUntil(fmt.Sprintf("req%d waits for arrive", i), func() bool { return w.arrived[i] })
					_, w.err[i] = w.l.Do(reqs[i])
					w.done[i] = true
				})
			}
			probeDone := false
			envDone := false
			vrt.App("env", func() {
				for {
					vrt.Quiesce("env: settle")
				again:
					type evt struct {
						kind string
						i    int
					}
					var evs []evt
					for i := 0; i < n; i++ {
						if !w.arrived[i] {
							evs = append(evs, evt{"arrive", i}) // arrivals in index order (requests are symmetric)
							break
						}
					}
					for i := 0; i < n; i++ {
						if w.arrived[i] && !w.cancelled[i] && !w.done[i] {
							evs = append(evs, evt{"cancel", i})
						}
						if w.inDo[i] && !w.finish[i] {
							evs = append(evs, evt{"finish", i})
						}
					}
					if len(evs) == 0 {
						break
					}
					e := evs[vrt.Choose(len(evs), nil)]
					w.events = append(w.events, fmt.Sprintf("%s%d", e.kind, e.i))
					switch e.kind {
					case "arrive":
						w.arrived[e.i] = true
						w.arrival[lower(c.Paths[e.i])] = append(w.arrival[lower(c.Paths[e.i])], e.i)
					case "cancel":
						w.cancelled[e.i] = true
						if !w.ranDo[e.i] {
							w.cancelledWhileWaiting[e.i] = true
						}
						w.cancelFn[e.i]()
					case "finish":
						w.finish[e.i] = true
					}
					if c.Burst && vrt.Choose(2, []int8{0, 1}) == 1 {
						w.events = append(w.events, "+")
						goto again
					}
				}
				envDone = true
				// every call has returned: the limiter must be idle and admit a probe at once
				var cancel context.CancelFunc
				reqs[n], cancel = mk(n, 'p')
				defer cancel()
				_, _ = w.l.Do(reqs[n])
				probeDone = true
			})
			return func() (string, []mcx.Finding) {
				var fs []mcx.Finding
				evs := strings.Join(w.events, " ")
				for i := 0; i < n; i++ {
					if !w.done[i] && envDone {
						fs = append(fs, mcx.Finding{Sig: "call-never-returned", What: fmt.Sprintf("%s: request %d never returned after events [%s]", c, i, evs)})
					}
					if w.cancelledWhileWaiting[i] && !c.Burst && c.Preempt == 0 {
						// cancelled while it was settled in a queue: it must fail and must not run do
						if w.ranDo[i] {
							fs = append(fs, mcx.Finding{Sig: "cancelled-waiter-ran", What: fmt.Sprintf("%s: request %d was cancelled while waiting but ran do; events [%s]", c, i, evs)})
						}
						if w.done[i] && !errors.Is(w.err[i], context.Canceled) {
							fs = append(fs, mcx.Finding{Sig: "cancelled-waiter-no-error", What: fmt.Sprintf("%s: request %d cancelled while waiting returned %v; events [%s]", c, i, w.err[i], evs)})
						}
					}
					if w.done[i] && w.err[i] != nil && w.ranDo[i] {
						fs = append(fs, mcx.Finding{Sig: "error-after-do-ran", What: fmt.Sprintf("%s: request %d ran do yet Do returned %v; events [%s]", c, i, w.err[i], evs)})
					}
					if w.done[i] && w.err[i] == nil && !w.ranDo[i] {
						fs = append(fs, mcx.Finding{Sig: "success-without-do", What: fmt.Sprintf("%s: request %d returned success without running do; events [%s]", c, i, evs)})
					}
				}
				if envDone && !probeDone {
					fs = append(fs, mcx.Finding{Sig: "probe-not-admitted", What: fmt.Sprintf("%s: after all calls returned a new request is not admitted; events [%s]", c, evs)})
				}
				if probeDone {
					q, wt, pr := w.l.VerifSizes()
					if q != 0 || wt != 0 || pr != 0 {
						fs = append(fs, mcx.Finding{Sig: "limiter-not-idle", What: fmt.Sprintf("%s: limiter retains state after all calls returned: queues=%d waiters=%d processed=%d; events [%s]", c, q, wt, pr, evs)})
					}
				}
				// admission order per path = arrival order among never-cancelled requests (event level only)
				if !c.Burst && c.Preempt == 0 {
					for path, adm := range w.admission {
						var a, b []int
						for _, i := range w.arrival[path] {
							if !w.cancelled[i] {
								a = append(a, i)
							}
						}
						for _, i := range adm {
							if !w.cancelled[i] {
								b = append(b, i)
							}
						}
						if fmt.Sprint(a[:len(b)]) != fmt.Sprint(b) {
							fs = append(fs, mcx.Finding{Sig: "admission-order", What: fmt.Sprintf("%s: path %c admitted %v, arrival order of the never-cancelled requests is %v; events [%s]", c, path, b, a, evs)})
						}
					}
				}
				return fmt.Sprintf("%s|max=%d/%d|%v", evs, w.maxTotal, w.maxPath, w.err), fs
			}
		},
	}
}

// an upper-case letter in cfg.Paths is a request for the same path as the lower-case letter that carries further options
func lower(b byte) byte {
	if b >= 'A' && b <= 'Z' {
		return b + 'a' - 'A'
	}
	return b
}

func main() {
	r := ev.Start("C16", "model_checking")
	var scs []*mcx.Scenario
	limits := [][2]int64{{1, 1}, {2, 1}, {2, 2}, {0, 1}, {1, 0}, {1, 2}, {0, 2}, {3, 2}}
	for li, l := range limits {
		for _, p := range []string{"ppp", "ppq"} {
			scs = append(scs, scenario(cfg{Total: l[0], Endpoint: l[1], Paths: p}))
			scs = append(scs, scenario(cfg{Total: l[0], Endpoint: l[1], Paths: p, Burst: true, Preempt: ev.Pick(r, 1, 2)}))
		}
		scs = append(scs, scenario(cfg{Total: l[0], Endpoint: l[1], Paths: "ppq", Preempt: ev.Pick(r, 2, 3)}))
		if li == 0 || li == 1 || li == 3 || li == 7 {
			for _, p := range []string{"pPp", "PpP", "pPq"} {
				scs = append(scs, scenario(cfg{Total: l[0], Endpoint: l[1], Paths: p}))
			}
		}
		four := []string{"pppp"}
		if li < 3 || (r.Thorough() && li < 6) {
			four = ev.Pick(r, []string{"pppp", "ppqq"}, []string{"pppp", "ppqq", "pqpp"})
		}
		for _, p := range four {
			scs = append(scs, scenario(cfg{Total: l[0], Endpoint: l[1], Paths: p}))
			if r.Thorough() && li < 6 {
				// (the burst variants of the 4-request orders are ~20 M executions per setting: the six original settings only)
				scs = append(scs, scenario(cfg{Total: l[0], Endpoint: l[1], Paths: p, Burst: true, Preempt: 0}))
			}
		}
	}
	if r.Thorough() {
		// 5 requests: every event order is ~10^8 executions per setting; the tightest setting only
		scs = append(scs, scenario(cfg{Total: 1, Endpoint: 1, Paths: "ppppp"}))
	}
	addConn(r, &scs)
	sum := mcx.Explore(r, scs, mcx.Config{Wall: ev.Pick(r, 3*time.Minute, 25*time.Minute)})
	mcx.Report(r, scs, sum)
	mcx.RacePass(r, 8, "net/client/limitParallelRequests")
	r.Set("rule", "scenario = limits x request paths; the environment thread issues every order of {arrive i (index order), cancel i, finish i} events, each applied to a settled system (event level), optionally two events back-to-back (burst, 1 deviation) with preemptions so that cancel races with admission inside acquireEndpoint's select; oracle = in-flight gauges inside the wrapped do at every admission, return values, idle limiter + immediate probe admission at the end, per-path admission order at event level; distinct outcome = distinct (event history, max gauges, results)")
	r.Sample(map[string]any{"scenario": scs[0].Name, "example_history": "arrive0 arrive1 arrive2 cancel2 finish0 finish1"})
	r.Assume("the semaphore for the total limit is an instrumented verbatim copy of golang.org/x/sync v0.11.0 semaphore", "requests are symmetric, so arrivals are issued in index order")
	r.Finish()
}

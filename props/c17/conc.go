package main

import (
	"fmt"
	"sort"
	"strings"
	"time"

	"github.com/anishathalye/porcupine"
	"github.com/plgd-dev/go-coap/v3/message/pool"
	"github.com/plgd-dev/go-coap/v3/mux"
	"github.com/plgd-dev/go-coap/v3/net/responsewriter"

	"verif/ev"
	"verif/mcx"
	"verif/vrt"
)

// ---- concurrency part (engine E2): Handle / HandleRemove / DefaultHandle concurrent with
// ServeCOAP on the real Router under the vrt scheduler; every interleaving at lock
// granularity; histories checked for linearizability against a sequential router built on the
// reference matcher of match.go.

type rin struct {
	Op      string // Handle | Remove | Default | Serve
	Pattern string
	ID      int      // handler id (Handle, Default)
	Segs    []string // Serve: Uri-Path segments
}

func (i rin) String() string {
	switch i.Op {
	case "Serve", "MatchNone", "DefaultIs":
		return i.Op + "(" + refPath(i.Segs) + ")"
	case "Default":
		return fmt.Sprintf("DefaultHandle(d%d)", i.ID)
	case "Handle":
		return fmt.Sprintf("Handle(%s,h%d)", i.Pattern, i.ID)
	}
	return "HandleRemove(" + i.Pattern + ")"
}

type rout struct {
	Hits []int // handler ids invoked by one ServeCOAP (must be exactly one)
	Vars string
	Tmpl string
	Err  bool
}

// state: "default|pattern=id;pattern=id" (sorted)
func rstate(def int, routes map[string]int) string {
	ks := make([]string, 0, len(routes))
	for k := range routes {
		ks = append(ks, k)
	}
	sort.Strings(ks)
	var b strings.Builder
	fmt.Fprintf(&b, "%d|", def)
	for _, k := range ks {
		fmt.Fprintf(&b, "%s=%d;", k, routes[k])
	}
	return b.String()
}

func rparse(s string) (int, map[string]int) {
	var def int
	i := strings.Index(s, "|")
	fmt.Sscan(s[:i], &def)
	m := map[string]int{}
	for _, kv := range strings.Split(s[i+1:], ";") {
		if kv == "" {
			continue
		}
		j := strings.LastIndex(kv, "=")
		var v int
		fmt.Sscan(kv[j+1:], &v)
		m[kv[:j]] = v
	}
	return def, m
}

var refCache = map[string]*refPattern{}

func refOf(p string) *refPattern {
	if r, ok := refCache[p]; ok {
		return r
	}
	r := parseRef(p)
	refCache[p] = r
	return r
}

func routerModel(init string) porcupine.Model {
	return porcupine.Model{
		Init: func() interface{} { return init },
		Step: func(state, input, output interface{}) (bool, interface{}) {
			def, routes := rparse(state.(string))
			i, o := input.(rin), output.(rout)
			switch i.Op {
			case "Handle":
				routes[i.Pattern] = i.ID
				return !o.Err, rstate(def, routes)
			case "Remove":
				_, had := routes[i.Pattern]
				delete(routes, i.Pattern)
				return o.Err == !had, rstate(def, routes)
			case "Default":
				return true, rstate(i.ID, routes)
			case "DefaultIs": // the default handler a dispatch fell back to was the installed one at some instant of the call
				return o.Hits[0] == def, state
			case "MatchNone": // at some instant of the call no registered route matched the path
				path := refPath(i.Segs)
				for p := range routes {
					if refOf(p).splits(path) != nil {
						return false, state
					}
				}
				return true, state
			case "Serve":
				if len(o.Hits) != 1 {
					return false, state
				}
				path := refPath(i.Segs)
				best := -1
				for p := range routes {
					if refOf(p).splits(path) != nil && len(p) > best {
						best = len(p)
					}
				}
				if best < 0 {
					return o.Hits[0] == def, state
				}
				for p, id := range routes {
					if len(p) == best && refOf(p).splits(path) != nil && id == o.Hits[0] && o.Tmpl == p {
						for _, sp := range refOf(p).splits(path) {
							if fmt.Sprint(sp) == o.Vars {
								return true, state
							}
						}
					}
				}
				return false, state
			}
			panic("unknown router op")
		},
		Equal: func(a, b interface{}) bool { return a == b },
	}
}

type rprogram struct {
	Threads [][]rin
}

func (p rprogram) String() string {
	var b strings.Builder
	for t, ops := range p.Threads {
		fmt.Fprintf(&b, "T%d[", t)
		for j, o := range ops {
			if j > 0 {
				b.WriteString(" ")
			}
			b.WriteString(o.String())
		}
		b.WriteString("] ")
	}
	return b.String()
}

const (
	idDefault0 = 100
	idDefault1 = 101
)

func routerScenario(p rprogram, bounds mcx.Bounds) *mcx.Scenario {
	initRoutes := map[string]int{"/a": 1, "/{x}": 2}
	return &mcx.Scenario{
		Name:   "router init{/a=h1,/{x}=h2,default=d100} " + p.String(),
		Bounds: bounds,
		Body: func(s *vrt.Sched) func() (string, []mcx.Finding) {
			router := mux.NewRouter()
			router.SetErrorHandler(func(error) {})
			type rec struct {
				hits []int
				vars string
				tmpl string
			}
			recs := map[*pool.Message]*rec{}
			mk := func(id int) mux.Handler {
				return mux.HandlerFunc(func(_ mux.ResponseWriter, r *mux.Message) {
					rc := recs[r.Message]
					rc.hits = append(rc.hits, id)
					if r.RouteParams != nil {
						if len(r.RouteParams.Vars) > 0 {
							rc.vars = fmt.Sprint(r.RouteParams.Vars)
						}
						rc.tmpl = r.RouteParams.PathTemplate
					}
				})
			}
			router.DefaultHandle(mk(idDefault0))
			for _, k := range []string{"/a", "/{x}"} {
				_ = router.Handle(k, mk(initRoutes[k]))
			}
			serve := mux.ToHandler[*fakeConn](router)
			conn := &fakeConn{}
			h := &struct {
				clock int64
				ops   []porcupine.Operation
			}{}
			tick := func() int64 { h.clock += 2; return h.clock }
			var served []porcupine.Operation
			for t, ops := range p.Threads {
				t, ops := t, ops
				vrt.App(fmt.Sprintf("T%d", t), func() {
					for _, i := range ops {
						call := tick()
						var o rout
						switch i.Op {
						case "Handle":
							o.Err = router.Handle(i.Pattern, mk(i.ID)) != nil
						case "Remove":
							o.Err = router.HandleRemove(i.Pattern) != nil
						case "Default":
							router.DefaultHandle(mk(i.ID))
						case "Serve":
							req := newRequest(i.Segs)
							rc := &rec{vars: "map[]"}
							recs[req] = rc
							w := responsewriter.New(pool.NewMessage(req.Context()), conn)
							serve(w, req)
							o.Hits, o.Vars, o.Tmpl = rc.hits, rc.vars, rc.tmpl
						}
						if i.Op == "Serve" && len(o.Hits) == 1 && o.Hits[0] >= idDefault0 {
							// The statement asks for race freedom and "never a pattern that does not match" under
							// concurrency, not for an atomic snapshot of (routes, default): the fallback is
							// specified as two independent observations inside the call (see DESIGN, Corrections).
							ret := tick()
							h.ops = append(h.ops, porcupine.Operation{ClientId: t, Input: rin{Op: "MatchNone", Segs: i.Segs}, Call: call, Output: o, Return: ret})
							h.ops = append(h.ops, porcupine.Operation{ClientId: 10 + t, Input: rin{Op: "DefaultIs", Segs: i.Segs}, Call: call, Output: o, Return: ret})
							served = append(served, porcupine.Operation{ClientId: t, Input: i, Call: call, Output: o, Return: ret})
							continue
						}
						if i.Op == "Serve" {
							served = append(served, porcupine.Operation{ClientId: t, Input: i, Call: call, Output: o, Return: h.clock + 2})
						}
						h.ops = append(h.ops, porcupine.Operation{ClientId: t, Input: i, Call: call, Output: o, Return: tick()})
					}
				})
			}
			return func() (string, []mcx.Finding) {
				var fs []mcx.Finding
				for _, op := range served {
					i, o := op.Input.(rin), op.Output.(rout)
					if len(o.Hits) != 1 {
						fs = append(fs, mcx.Finding{Sig: "conc/not-exactly-one-handler", What: fmt.Sprintf("%s: %s invoked handlers %v", p, i, o.Hits)})
						continue
					}
					if o.Tmpl != "" && refOf(o.Tmpl).splits(refPath(i.Segs)) == nil {
						fs = append(fs, mcx.Finding{Sig: "conc/dispatch-to-nonmatching-pattern", What: fmt.Sprintf("%s: %s dispatched to pattern %q which does not match", p, i, o.Tmpl)})
					}
				}
				if !porcupine.CheckOperations(routerModel(rstate(idDefault0, initRoutes)), h.ops) {
					fs = append(fs, mcx.Finding{Sig: "conc/router-not-linearizable", What: fmt.Sprintf("%s: history has no linearization against the sequential router: %v", p, histStr(h.ops))})
				}
				return histStr(h.ops), fs
			}
		},
	}
}

func histStr(ops []porcupine.Operation) string {
	var b strings.Builder
	for _, o := range ops {
		fmt.Fprintf(&b, "[T%d %v -> %v @%d..%d] ", o.ClientId, o.Input, o.Output, o.Call, o.Return)
	}
	return b.String()
}

func runConcurrency(r *ev.Run) {
	ops := []rin{
		{Op: "Serve", Segs: []string{"a"}},
		{Op: "Serve", Segs: []string{"b"}},
		{Op: "Serve", Segs: []string{"a", "b"}},
		{Op: "Handle", Pattern: "/{x:a|b}", ID: 3},
		{Op: "Handle", Pattern: "/a", ID: 4},
		{Op: "Handle", Pattern: "/a/{y}", ID: 5},
		{Op: "Remove", Pattern: "/{x}"},
		{Op: "Remove", Pattern: "/a"},
		{Op: "Default", ID: idDefault1},
	}
	unb := mcx.Bounds{Preempt: -1, Env: -1, Select: -1}
	var scs []*mcx.Scenario
	n := len(ops)
	for a := 0; a < n; a++ {
		for b := a; b < n; b++ {
			if ops[a].Op != "Serve" && ops[b].Op != "Serve" {
				continue
			}
			scs = append(scs, routerScenario(rprogram{Threads: [][]rin{{ops[a]}, {ops[b]}}}, unb))
			for c := b; c < n; c++ {
				scs = append(scs, routerScenario(rprogram{Threads: [][]rin{{ops[a]}, {ops[b]}, {ops[c]}}}, unb))
			}
			// a thread that dispatches twice sees registrations in order
			for c := 3; c < n; c++ {
				scs = append(scs, routerScenario(rprogram{Threads: [][]rin{{ops[a], ops[b]}, {ops[c]}}}, unb))
			}
		}
	}
	sum := mcx.Explore(r, scs, mcx.Config{Wall: ev.Pick(r, 3*time.Minute, 15*time.Minute)})
	r.Set("states", sum.Nodes)
	r.Set("transitions", sum.Steps)
	r.Set("traces_validated_against_impl", sum.Execs)
	r.Set("concurrency_programs", int64(len(scs)))
	r.Set("concurrency_executions", sum.Execs)
	r.Set("concurrency_distinct_histories", int64(len(sum.Outcomes)))
	r.Set("concurrency_exhaustive", !sum.Capped)
	r.Set("concurrency_rule", "programs = pairs and triples of threads (and 2+1 programs) over {Serve(/a), Serve(/b), Serve(/a/b), Handle x3, HandleRemove x2, DefaultHandle} containing at least one dispatch, on a router with routes /a and /{x}; every interleaving at lock granularity (unbounded preemptions) on the real mux.Router; each history checked by porcupine against a sequential router specified with the reference matcher; additionally no dispatch may reach a pattern that does not match")
	r.Sample(map[string]any{"concurrency_program": scs[len(scs)/2].Name})
	r.Assume("concurrency part: scheduling points at RWMutex operations; map iteration inside Router.Match in sorted order; data races proper are outside a cooperative scheduler (DESIGN §3.2.7)")
}

#!/bin/bash
# tools/seed_auto.sh <seed-ID> <n> <check IDs...> : confirm (demo fails with / passes without, suite passes) then run checks.
ID=$1; N=$2; shift 2
D=${SEEDDIR:-/tmp/seed}/$ID/demo${N}_test.go
PKG=$(grep -m1 -i "package dir" $D | sed -E 's/.*[Pp]ackage dir(ectory)?:? *//; s/ .*//; s#^/tmp/wt/[A-Z0-9]*/##; s#/$##')
RX=$(grep -E "^func Test" $D | sed -E 's/func (Test[A-Za-z0-9_]*).*/\1/' | paste -sd'|')
echo "### $ID change $N pkg=$PKG tests=$RX"
/verif/tools/seed_confirm.sh $ID $N "$PKG" "^($RX)\$" 2>&1 | grep -E "^---|^ok|^FAIL|build-ok|baseline:|NOT PASSING|PATCH" | cut -c1-150
/verif/tools/seed_check_alt.sh ${SEEDDIR:-/tmp/seed}/$ID/change$N.diff "$@" 2>&1 | grep -E "^==|signature|KNOWN" | cut -c1-200

#!/bin/bash
# Offline setup: pre-build the framework and warm the Go build cache.
set -e
cd "$(dirname "$0")"
export GOFLAGS=-mod=mod GOPROXY=off
mkdir -p .build/bin evidence replays
for d in props/*/; do
  id=$(basename $d)
  [ -f $d/INSTRUMENT ] && continue
  go build -o .build/bin/$id ./$d
done
echo setup ok

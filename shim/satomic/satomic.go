// Package satomic replaces "sync/atomic" in instrumented files: a scheduling point before
// every atomic operation, then the real operation.
package satomic

import (
	"sync/atomic"

	"verif/vrt"
)

func pt(l string) { vrt.PointAtomic(l) }

type Pointer[T any] struct{ atomic.Pointer[T] }

func (p *Pointer[T]) Load() *T                       { pt("atomic.Pointer.Load"); return p.Pointer.Load() }
func (p *Pointer[T]) Store(v *T)                     { pt("atomic.Pointer.Store"); p.Pointer.Store(v) }
func (p *Pointer[T]) Swap(v *T) *T                   { pt("atomic.Pointer.Swap"); return p.Pointer.Swap(v) }
func (p *Pointer[T]) CompareAndSwap(o, n *T) bool    { pt("atomic.Pointer.CAS"); return p.Pointer.CompareAndSwap(o, n) }

type Value struct{ atomic.Value }

func (p *Value) Load() any                     { pt("atomic.Value.Load"); return p.Value.Load() }
func (p *Value) Store(v any)                   { pt("atomic.Value.Store"); p.Value.Store(v) }
func (p *Value) Swap(v any) any                { pt("atomic.Value.Swap"); return p.Value.Swap(v) }
func (p *Value) CompareAndSwap(o, n any) bool  { pt("atomic.Value.CAS"); return p.Value.CompareAndSwap(o, n) }

type Bool struct{ atomic.Bool }

func (p *Bool) Load() bool                     { pt("atomic.Bool.Load"); return p.Bool.Load() }
func (p *Bool) Store(v bool)                   { pt("atomic.Bool.Store"); p.Bool.Store(v) }
func (p *Bool) Swap(v bool) bool               { pt("atomic.Bool.Swap"); return p.Bool.Swap(v) }
func (p *Bool) CompareAndSwap(o, n bool) bool  { pt("atomic.Bool.CAS"); return p.Bool.CompareAndSwap(o, n) }

type Int32 struct{ atomic.Int32 }

func (p *Int32) Load() int32                     { pt("atomic.Int32.Load"); return p.Int32.Load() }
func (p *Int32) Store(v int32)                   { pt("atomic.Int32.Store"); p.Int32.Store(v) }
func (p *Int32) Add(v int32) int32               { pt("atomic.Int32.Add"); return p.Int32.Add(v) }
func (p *Int32) Swap(v int32) int32              { pt("atomic.Int32.Swap"); return p.Int32.Swap(v) }
func (p *Int32) CompareAndSwap(o, n int32) bool  { pt("atomic.Int32.CAS"); return p.Int32.CompareAndSwap(o, n) }

type Int64 struct{ atomic.Int64 }

func (p *Int64) Load() int64                     { pt("atomic.Int64.Load"); return p.Int64.Load() }
func (p *Int64) Store(v int64)                   { pt("atomic.Int64.Store"); p.Int64.Store(v) }
func (p *Int64) Add(v int64) int64               { pt("atomic.Int64.Add"); return p.Int64.Add(v) }
func (p *Int64) Swap(v int64) int64              { pt("atomic.Int64.Swap"); return p.Int64.Swap(v) }
func (p *Int64) CompareAndSwap(o, n int64) bool  { pt("atomic.Int64.CAS"); return p.Int64.CompareAndSwap(o, n) }

type Uint32 struct{ atomic.Uint32 }

func (p *Uint32) Load() uint32                     { pt("atomic.Uint32.Load"); return p.Uint32.Load() }
func (p *Uint32) Store(v uint32)                   { pt("atomic.Uint32.Store"); p.Uint32.Store(v) }
func (p *Uint32) Add(v uint32) uint32              { pt("atomic.Uint32.Add"); return p.Uint32.Add(v) }
func (p *Uint32) Swap(v uint32) uint32             { pt("atomic.Uint32.Swap"); return p.Uint32.Swap(v) }
func (p *Uint32) CompareAndSwap(o, n uint32) bool  { pt("atomic.Uint32.CAS"); return p.Uint32.CompareAndSwap(o, n) }

type Uint64 struct{ atomic.Uint64 }

func (p *Uint64) Load() uint64                     { pt("atomic.Uint64.Load"); return p.Uint64.Load() }
func (p *Uint64) Store(v uint64)                   { pt("atomic.Uint64.Store"); p.Uint64.Store(v) }
func (p *Uint64) Add(v uint64) uint64              { pt("atomic.Uint64.Add"); return p.Uint64.Add(v) }
func (p *Uint64) Swap(v uint64) uint64             { pt("atomic.Uint64.Swap"); return p.Uint64.Swap(v) }
func (p *Uint64) CompareAndSwap(o, n uint64) bool  { pt("atomic.Uint64.CAS"); return p.Uint64.CompareAndSwap(o, n) }

func AddUint32(a *uint32, d uint32) uint32 { pt("atomic.AddUint32"); return atomic.AddUint32(a, d) }
func AddUint64(a *uint64, d uint64) uint64 { pt("atomic.AddUint64"); return atomic.AddUint64(a, d) }
func AddInt32(a *int32, d int32) int32     { pt("atomic.AddInt32"); return atomic.AddInt32(a, d) }
func AddInt64(a *int64, d int64) int64     { pt("atomic.AddInt64"); return atomic.AddInt64(a, d) }
func LoadUint32(a *uint32) uint32          { pt("atomic.LoadUint32"); return atomic.LoadUint32(a) }
func LoadUint64(a *uint64) uint64          { pt("atomic.LoadUint64"); return atomic.LoadUint64(a) }
func LoadInt32(a *int32) int32             { pt("atomic.LoadInt32"); return atomic.LoadInt32(a) }
func LoadInt64(a *int64) int64             { pt("atomic.LoadInt64"); return atomic.LoadInt64(a) }
func StoreUint32(a *uint32, v uint32)      { pt("atomic.StoreUint32"); atomic.StoreUint32(a, v) }
func StoreUint64(a *uint64, v uint64)      { pt("atomic.StoreUint64"); atomic.StoreUint64(a, v) }
func StoreInt32(a *int32, v int32)         { pt("atomic.StoreInt32"); atomic.StoreInt32(a, v) }
func StoreInt64(a *int64, v int64)         { pt("atomic.StoreInt64"); atomic.StoreInt64(a, v) }
func CompareAndSwapUint32(a *uint32, o, n uint32) bool {
	pt("atomic.CASUint32")
	return atomic.CompareAndSwapUint32(a, o, n)
}
func CompareAndSwapInt32(a *int32, o, n int32) bool {
	pt("atomic.CASInt32")
	return atomic.CompareAndSwapInt32(a, o, n)
}

// C10 — servers stay up and peers stay isolated under arbitrary input.
// Engine E2 (server worlds): a real udp/server.Server over a harness packet conn (and tcp/dtls
// servers over harness listeners, servers_stream.go); well-behaved peers and an adversary whose
// items are interleaved at every position; discovery with several responders.
package main

import (
	"bytes"
	"context"
	"fmt"
	"net"
	"strings"
	"time"

	"github.com/plgd-dev/go-coap/v3/message"
	"github.com/plgd-dev/go-coap/v3/message/codes"
	"github.com/plgd-dev/go-coap/v3/message/pool"
	"github.com/plgd-dev/go-coap/v3/net/responsewriter"
	"github.com/plgd-dev/go-coap/v3/udp/client"

	"verif/ev"
	"verif/mcx"
	"verif/vrt"
	"verif/worlds/srvw"
)

var (
	peerA = &net.UDPAddr{IP: net.IPv4(10, 0, 0, 11), Port: 40001}
	peerB = &net.UDPAddr{IP: net.IPv4(10, 0, 0, 12), Port: 40001}
	// same IP as peer A, different port: a different logical connection
	peerA2 = &net.UDPAddr{IP: net.IPv4(10, 0, 0, 11), Port: 40002}
	adv    = &net.UDPAddr{IP: net.IPv4(10, 6, 6, 6), Port: 666}
)

type advItem struct {
	Name string
	Data []byte
}

func advItems(maxSize int) []advItem {
	valid := srvw.EncodeUDP(message.Message{Type: message.Confirmable, Code: codes.GET, MessageID: 666, Token: message.Token{0x66}, Options: message.Options{{ID: message.URIPath, Value: []byte("adv")}}})
	return []advItem{
		{"garbage-badversion", []byte{0xC0, 0x01, 0x00, 0x01}},
		{"garbage-tkl9", []byte{0x49, 0x01, 0x00, 0x02, 1, 2, 3, 4, 5, 6, 7, 8, 9}},
		{"garbage-optnibble15", []byte{0x40, 0x01, 0x00, 0x03, 0xf0}},
		{"truncated", valid[:len(valid)-2]},
		{"oversize", bytes.Repeat([]byte{0x40}, maxSize+1)},
		{"unknown-token-response", srvw.EncodeUDP(message.Message{Type: message.NonConfirmable, Code: codes.Content, MessageID: 667, Token: message.Token{0x99, 0x98}, Payload: []byte("nobody asked")})},
		{"unsolicited-ack", srvw.EncodeUDP(message.Message{Type: message.Acknowledgement, Code: codes.Empty, MessageID: 668})},
		{"unsolicited-rst", srvw.EncodeUDP(message.Message{Type: message.Reset, Code: codes.Empty, MessageID: 669})},
		{"valid-request", valid},
		{"empty-datagram", []byte{}},
	}
}

type cfg struct {
	Items   []int // adversary items (indices), in order
	Peers   int
	Reqs    int
	Preempt int
	Bursts  int // how many arrivals may come back to back with the previous one (no settle point in between)
	Queue   int // receive-queue size of the per-peer connections (0 = default 16)
}

func (c cfg) String() string {
	var n []string
	for _, i := range c.Items {
		n = append(n, advItems(64)[i].Name)
	}
	q := ""
	if c.Queue != 0 {
		q = fmt.Sprintf(" receive-queue=%d", c.Queue)
	}
	return fmt.Sprintf("udp-server peers=%d requests-each=%d adversary=[%s] bursts<=%d preempt<=%d%s", c.Peers, c.Reqs, strings.Join(n, ","), c.Bursts, c.Preempt, q)
}

func scenario(c cfg) *mcx.Scenario {
	return &mcx.Scenario{
		Name:   c.String(),
		Bounds: mcx.Bounds{Preempt: c.Preempt, Env: c.Bursts, Select: 0},
		Opt:    vrt.Options{MaxSteps: 600000},
		Body: func(s *vrt.Sched) func() (string, []mcx.Finding) {
			var hist []string
			var fs []mcx.Finding
			fail := func(sig, format string, a ...any) {
				fs = append(fs, mcx.Finding{Sig: sig, What: c.String() + ": " + fmt.Sprintf(format, a...) + "; arrival order [" + strings.Join(hist, " ") + "]"})
			}
			var u *srvw.UDP
			peers := []*net.UDPAddr{peerA, peerB, peerA2}[:c.Peers]
			handled := map[string][]string{} // per remote address: payloads in handler order
			connOf := map[string]*client.Conn{}
			vrt.App("env", func() {
				const maxSize = 64
				u = srvw.NewUDP(srvw.UDPOpts{MaxMsgSize: maxSize, QueueSize: c.Queue, Handler: func(w *responsewriter.ResponseWriter[*client.Conn], r *pool.Message) {
					ra := w.Conn().RemoteAddr().String()
					b, _ := r.ReadBody()
					handled[ra] = append(handled[ra], string(b))
					if prev, ok := connOf[ra]; ok && prev != w.Conn() {
						fail("two-logical-connections-for-one-address-pair", "requests from %s were handled by two different connections", ra)
					}
					connOf[ra] = w.Conn()
					if r.Code() == codes.POST {
						_ = w.SetResponse(codes.Changed, message.TextPlain, bytes.NewReader(append([]byte("echo:"), b...)))
					}
				}})
				items := advItems(maxSize)
				next := make([]int, len(peers)) // next request index per peer
				ai := 0
				sent := map[string][]string{}
				mid := int32(100)
				for {
					var evs []int // 0..len(peers)-1: that peer sends its next request; len(peers): adversary sends its next item
					for p := range peers {
						if next[p] < c.Reqs {
							evs = append(evs, p)
						}
					}
					if ai < len(c.Items) {
						evs = append(evs, len(peers))
					}
					if len(evs) == 0 {
						break
					}
					e := evs[vrt.Choose(len(evs), nil)]
					if e == len(peers) {
						it := items[c.Items[ai]]
						ai++
						hist = append(hist, "adv:"+it.Name)
						u.Send(adv, it.Data)
					} else {
						payload := fmt.Sprintf("p%d-r%d", e, next[e])
						next[e]++
						mid++
						hist = append(hist, payload)
						sent[peers[e].String()] = append(sent[peers[e].String()], payload)
						u.Send(peers[e], srvw.EncodeUDP(message.Message{Type: message.Confirmable, Code: codes.POST, MessageID: mid, Token: message.Token{0x10 + byte(e), byte(next[e])},
							Options: message.Options{{ID: message.URIPath, Value: []byte("echo")}}, Payload: []byte(payload)}))
					}
					// datagrams are queued back to back or one at a time: both are explored
					if vrt.Choose(2, []int8{0, 1}) == 0 {
						vrt.Quiesce("env: server settles")
					}
				}
				vrt.Quiesce("env: all delivered")
				// probe: the server must still be serving
				u.Send(peerB, srvw.EncodeUDP(message.Message{Type: message.Confirmable, Code: codes.POST, MessageID: 9999, Token: message.Token{0x77}, Options: message.Options{{ID: message.URIPath, Value: []byte("echo")}}, Payload: []byte("probe")}))
				vrt.Quiesce("env: probe handled")
				if u.ServeDone {
					fail("serve-returned", "Serve returned (%v) although the server was not stopped", u.ServeErr)
				}
				// what each well-behaved peer received
				got := map[string][]string{}
				probeAnswered := false
				for _, o := range u.NewOuts() {
					m, err := srvw.DecodeUDP(o.Data)
					if err != nil {
						fail("server-wrote-garbage", "server wrote an undecodable datagram to %v", o.To)
						continue
					}
					if o.To.String() == adv.String() {
						continue
					}
					if string(m.Payload) == "echo:probe" {
						probeAnswered = true
						continue
					}
					got[o.To.String()] = append(got[o.To.String()], fmt.Sprintf("%v/%v/%s", m.Type, m.Code, m.Payload))
				}
				if !probeAnswered {
					fail("server-stopped-answering", "a request sent after the adversary's traffic was not answered")
				}
				for _, p := range peers {
					var want []string
					for _, pl := range sent[p.String()] {
						want = append(want, fmt.Sprintf("%v/%v/echo:%s", message.Acknowledgement, codes.Changed, pl))
					}
					if fmt.Sprint(got[p.String()]) != fmt.Sprint(want) {
						fail("peer-received-differs", "peer %v received %v, without the adversary it receives %v", p, got[p.String()], want)
					}
					h := handled[p.String()]
					if p.String() == peerB.String() && len(h) > 0 && h[len(h)-1] == "probe" {
						h = h[:len(h)-1]
					}
					if fmt.Sprint(h) != fmt.Sprint(sent[p.String()]) {
						fail("per-peer-order", "requests of peer %v were handled as %v, arrival order %v", p, h, sent[p.String()])
					}
				}
				u.S.Stop()
				vrt.Quiesce("env: stopped")
				if !u.ServeDone {
					fail("serve-did-not-return-after-stop", "Serve did not return after Stop")
				}
			})
			return func() (string, []mcx.Finding) {
				if u != nil {
					u.Cleanup()
				}
				return strings.Join(hist, " "), fs
			}
		},
	}
}

func main() {
	r := ev.Start("C10", "fault_enumeration")
	var scs []*mcx.Scenario
	n := len(advItems(64))
	// every single adversary item and every ordered pair, at every position of the interleaving with 2 peers x 2 requests
	for i := 0; i < n; i++ {
		scs = append(scs, scenario(cfg{Items: []int{i}, Peers: 2, Reqs: 2, Bursts: ev.Pick(r, 1, 2)}))
		for j := 0; j < n; j++ {
			scs = append(scs, scenario(cfg{Items: []int{i, j}, Peers: 2, Reqs: ev.Pick(r, 1, 2), Bursts: 1}))
		}
	}
	// (3 peers x 2 requests x 3 items exceeds 15 M executions per scenario: the thorough tier widens the burst budget instead)
	scs = append(scs, scenario(cfg{Items: []int{0, 4, 8}, Peers: 3, Reqs: 1, Bursts: ev.Pick(r, 1, 2)}))
	scs = append(scs, scenario(cfg{Items: []int{3, 5, 7}, Peers: 3, Reqs: 1, Bursts: ev.Pick(r, 1, 2)}))
	scs = append(scs, scenario(cfg{Items: []int{8}, Peers: 2, Reqs: 1, Bursts: 1, Preempt: ev.Pick(r, 1, 2)}))
	scs = append(scs, scenario(cfg{Items: []int{1}, Peers: 2, Reqs: 1, Bursts: 1, Preempt: ev.Pick(r, 1, 2)}))
	// a peer that sends faster than its handler runs: the per-connection queue (size 1) is full while more datagrams arrive
	scs = append(scs, scenario(cfg{Items: []int{8}, Peers: 1, Reqs: 4, Bursts: 4, Queue: 1}))
	scs = append(scs, scenario(cfg{Items: []int{8}, Peers: 2, Reqs: ev.Pick(r, 2, 3), Bursts: ev.Pick(r, 3, 4), Queue: 1}))
	addPairs(r, &scs)
	addDiscovery(r, &scs)
	addStreamServers(r, &scs)
	sum := mcx.Explore(r, scs, mcx.Config{Wall: ev.Pick(r, 4*time.Minute, 30*time.Minute)})
	mcx.Report(r, scs, sum)
	r.Set("distinct_nontrivial", int64(len(sum.Outcomes)))
	sockPass(r)
	r.Set("rule", "udp server over a harness packet conn: 2-3 well-behaved peers (distinct addresses, incl. same IP / different port) each sending 1-2 confirmable POST requests, an adversary address injecting 1-3 items from {bad version, TKL 9, option nibble 15, truncated message, oversize datagram, response with unknown token, unsolicited ACK, unsolicited RST, valid request, empty datagram}; every interleaving of the arrivals, each followed or not by a settle point; oracle: each well-behaved peer receives exactly the acknowledgements it receives without the adversary, per-peer handler order = arrival order, one logical connection per address pair, Serve still running and a probe answered at the end, Serve returns after Stop; plus discovery and stream-server families; distinct outcome = distinct arrival order; receive-queue=1 variants (a peer sends faster than its handler runs); address-pair family: wildcard listener, all event sequences (depth 4-5) over {datagram from P to X / to Y / without control message / to a multicast group, datagram from Q, NewConn(P), NewConn(P,Y), response from P} against a reference model of the (remote, normalised local) table with wildcard fallback")
	r.Sample(map[string]any{"scenario": scs[1].Name, "arrival_order": "p0-r0 adv:garbage-badversion p1-r0 adv:garbage-tkl9 p0-r1 p1-r1"})
	r.Assume("the listener adapters of net/connUDP.go are exercised over real loopback sockets by the sequential socket pass only (ipv4, two local addresses; ipv6 has a single loopback address here, on which a changed control message cannot be told from an unchanged one)", "kernel sockets, pion/dtls and crypto/tls are outside the explored code: the UDP listener reads from a harness packet conn injected through the pre-existing packetConn interface and udpConnWriteTo variable; handshakes are environment answers")
	_ = context.Background
	r.Finish()
}

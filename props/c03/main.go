// C03 — every response reaches exactly the request that carries its token.
// Engine E2: real client connections (udp/client.Conn over an in-memory session, tcp/client.Conn
// over an in-memory byte stream) with K concurrent callers; the scripted peer answers the
// requests it has seen in every order with piggy-backed, separate, duplicated and
// unknown-token responses; schedules within a preemption bound.
package main

import (
	"context"
	"errors"
	"fmt"
	"os"
	"sort"
	"strings"
	"time"

	"github.com/plgd-dev/go-coap/v3/message"
	"github.com/plgd-dev/go-coap/v3/message/codes"
	"github.com/plgd-dev/go-coap/v3/message/pool"
	coapErrors "github.com/plgd-dev/go-coap/v3/pkg/errors"

	"verif/ev"
	"verif/mcx"
	"verif/vrt"
	"verif/worlds/track"
)

// transport abstracts the two connection worlds.
type transport interface {
	Name() string
	Datagram() bool
	Build(blockwise bool)
	Acquire(ctx context.Context) *pool.Message
	Do(req *pool.Message) (*pool.Message, error)
	Release(m *pool.Message)
	NewOuts() []message.Message
	Inject(m message.Message)
	PeerMID() int32
	Errors() []string
}

type cfg struct {
	T         string // "udp" | "tcp"
	K         int
	CON       bool
	BlockWise bool
	TokFamily bool // caller-chosen tokens of different lengths that share bytes: b0, b000, 00b0
	// "then": a further caller with a FRESH token starts after caller 0's call has returned (caller 0 may give up at the moment its response arrives)
	Collide string // "" | "reuse" (caller K reuses caller 0's outstanding token) | "race" (callers 0 and 1 use the same token concurrently) | "after" (caller K reuses caller 0's token after that call has returned)
	Preempt int
	Env     int
	BigBody bool // responses carry 40-byte bodies over 3 blocks (SZX16)
	Large   bool // responses carry 3000-byte payloads in one message (larger than the pooled message's buffers)
}

func (c cfg) String() string {
	l := ""
	if c.Large {
		l = " payload=3000"
	}
	return fmt.Sprintf("%s callers=%d con=%v blockwise=%v bigbody=%v collide=%q token-family=%v preempt<=%d env<=%d%s", c.T, c.K, c.CON, c.BlockWise, c.BigBody, c.Collide, c.TokFamily, c.Preempt, c.Env, l)
}

type caller struct {
	cancel  context.CancelFunc
	gaveUp  bool
	token   message.Token
	done    bool
	err     error
	gotTok  string
	gotBody string
	gotCode codes.Code
}

func scenario(c cfg, mk func() transport) *mcx.Scenario {
	return &mcx.Scenario{
		Name:   c.String(),
		Bounds: mcx.Bounds{Preempt: c.Preempt, Env: c.Env, Select: 0},
		Body: func(s *vrt.Sched) func() (string, []mcx.Finding) {
			var hist []string
			var fs []mcx.Finding
			fail := func(sig, format string, a ...any) {
				fs = append(fs, mcx.Finding{Sig: sig, What: c.String() + ": " + fmt.Sprintf(format, a...) + "; peer history [" + strings.Join(hist, " ") + "]"})
			}
			tr := mk()
			n := c.K
			if c.Collide == "reuse" || c.Collide == "after" || c.Collide == "then" {
				n = c.K + 1
			}
			callers := make([]*caller, n)
			nonceOf := map[string]int{}    // body -> request index it was generated for
			dupType := map[string]string{} // body -> type of the response datagram that was delivered a second time
			vrt.App("peer", func() {
				tr.Build(c.BlockWise)
				onWire := make([]bool, n)
				for i := 0; i < n; i++ {
					i := i
					tok := message.Token{0xB0 + byte(i)}
					if c.TokFamily {
						tok = []message.Token{{0xB0}, {0xB0, 0x00}, {0x00, 0xB0}, {0xB0, 0x00, 0x00}}[i]
					}
					if c.Collide == "race" && i == 1 {
						tok = message.Token{0xB0}
					}
					if (c.Collide == "reuse" || c.Collide == "after") && i == n-1 {
						tok = message.Token{0xB0}
					}
					if c.Collide == "then" && i == n-1 {
						tok = message.Token{0xB9, 0x01} // a fresh token: the follow-up request shares nothing with the first one
					}
					cctx, ccancel := context.WithCancel(context.Background())
					callers[i] = &caller{token: tok, cancel: ccancel}
					vrt.App(fmt.Sprintf("caller%d", i), func() {
						if c.Collide == "reuse" && i == n-1 {
							vrt.WaitUntil("reuser waits until the first request is on the wire", func() bool { return onWire[0] })
						}
						if (c.Collide == "after" || c.Collide == "then") && i == n-1 {
							vrt.WaitUntil("the token is reused once the first call has returned", func() bool { return callers[0].done })
						}
						req := tr.Acquire(cctx)
						req.SetCode(codes.GET)
						req.SetToken(tok)
						_ = req.SetPath(fmt.Sprintf("/res%d", i)) // distinct paths: the endpoint limiter never serialises them
						if tr.Datagram() {
							if c.CON {
								req.SetType(message.Confirmable)
							} else {
								req.SetType(message.NonConfirmable)
							}
						}
						resp, err := tr.Do(req)
						cl := callers[i]
						cl.err = err
						if err == nil {
							track.Hold(resp, "response returned from Do")
							vrt.Point("application inspects the response")
							cl.gotTok = fmt.Sprintf("%x", []byte(resp.Token()))
							cl.gotCode = resp.Code()
							if resp.Body() != nil {
								b, _ := resp.ReadBody()
								cl.gotBody = string(b)
							}
							track.Unhold(resp)
							tr.Release(resp)
						}
						tr.Release(req)
						cl.done = true
					})
				}
				// ---- the peer
				type pend struct {
					idx      int
					tok      message.Token
					mid      int32
					con      bool
					acked    bool
					answered bool
					last     *message.Message // last response datagram (for duplication)
					second   bool
					body     string
				}
				var pending []*pend
				byTok := map[string]*pend{}
				nonce := 0
				dups, unknowns, giveUps := 0, 0, 0
				serveBlock := func(p *pend, req message.Message) bool {
					// continuation request of a block-wise download: answer block NUM directly
					v, err := req.Options.GetUint32(message.Block2)
					if err != nil || p.body == "" {
						return false
					}
					szx, num := v&7, v>>4
					size := 1 << (szx + 4)
					lo := int(num) * size
					if lo >= len(p.body) {
						return false
					}
					hi := lo + size
					more := uint32(8)
					if hi >= len(p.body) {
						hi, more = len(p.body), 0
					}
					bo := make([]byte, 4)
					opts := message.Options{}
					opts, _, _ = opts.SetUint32(bo, message.Block2, num<<4|more|szx)
					m := message.Message{Code: codes.Content, Token: req.Token, Payload: []byte(p.body[lo:hi]), Options: opts}
					if tr.Datagram() {
						m.Type, m.MessageID = message.Acknowledgement, req.MessageID
						if req.Type != message.Confirmable {
							m.Type, m.MessageID = message.NonConfirmable, tr.PeerMID()
						}
					}
					tr.Inject(m)
					return true
				}
				for {
					vrt.Quiesce("peer: settle")
					for _, o := range tr.NewOuts() {
						if o.Code < codes.GET || o.Code > codes.DELETE {
							continue // acknowledgements of our separate responses
						}
						key := string(o.Token)
						if p, ok := byTok[key]; ok {
							if p.answered && serveBlock(p, o) {
								continue
							}
							if c.Collide == "after" && p.idx == 0 && p.answered && callers[0].done && (o.MessageID != p.mid || !tr.Datagram()) {
								// the token is free again and a new request carries it: a new exchange for the peer
								// (the old one stays in the list: its response may still be duplicated or retransmitted)
								onWire[n-1] = true
								p2 := &pend{idx: n - 1, tok: o.Token, mid: o.MessageID, con: tr.Datagram() && o.Type == message.Confirmable}
								pending = append(pending, p2)
								byTok[key] = p2
								continue
							}
							if o.MessageID != p.mid || !tr.Datagram() {
								p.second = true // a second request carrying this token reached the wire
							}
							continue // retransmission or second request with the same token: the peer answers a token once
						}
						idx := -1
						for i, cl := range callers {
							if string(cl.token) == key && !onWire[i] {
								idx = i
								break
							}
						}
						for i, cl := range callers {
							if string(cl.token) == key && !(c.Collide == "after" && i == n-1) {
								onWire[i] = true // same-token callers are indistinguishable on the wire
							}
						}
						p := &pend{idx: idx, tok: o.Token, mid: o.MessageID, con: tr.Datagram() && o.Type == message.Confirmable}
						pending = append(pending, p)
						byTok[key] = p
					}
					type act struct {
						kind string
						p    *pend
						cost int8
					}
					var acts []act
					for _, p := range pending {
						if c.Collide == "reuse" && p.idx == 0 && !callers[n-1].done && !p.second {
							continue // keep the first token outstanding until the re-using request has been decided
						}
						if !p.answered {
							if p.con && !p.acked {
								acts = append(acts, act{"piggy", p, 0}, act{"ack", p, 0})
							} else {
								acts = append(acts, act{"sepNON", p, 0})
								if tr.Datagram() {
									acts = append(acts, act{"sepCON", p, 0})
								}
							}
						} else if dups < 1 && p.last != nil && !(c.Collide == "after" && !tr.Datagram()) {
							// (on a stream a second copy of a response is a second response of the peer; once the token is
							// in use again it cannot be told from the answer to the new request by any implementation)
							acts = append(acts, act{"dup", p, 1})
						}
					}
					if giveUps < 1 && c.Collide == "then" {
						// the caller gives up at the very moment its response arrives (both before it runs again)
						for _, p := range pending {
							if !p.answered && p.idx == 0 && !callers[0].gaveUp && !(p.con && !p.acked) {
								acts = append(acts, act{"sepNON+giveup", p, 1})
							}
						}
					}
					if giveUps < 1 && c.Collide == "" {
						for _, p := range pending {
							if !p.answered && p.idx >= 0 && !callers[p.idx].gaveUp {
								acts = append(acts, act{"giveup", p, 1})
							}
						}
					}
					if unknowns < 1 && len(pending) > 0 {
						acts = append(acts, act{"unknown", pending[0], 1})
					}
					allAnswered := len(pending) > 0
					for _, p := range pending {
						if !p.answered {
							allAnswered = false
						}
					}
					if allAnswered || len(acts) == 0 {
						// stop is the default once everything is answered; deviations may still follow
						acts = append([]act{{"stop", nil, 0}}, acts...)
					}
					sort.SliceStable(acts, func(i, j int) bool { return acts[i].cost < acts[j].cost })
					costs := make([]int8, len(acts))
					for i, a := range acts {
						costs[i] = a.cost
					}
					a := acts[vrt.Choose(len(acts), costs)]
					if a.kind == "stop" {
						// keep serving block-wise continuation requests until the wire is silent
						for {
							vrt.Quiesce("peer: drain")
							served := false
							for _, o := range tr.NewOuts() {
								if p, ok := byTok[string(o.Token)]; ok && o.Code >= codes.GET && o.Code <= codes.DELETE && p.answered && serveBlock(p, o) {
									served = true
								}
							}
							if !served {
								break
							}
						}
						break
					}
					p := a.p
					hist = append(hist, fmt.Sprintf("%s(%x)", a.kind, []byte(p.tok)))
					resp := func(typ message.Type, mid int32) message.Message {
						nonce++
						body := fmt.Sprintf("for-%x-#%d", []byte(p.tok), nonce)
						if c.BigBody {
							body = body + strings.Repeat("+", 40-len(body))
						}
						if c.Large {
							body = body + strings.Repeat("=", 3000-len(body))
						}
						nonceOf[body] = p.idx
						p.body = body
						m := message.Message{Code: codes.Content, Token: p.tok, Payload: []byte(body)}
						if tr.Datagram() {
							m.Type, m.MessageID = typ, mid
						}
						if c.BigBody {
							bo := make([]byte, 4)
							m.Payload = []byte(body[:16])
							m.Options, _, _ = message.Options{}.SetUint32(bo, message.Block2, 0<<4|8|0)
						}
						return m
					}
					switch a.kind {
					case "piggy":
						m := resp(message.Acknowledgement, p.mid)
						p.answered, p.acked, p.last = true, true, &m
						tr.Inject(m)
					case "ack":
						p.acked = true
						tr.Inject(message.Message{Type: message.Acknowledgement, Code: codes.Empty, MessageID: p.mid})
					case "sepNON":
						m := resp(message.NonConfirmable, tr.PeerMID())
						p.answered, p.last = true, &m
						tr.Inject(m)
					case "sepCON":
						m := resp(message.Confirmable, tr.PeerMID())
						p.answered, p.last = true, &m
						tr.Inject(m)
					case "sepNON+giveup":
						giveUps++
						m := resp(message.NonConfirmable, tr.PeerMID())
						p.answered, p.last = true, &m
						tr.Inject(m)
						callers[p.idx].gaveUp = true
						callers[p.idx].cancel()
					case "giveup":
						// the caller stops waiting; the peer may still answer later (a delayed response)
						giveUps++
						callers[p.idx].gaveUp = true
						callers[p.idx].cancel()
					case "dup":
						dups++
						dupType[p.body] = "stream-frame"
						if tr.Datagram() {
							dupType[p.body] = p.last.Type.String()
						}
						tr.Inject(*p.last)
					case "unknown":
						unknowns++
						m := message.Message{Code: codes.Content, Token: message.Token{0x99, 0x99}, Payload: []byte("nobody-asked")}
						if tr.Datagram() {
							m.Type, m.MessageID = message.NonConfirmable, tr.PeerMID()
						}
						tr.Inject(m)
					}
				}
			})
			return func() (string, []mcx.Finding) {
				var out []string
				gotBodies := map[string]int{}
				for i, cl := range callers {
					if cl == nil {
						continue
					}
					out = append(out, fmt.Sprintf("%d:%v/%v/%s", i, cl.done, cl.err != nil, cl.gotBody))
					if cl.done && cl.err != nil && c.Collide == "" && !cl.gaveUp &&
						(errors.Is(cl.err, coapErrors.ErrKeyAlreadyExists) || strings.Contains(cl.err.Error(), "invalid token")) {
						fail("distinct-token-request-rejected", "caller %d (token %x, distinct from all other tokens) was rejected: %v", i, []byte(cl.token), cl.err)
					}
					if !cl.done || cl.err != nil {
						continue
					}
					want := fmt.Sprintf("%x", []byte(cl.token))
					if cl.gotTok != want {
						fail("response-with-foreign-token", "caller %d (token %s) got a response carrying token %s", i, want, cl.gotTok)
					}
					owner, known := nonceOf[cl.gotBody]
					if !known {
						fail("response-content-not-from-peer", "caller %d got body %q which the peer never produced for any request", i, cl.gotBody)
					} else if c.Collide == "after" && owner != i && dupType[cl.gotBody] != "" {
						// classified: the second copy of a response of the finished exchange reached the request that re-uses its token
						fail("after-reuse/duplicate-"+dupType[cl.gotBody]+"-response-matched-by-token-only", "caller %d (re-using token %x after request %d had returned) got a second copy of the %s response the peer produced for request %d", i, []byte(cl.token), owner, dupType[cl.gotBody], owner)
						continue
					} else if string(callers[owner].token) != string(cl.token) || (c.Collide == "after" && owner != i) {
						fail("response-delivered-to-other-caller", "caller %d got the content the peer produced for request %d", i, owner)
					}
					gotBodies[cl.gotBody]++
					if gotBodies[cl.gotBody] > 1 {
						fail("response-delivered-to-two-callers", "the response %q was returned to two callers", cl.gotBody)
					}
				}
				switch c.Collide {
				case "after":
					re := callers[len(callers)-1]
					if re.done && re.err != nil && (errors.Is(re.err, coapErrors.ErrKeyAlreadyExists) || strings.Contains(re.err.Error(), "invalid token")) {
						fail("token-not-reusable-after-return", "a request reusing the token of a call that had returned was rejected: %v", re.err)
					}
				case "reuse":
					re := callers[len(callers)-1]
					if re.done && re.err == nil {
						fail("reused-token-not-rejected", "a second request with an outstanding token was accepted and returned %q", re.gotBody)
					}
					if re.done && re.err != nil && !errors.Is(re.err, coapErrors.ErrKeyAlreadyExists) && !strings.Contains(re.err.Error(), "invalid token") {
						fail("reused-token-unexpected-error", "second request with an outstanding token failed with %v", re.err)
					}
					if callers[0].done && callers[0].err != nil {
						fail("first-request-displaced", "the first request failed (%v) after a second request reused its token", callers[0].err)
					}
				case "race":
					okN := 0
					for _, cl := range callers[:2] {
						if cl.done && cl.err == nil {
							okN++
						}
					}
					if okN > 1 {
						fail("same-token-both-succeeded", "two concurrent requests with the same token both returned a response")
					}
				}
				sort.Strings(out)
				return strings.Join(hist, " ") + "|" + strings.Join(out, ","), fs
			}
		},
	}
}

func main() {
	r := ev.Start("C03", "model_checking")
	var scs []*mcx.Scenario
	probe := os.Getenv("VERIF_C03_PROBE") // sizing of tiers only: "transport,K,con,preempt,env"
	for _, t := range transports() {
		mk := t.mk
		if probe != "" {
			var tn string
			var k, p, e int
			var con bool
			f := strings.Split(probe, ",")
			tn = f[0]
			fmt.Sscan(f[1], &k)
			con = f[2] == "true"
			fmt.Sscan(f[3], &p)
			fmt.Sscan(f[4], &e)
			if t.name == tn {
				scs = append(scs, scenario(cfg{T: t.name, K: k, CON: con, Preempt: p, Env: e}, mk))
			}
			continue
		}
		if t.name == "dtls-session" {
			// same conn code as udp; what differs is the real dtls/server.Session (read loop, writes): a reduced set
			scs = append(scs, scenario(cfg{T: t.name, K: 2, CON: true, Preempt: 0, Env: 1}, mk))
			scs = append(scs, scenario(cfg{T: t.name, K: 2, CON: true, Collide: "reuse", Preempt: 0, Env: 0}, mk))
			scs = append(scs, scenario(cfg{T: t.name, K: 2, CON: true, Collide: "race", Preempt: ev.Pick(r, 0, 1), Env: 0}, mk))
			scs = append(scs, scenario(cfg{T: t.name, K: 1, CON: true, Collide: "after", Preempt: 0, Env: ev.Pick(r, 1, 2)}, mk))
			scs = append(scs, scenario(cfg{T: t.name, K: 2, CON: true, BlockWise: true, BigBody: true, Preempt: 0, Env: ev.Pick(r, 0, 1)}, mk))
			continue
		}
		for _, con := range t.cons {
			for _, bw := range []bool{false, true} {
				pb := 1
				if con && (bw || r.Lite()) && !r.Thorough() {
					pb = 0 // CON exchanges have ~4x the choice points; preemption bound 1 is left to the thorough tier and to NON
				}
				scs = append(scs, scenario(cfg{T: t.name, K: 2, CON: con, BlockWise: bw, Preempt: pb, Env: 1}, mk))
				scs = append(scs, scenario(cfg{T: t.name, K: 2, CON: con, BlockWise: bw, Collide: "reuse", Preempt: pb, Env: 0}, mk))
				scs = append(scs, scenario(cfg{T: t.name, K: 2, CON: con, BlockWise: bw, Collide: "race", Preempt: ev.Pick(r, 1, 2), Env: 0}, mk))
				scs = append(scs, scenario(cfg{T: t.name, K: 1, CON: con, BlockWise: bw, Collide: "after", Preempt: ev.Pick(r, 0, 1), Env: ev.Pick(r, 1, 2)}, mk))
				scs = append(scs, scenario(cfg{T: t.name, K: 1, CON: con, BlockWise: bw, Collide: "then", Preempt: ev.Pick(r, 0, 1), Env: ev.Pick(r, 1, 2)}, mk))
			}
			if r.Lite() && con {
				continue
			}
			scs = append(scs, scenario(cfg{T: t.name, K: 3, CON: con, TokFamily: true, Preempt: 0, Env: ev.Pick(r, 0, 1)}, mk))
			// (sizes measured: udp K=3 CON with preemption 1 exceeds 20 M executions even without deviations; preemption 0 / 1 deviation = 5.3 M)
			scs = append(scs, scenario(cfg{T: t.name, K: 3, CON: con, Preempt: ev.Pick(r, 0, map[bool]int{true: 0, false: 1}[con]), Env: ev.Pick(r, map[bool]int{true: 0, false: 1}[con], map[bool]int{true: 1, false: 2}[con])}, mk))
			scs = append(scs, scenario(cfg{T: t.name, K: 2, CON: con, BlockWise: true, BigBody: true, Preempt: ev.Pick(r, 0, 1), Env: 1}, mk))
			scs = append(scs, scenario(cfg{T: t.name, K: 2, CON: con, Large: true, Preempt: 0, Env: ev.Pick(r, 0, 1)}, mk))
			if r.Thorough() {
				// (CON exchanges have ~4x the choice points of NON ones: preemption 2 with one deviation, or two deviations with preemption 1)
				scs = append(scs, scenario(cfg{T: t.name, K: 2, CON: con, Preempt: 2, Env: map[bool]int{true: 0, false: 2}[con]}, mk))
				if con {
					scs = append(scs, scenario(cfg{T: t.name, K: 2, CON: con, Preempt: 1, Env: 2}, mk))
				}
			}
		}
	}
	addObserveCollide(r, &scs)
	sum := mcx.Explore(r, scs, mcx.Config{Wall: ev.Pick(r, 4*time.Minute, 30*time.Minute)})
	mcx.Report(r, scs, sum)
	r.Set("rule", "scenario = transport x callers (2-3, distinct tokens, or colliding tokens: reuse of an outstanding token / two callers racing with the same token) x CON|NON x block-wise on/off (incl. 3-block response bodies); the scripted peer answers each request it saw on the wire in every order with piggy-backed / empty-ACK-then-separate (CON or NON) responses, at most one duplicated and one unknown-token response per deviation budget; all schedules within the preemption bound; oracle: a successful Do returns its own token and the nonce the peer produced for that request, no nonce is returned twice, a reused outstanding token is rejected and the first caller still succeeds; distinct outcome = distinct (peer history, per-caller result); collide=after: a further caller re-uses the token of a call that has returned while second copies of the finished exchange's responses may still arrive (classified per duplicated message type)")
	r.Sample(map[string]any{"scenario": scs[0].Name, "peer_history": "ack(b0) piggy(b1) sepCON(b0) dup(b1)"})
	r.Assume("DTLS and TLS connections run the same udp/client.Conn and tcp/client.Conn code over pion/dtls and crypto/tls sockets, which are outside the explored code", "a call that never returns is a C09 matter; here it is still reported as a deadlock finding because the peer answers every request")
	r.Finish()
}

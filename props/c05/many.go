package main

import (
	"bytes"
	"fmt"
	"time"

	"github.com/plgd-dev/go-coap/v3/message"
	"github.com/plgd-dev/go-coap/v3/message/codes"
	"github.com/plgd-dev/go-coap/v3/message/pool"
	"github.com/plgd-dev/go-coap/v3/net/responsewriter"
	"github.com/plgd-dev/go-coap/v3/udp/client"

	"verif/mcx"
	"verif/vrt"
	"verif/worlds/udpw"
)

// The statement has no bound on how many exchanges fit into one lifetime: after n exchanges on one connection
// (n around the sizes a bounded table would plausibly have), all inside one EXCHANGE_LIFETIME, a copy of any
// of them - the first, the last, the ones around 1024 - is still answered from memory and not executed again.
func manyScenario(n int, con bool) *mcx.Scenario {
	name := fmt.Sprintf("dedup after %d exchanges within one lifetime, con=%v: a copy of an early / boundary / late request", n, con)
	return &mcx.Scenario{
		Name:   name,
		Bounds: mcx.Bounds{Preempt: 0, Env: -1, Select: 0},
		Opt:    vrt.Options{MaxSteps: 20000000},
		Body: func(s *vrt.Sched) func() (string, []mcx.Finding) {
			var fs []mcx.Finding
			desc := ""
			vrt.App("env", func() {
				calls := map[int32]int{}
				w := udpw.New(udpw.Opts{MaxRetransmit: 0, QueueSize: 4, LimitTotal: 4, LimitEndpoint: 4,
					Handler: func(rw *responsewriter.ResponseWriter[*client.Conn], r *pool.Message) {
						calls[r.MessageID()]++
						_ = rw.SetResponse(codes.Content, message.TextPlain, bytes.NewReader([]byte(fmt.Sprintf("mid-%d-run-%d", r.MessageID(), calls[r.MessageID()]))))
					}})
				typ := message.NonConfirmable
				if con {
					typ = message.Confirmable
				}
				req := func(i int) message.Message {
					return message.Message{Type: typ, Code: codes.GET, MessageID: int32(10000 + i), Token: message.Token{0xC5, byte(i >> 8), byte(i)}, Options: message.Options{{ID: message.URIPath, Value: []byte("r")}}}
				}
				first := map[int]string{}
				for i := 0; i < n; i++ {
					_ = w.Inject(req(i))
					if i%64 == 63 {
						vrt.Advance(time.Second) // about 100 s for the whole run: well inside the lifetime
					}
					vrt.Quiesce("env: exchange done")
					for _, o := range w.NewOuts() {
						if o.M.Code == codes.Content {
							first[i] = fmt.Sprintf("%v/%x/%s", o.M.Code, []byte(o.M.Token), o.M.Payload)
						}
					}
				}
				picks := []int{0, 1, n / 2, 1022, 1023, 1024, 1025, n - 2, n - 1}
				k := picks[vrt.Choose(len(picks), nil)]
				if k >= n || k < 0 {
					k = n - 1
				}
				desc = fmt.Sprintf("copy of request %d of %d", k, n)
				_ = w.Inject(req(k))
				vrt.Quiesce("env: copy handled")
				got := ""
				for _, o := range w.NewOuts() {
					if o.M.Code == codes.Content {
						got = fmt.Sprintf("%v/%x/%s", o.M.Code, []byte(o.M.Token), o.M.Payload)
					}
				}
				mid := int32(10000 + k)
				if calls[mid] != 1 {
					fs = append(fs, mcx.Finding{Sig: "many/duplicate-re-executed-handler", What: fmt.Sprintf("%s: %s ran the handler %d times", name, desc, calls[mid])})
				}
				if got != first[k] {
					fs = append(fs, mcx.Finding{Sig: "many/duplicate-answered-differently", What: fmt.Sprintf("%s: %s was answered %q, its first copy %q", name, desc, got, first[k])})
				}
			})
			return func() (string, []mcx.Finding) { return desc, fs }
		},
	}
}

#!/bin/bash
# Offline setup: pre-build the framework and warm the Go build cache (checks rebuild from /repo on every run).
set -e
build() { "$@" || { case " $(cat tools/ready.txt) " in *" $(echo $ID | tr a-z A-Z) "*) exit 1;; *) echo "warning: $ID (not claimed) failed to build";; esac; }; }
cd "$(dirname "$0")"
export GOFLAGS=-mod=mod GOPROXY=off
mkdir -p .build/bin evidence replays
go build -o .build/bin/vinst ./vinst
for d in props/*/; do
  id=$(basename $d); ID=$id
  if [ -f $d/PARTS ]; then
    .build/bin/vinst -repo /repo -out .build/inst-$id -variant $id >/dev/null
    for part in $(tr -d '+=' < $d/PARTS); do build go build -tags "verif verif$id" -overlay .build/inst-$id/overlay.json -o .build/bin/$id-$part ./props/$part; done
    build go build -o .build/bin/$id ./$d
  elif [ -f $d/INSTRUMENT ]; then
    v=$(cat $d/INSTRUMENT)
    [ -f .build/inst-$v/overlay.json ] || .build/bin/vinst -repo /repo -out .build/inst-$v -variant $v >/dev/null
    build go build -tags verif -overlay .build/inst-$v/overlay.json -o .build/bin/$id ./$d
  else
    build go build -o .build/bin/$id ./$d
  fi
done
for d in props/*/; do id=$(basename $d); [ -f $d/RACE ] && go build -race -o .build/bin/$id-race ./$d/race; done
echo setup ok

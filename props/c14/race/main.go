// Free-running race pass for C14 (supplementary, DESIGN §3.2.7): the whole API of pkg/sync.Map and
// pkg/cache.Cache from real goroutines on the UNINSTRUMENTED packages under `-race`. The cooperative
// explorer places scheduling points at synchronisation operations only, so an access that has lost its
// lock is invisible to it; the race detector sees exactly that. Sampling: it can only ADD a violation.
package main

import (
	"fmt"
	"os"
	"strconv"
	"sync"
	"time"

	"github.com/plgd-dev/go-coap/v3/pkg/cache"
	coapSync "github.com/plgd-dev/go-coap/v3/pkg/sync"
)

func main() {
	iters := 20000
	if len(os.Args) > 1 {
		iters, _ = strconv.Atoi(os.Args[1])
	}
	m := coapSync.NewMap[int, int]()
	c := cache.NewCache[int, int]()
	now := time.Now()
	var wg sync.WaitGroup
	run := func(f func(i int)) {
		wg.Add(1)
		go func() {
			defer wg.Done()
			for i := 0; i < iters; i++ {
				f(i)
			}
		}()
	}
	run(func(i int) { m.Store(i%4, i) })
	run(func(i int) { _, _ = m.Load(i % 4) })
	run(func(i int) { _, _ = m.LoadOrStore(i%4, i) })
	run(func(i int) { _, _ = m.Replace(i%4, i) })
	run(func(i int) { m.Delete(i % 4) })
	run(func(i int) { _, _ = m.LoadAndDelete(i % 4) })
	run(func(i int) {
		if i%64 == 0 {
			_ = m.LoadAndDeleteAll()
		}
		_ = m.CopyData()
		_ = m.Length()
	})
	run(func(i int) {
		m.Range(func(k, v int) bool { return true })
		m.Range2(func(k, v int) bool { return true })
	})
	run(func(i int) {
		m.StoreWithFunc(i%4, func() int { return i })
		_, _ = m.LoadWithFunc(i%4, func(v int) int { return v })
		_, _ = m.LoadOrStoreWithFunc(i%4, func(v int) int { return v }, func() int { return i })
	})
	run(func(i int) {
		_, _ = m.ReplaceWithFunc(i%4, func(old int, ok bool) (int, bool) { return old + 1, i%3 == 0 })
		m.DeleteWithFunc(i%4, func(int) {})
		_, _ = m.LoadAndDeleteWithFunc(i%4, func(v int) int { return v })
	})
	// cache: elements that are expired, about to expire, and everlasting
	el := func(i int) *cache.Element[int] {
		switch i % 3 {
		case 0:
			return cache.NewElement(i, now.Add(-time.Second), func(int) {})
		case 1:
			return cache.NewElement(i, now.Add(time.Hour), nil)
		}
		return cache.NewElement(i, time.Time{}, nil)
	}
	run(func(i int) { _, _ = c.LoadOrStore(i%4, el(i)) })
	run(func(i int) { _, _ = c.LoadOrStore(i%4, el(i+1)) })
	run(func(i int) {
		if e := c.Load(i % 4); e != nil {
			_ = e.Data()
			_ = e.IsExpired(now)
		}
	})
	run(func(i int) { c.Delete(i % 4) })
	run(func(i int) { _, _ = c.LoadAndDelete(i % 4) })
	run(func(i int) { c.CheckExpirations(now) })
	run(func(i int) { c.Range(func(k int, e *cache.Element[int]) bool { _ = e.Data(); return true }) })
	wg.Wait()
	fmt.Printf("race-pass: %d iterations x 17 goroutines, no race reported\n", iters)
}

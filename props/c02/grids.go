package main

import (
	"bytes"
	"encoding/hex"
	"fmt"
	"os"
	"runtime"
	"slices"
	"strings"
	"sync"
	"time"

	ref "verif/props/codecref"

	"verif/ev"
)

// ---------------------------------------------------------------------------------------------
// alphabets

var nibA1 = []byte{0, 1, 12, 13, 14, 15}
var nibA2 = []byte{0, 1, 2, 12, 13, 14, 15}

func alphabet(nibs []byte, extra ...byte) []byte {
	var a []byte
	for _, hi := range nibs {
		for _, lo := range nibs {
			a = append(a, hi<<4|lo)
		}
	}
	for _, e := range extra {
		if !bytes.Contains(a, []byte{e}) {
			a = append(a, e)
		}
	}
	slices.Sort(a)
	return a
}

var (
	alphaA1 = alphabet(nibA1, 0x22, 0x61) // 38 bytes: option headers with boundary nibbles, marker, two data bytes
	alphaA2 = alphabet(nibA2, 0x44, 0x61) // 51 bytes: adds nibble 2 (signalling option numbers 2 and 4 directly)
	inA1    = func() (t [256]bool) {
		for _, b := range alphaA1 {
			t[b] = true
		}
		return
	}()
	inA2 = func() (t [256]bool) {
		for _, b := range alphaA2 {
			t[b] = true
		}
		return
	}()
)

var tokenBytes = []byte{0xa0, 0xa1, 0xa2, 0xa3, 0xa4, 0xa5, 0xa6, 0xa7, 0xa8, 0xa9, 0xaa, 0xab, 0xac, 0xad, 0xae}

// ---------------------------------------------------------------------------------------------
// deep grids: header class + every tail of length <= L over an alphabet

type deepClass struct {
	coder string
	head  []byte // udp: 4-byte header + token; tcp: code + token (the Len/TKL byte is derived from the tail length)
	tkl   int
	dLen  int // tcp: Len nibble = tail length + dLen
}

type deepGrid struct {
	name    string
	classes []deepClass
	alpha   []byte
	maxLen  int
	skipA1  bool // skip tails lying completely inside A1 (they belong to the A1 grid)
}

var deepGrids []deepGrid // set by main, read by inDeep

func udpClass(b0, code byte) deepClass {
	tkl := int(b0 & 15)
	h := []byte{b0, code, 0x12, 0x34}
	h = append(h, tokenBytes[:tkl]...)
	return deepClass{coder: "udp", head: h, tkl: tkl}
}

func tcpClass(tkl int, code byte, dLen int) deepClass {
	h := []byte{code}
	h = append(h, tokenBytes[:tkl]...)
	return deepClass{coder: "tcp", head: h, tkl: tkl, dLen: dLen}
}

// build writes the string for (class, tail) into buf and returns it; ok=false if the class
// cannot express this tail length (negative Len nibble).
func (c *deepClass) build(buf []byte, tail []byte) ([]byte, bool) {
	buf = buf[:0]
	if c.coder == "tcp" {
		ln := len(tail) + c.dLen
		if ln < 0 || ln > 12 {
			return nil, false
		}
		buf = append(buf, byte(ln)<<4|byte(c.tkl))
	}
	buf = append(buf, c.head...)
	buf = append(buf, tail...)
	return buf, true
}

// member tells whether data is a string of this class with a tail over alpha of length <= maxLen.
func (g *deepGrid) member(coder string, data []byte) bool {
	tab := &inA1
	if len(g.alpha) == len(alphaA2) {
		tab = &inA2
	}
	for i := range g.classes {
		c := &g.classes[i]
		if c.coder != coder {
			continue
		}
		off := 0
		if coder == "tcp" {
			off = 1
		}
		if len(data) < off+len(c.head) || !bytes.Equal(data[off:off+len(c.head)], c.head) {
			continue
		}
		tail := data[off+len(c.head):]
		if len(tail) > g.maxLen {
			continue
		}
		if coder == "tcp" {
			ln := len(tail) + c.dLen
			if ln < 0 || ln > 12 || data[0] != byte(ln)<<4|byte(c.tkl) {
				continue
			}
		}
		ok, allA1 := true, true
		for _, b := range tail {
			ok = ok && tab[b]
			allA1 = allA1 && inA1[b]
		}
		if ok && !(g.skipA1 && allA1) {
			return true
		}
	}
	return false
}

func inDeep(coder string, data []byte) bool {
	for i := range deepGrids {
		if deepGrids[i].member(coder, data) {
			return true
		}
	}
	return false
}

// run walks the grid: for each tail length (shortest first) every tail, sharded by index range,
// every class for each tail.
func (g *deepGrid) run(workers []*worker, poolLen int) int64 {
	nw := len(workers)
	var total int64
	var mu sync.Mutex
	A := len(g.alpha)
	for l := 0; l <= g.maxLen; l++ {
		count := 1
		for i := 0; i < l; i++ {
			count *= A
		}
		ev.Parallel(nw, func(sh int) {
			w := workers[sh]
			lo, hi := count*sh/nw, count*(sh+1)/nw
			if lo >= hi {
				return
			}
			w.slot.Resume()
			defer w.slot.End()
			digits := make([]int, l)
			tail := make([]byte, l)
			for i, v := l-1, lo; i >= 0; i-- {
				digits[i] = v % A
				v /= A
			}
			buf := make([]byte, 0, 64)
			var n int64
			for idx := lo; idx < hi; idx++ {
				allA1 := true
				for i, d := range digits {
					tail[i] = g.alpha[d]
					allA1 = allA1 && inA1[tail[i]]
				}
				if !(g.skipA1 && allA1) {
					flags := fDeep | fPool
					if l <= poolLen {
						flags |= fFullStates
					}
					for ci := range g.classes {
						s, ok := g.classes[ci].build(buf, tail)
						if !ok {
							continue
						}
						n++
						w.check(g.classes[ci].coder, s, flags)
					}
				}
				for i := l - 1; i >= 0; i-- { // odometer
					digits[i]++
					if digits[i] < A {
						break
					}
					digits[i] = 0
				}
			}
			mu.Lock()
			total += n
			mu.Unlock()
		})
	}
	return total
}

// ---------------------------------------------------------------------------------------------
// corpus of reference encodings (built with the reference encoder, not with the library)

type corpusMsg struct {
	name string
	m    ref.Msg
}

func val(n int, seed int) []byte {
	b := make([]byte, n)
	for i := range b {
		b[i] = byte(i*37 + seed*11 + 0x61)
	}
	return b
}

func corpus() []corpusMsg {
	var c []corpusMsg
	add := func(name string, m ref.Msg) { c = append(c, corpusMsg{name, m}) }
	o := func(num, n int) ref.Opt { return ref.Opt{Num: num, Val: val(n, num)} }
	tok := func(n int) []byte { return tokenBytes[:n] }
	add("empty", ref.Msg{Type: 0, MID: 1, Code: 0})
	add("get", ref.Msg{Type: 0, MID: 0x1234, Code: 1, Token: tok(1)})
	add("token8+payload", ref.Msg{Type: 1, MID: 0xffff, Code: 0x45, Token: tok(8), Payload: []byte{0xff}})
	add("one-option", ref.Msg{Type: 0, MID: 2, Code: 1, Opts: []ref.Opt{o(11, 1)}})
	add("typical", ref.Msg{Type: 2, MID: 3, Code: 0x45, Token: tok(2), Opts: []ref.Opt{o(1, 0), o(11, 13), o(11, 0), o(60, 4)}, Payload: []byte("abc")})
	add("delta-classes", ref.Msg{Type: 0, MID: 4, Code: 2, Opts: []ref.Opt{o(13, 0), o(270, 1), o(2000, 2)}})
	add("delta-65535", ref.Msg{Type: 3, MID: 5, Code: 2, Opts: []ref.Opt{o(65535, 1)}})
	add("len-12-13", ref.Msg{Type: 0, MID: 6, Code: 1, Opts: []ref.Opt{o(11, 12), o(11, 13), o(15, 14)}})
	add("repeated", ref.Msg{Type: 0, MID: 7, Code: 1, Token: tok(4), Opts: []ref.Opt{o(11, 1), o(11, 1), o(11, 1)}, Payload: []byte{0, 1}})
	add("illegal-length-registered", ref.Msg{Type: 0, MID: 8, Code: 1, Opts: []ref.Opt{o(4, 0), o(12, 3), o(14, 5), o(60, 1)}})
	add("value-with-ff", ref.Msg{Type: 0, MID: 9, Code: 1, Opts: []ref.Opt{{Num: 11, Val: []byte{0xff, 0xff}}, {Num: 2000, Val: []byte{0xff}}}, Payload: []byte{0xff, 0xff}})
	add("proxy-uri-268", ref.Msg{Type: 0, MID: 10, Code: 1, Opts: []ref.Opt{o(35, 268)}})
	add("proxy-uri-269", ref.Msg{Type: 0, MID: 11, Code: 1, Opts: []ref.Opt{o(35, 269)}})
	add("proxy-uri-270+more", ref.Msg{Type: 0, MID: 12, Code: 1, Token: tok(3), Opts: []ref.Opt{o(35, 270), o(39, 1)}, Payload: []byte("x")})
	add("proxy-uri-1034", ref.Msg{Type: 0, MID: 13, Code: 1, Opts: []ref.Opt{o(35, 1034)}})
	add("20-options", ref.Msg{Type: 0, MID: 14, Code: 1, Opts: repeatOpt(11, []byte("p"), 20)})
	add("40-options", ref.Msg{Type: 0, MID: 15, Code: 1, Opts: repeatOpt(15, []byte("q=1"), 40), Payload: []byte("z")})
	for _, body := range []int{12, 13, 14, 268, 269, 270} { // stream length classes through the payload
		add(fmt.Sprintf("stream-body-%d", body), ref.Msg{Type: 1, MID: 16, Code: 2, Token: tok(1), Opts: []ref.Opt{o(12, 1)}, Payload: val(body-3, body)})
	}
	add("csm", ref.Msg{Code: 0xe1, Opts: []ref.Opt{o(2, 4), o(4, 0)}})
	add("csm-illegal", ref.Msg{Code: 0xe1, Opts: []ref.Opt{o(2, 5), o(4, 1)}})
	add("ping-custody", ref.Msg{Code: 0xe2, Token: tok(2), Opts: []ref.Opt{o(2, 0)}})
	add("pong", ref.Msg{Code: 0xe3, Token: tok(2)})
	add("release", ref.Msg{Code: 0xe4, Opts: []ref.Opt{o(2, 9), o(2, 1), o(4, 3)}})
	add("abort", ref.Msg{Code: 0xe5, Opts: []ref.Opt{o(2, 2)}, Payload: []byte("diag")})
	// every list of <= 2 options over 12 small elements x token {0,2} x payload {0,2}
	el := [][2]int{{1, 0}, {4, 1}, {11, 0}, {11, 1}, {11, 13}, {12, 2}, {13, 0}, {60, 4}, {258, 1}, {270, 1}, {2000, 2}, {65535, 1}}
	for i := -1; i < len(el); i++ {
		for j := -1; j < len(el); j++ {
			var opts []ref.Opt
			if i >= 0 {
				if j >= 0 && el[j][0] < el[i][0] {
					continue
				}
				opts = append(opts, o(el[i][0], el[i][1]))
			} else if j >= 0 {
				continue
			}
			if i >= 0 && j >= 0 {
				opts = append(opts, o(el[j][0], el[j][1]))
			}
			for _, tl := range []int{0, 2} {
				for _, pl := range []int{0, 2} {
					add(fmt.Sprintf("list-%d-%d-t%d-p%d", i, j, tl, pl), ref.Msg{Type: 1, MID: 0x0102, Code: 3, Token: tok(tl), Opts: opts, Payload: val(pl, 7)})
				}
			}
		}
	}
	// large messages
	add("big-option-65804", ref.Msg{Type: 0, MID: 17, Code: 2, Token: tok(1), Opts: []ref.Opt{o(13, 65804)}})
	add("big-options+payload", ref.Msg{Type: 0, MID: 18, Code: 2, Opts: []ref.Opt{o(2000, 65804), o(2001, 1)}, Payload: []byte("tail")})
	add("big-payload-65804", ref.Msg{Type: 0, MID: 19, Code: 2, Payload: val(65804, 3)})
	add("big-payload-65805", ref.Msg{Type: 0, MID: 20, Code: 2, Token: tok(8), Payload: val(65805, 4)})
	return c
}

// structural offsets of an encoding: message header, token, every option header (with one byte
// of context on each side), payload marker, first and last bytes of every value, last bytes.
func structuralOffsets(enc []byte, coder string) []int {
	mark := make([]bool, len(enc))
	set := func(i int) {
		for j := i - 1; j <= i+1; j++ {
			if j >= 0 && j < len(enc) {
				mark[j] = true
			}
		}
	}
	body := 0
	if coder == "udp" {
		body = 4 + int(enc[0]&15)
	} else {
		body = ref.ParseStreamHeader(enc).HdrLen
	}
	for i := 0; i < body; i++ {
		set(i)
	}
	i := body
	for i < len(enc) {
		set(i)
		if enc[i] == 0xff {
			set(i + 1)
			break
		}
		d, l := int(enc[i]>>4), int(enc[i]&15)
		i++
		for _, nb := range []int{d, l} {
			n := 0
			if nb == 13 {
				n = 1
			} else if nb == 14 {
				n = 2
			}
			for k := 0; k < n; k++ {
				set(i + k)
			}
			if nb == l && n > 0 {
				if n == 1 {
					l = 13 + int(enc[i])
				} else {
					l = 269 + int(enc[i])<<8 + int(enc[i+1])
				}
			}
			i += n
		}
		set(i)
		i += l
		set(i - 1)
	}
	for j := len(enc) - 3; j < len(enc); j++ {
		set(j)
	}
	var out []int
	for j, m := range mark {
		if m {
			out = append(out, j)
		}
	}
	return out
}

// ---------------------------------------------------------------------------------------------

type grids struct {
	r       *ev.Run
	workers []*worker
	sizes   map[string]int64
}

// items runs f over a list of n independent work items, item i on worker i%nw.
func (g *grids) items(name string, n int, f func(w *worker, i int) int64) {
	t0 := time.Now()
	nw := len(g.workers)
	var mu sync.Mutex
	var total int64
	ev.Parallel(nw, func(sh int) {
		var s int64
		g.workers[sh].slot.Resume()
		for i := sh; i < n; i += nw {
			s += f(g.workers[sh], i)
		}
		g.workers[sh].slot.End()
		mu.Lock()
		total += s
		mu.Unlock()
	})
	g.sizes[name] = total
	fmt.Fprintf(os.Stderr, "  grid %-38s %12d strings %7.1fs\n", name, total, time.Since(t0).Seconds())
}

func main() {
	if ev.HasFlag("probe") {
		probeChild()
		return
	}
	if p := ev.Arg("replay"); p != "" {
		replay(p)
		return
	}
	r := ev.Start("C02", "exploration")
	nw := runtime.NumCPU()
	start := time.Now()
	g := &grids{r: r, sizes: map[string]int64{}}
	slots := make([]*ref.Slot, nw)
	for i := 0; i < nw; i++ {
		g.workers = append(g.workers, newWorker(r))
		slots[i] = g.workers[i].slot
	}
	var once sync.Once
	ref.Watch(slots, 20*time.Second, func(sig, what string, rep any) {
		once.Do(func() {
			r.Violate(sig, what, rep)
			r.Set("aborted_by_watchdog", true)
			g.finish(false, nil)
		})
	})

	// ---- P: non-termination probes for the pooled path, each in a killable child process
	var skipped []string
	probeInputs := []replayCase{
		{Coder: "udp", Input: "40010001"},     // no option
		{Coder: "udp", Input: "40010001b161"}, // one option
		{Coder: "udp", Input: "4001000100"},   // one option that is dropped (number 0)
		{Coder: "tcp", Input: "2001b161"},     // one option
	}
	t0 := time.Now()
	var probes int64
	var pmu sync.Mutex
	var pwg sync.WaitGroup
	hangs := map[string]int{}
	var hung_ []replayCase
	for _, st := range allStates {
		for _, pi := range probeInputs {
			pi.State = st
			probes++
			pwg.Add(1)
			go func() {
				defer pwg.Done()
				if hung, _ := probe(pi); hung {
					pmu.Lock()
					hangs[pi.State]++
					hung_ = append(hung_, pi)
					pmu.Unlock()
				}
			}()
		}
	}
	pwg.Wait()
	slices.SortFunc(hung_, func(a, b replayCase) int {
		if len(a.Input) != len(b.Input) {
			return len(a.Input) - len(b.Input)
		}
		return strings.Compare(a.Coder+a.Input+a.State, b.Coder+b.Input+b.State)
	})
	for _, pi := range hung_ {
		data, _ := hex.DecodeString(pi.Input)
		r.Violate("pool-unmarshal-never-returns/options-capacity-0",
			fmt.Sprintf("pool.Message.UnmarshalWithDecoder(%s) on a %s pooled message did not return within %v (child process killed); input(%s)=%s", pi.Coder, pi.State, probeTimeout, pi.Coder, ref.Hex(data)), pi)
	}
	for _, st := range allStates {
		if hangs[st] > 0 {
			skipped = append(skipped, st)
		}
	}
	g.sizes["P hang probes (child processes)"] = probes
	fmt.Fprintf(os.Stderr, "  grid %-38s %12d strings %7.1fs  skipped states: %v\n", "P hang probes", probes, time.Since(t0).Seconds(), skipped)
	var states []string
	for _, st := range allStates {
		if !slices.Contains(skipped, st) {
			states = append(states, st)
		}
	}
	for _, w := range g.workers {
		w.states = states
	}
	r.Sample(map[string]any{"grid": "P", "coder": "udp", "state": stCap0, "input_hex": "40010001b161"})

	L := ev.Pick(r, 4, 5)
	// deep grids are declared before anything runs: inDeep() is used for distinct counting
	// udp: first byte (version 1; type/TKL 0/0, 1/1, 2/8, 3/2) x code {GET, 2.05, 7.01}
	var udpDeep []deepClass
	for _, b0 := range []byte{0x40, 0x51, 0x68, 0x72} {
		for _, code := range []byte{0x01, 0x45, 0xe1} {
			udpDeep = append(udpDeep, udpClass(b0, code))
		}
	}
	// tcp: TKL {0,8} x code {GET, 2.05, CSM, Ping, Release, Abort} with Len = tail length, plus
	// Len one less / one more than the tail (a trailing byte / a truncated frame)
	var tcpDeep []deepClass
	for _, tkl := range []int{0, 8} {
		for _, code := range []byte{0x01, 0x45, 0xe1, 0xe2, 0xe4, 0xe5} {
			tcpDeep = append(tcpDeep, tcpClass(tkl, code, 0))
		}
	}
	tcpDeep = append(tcpDeep, tcpClass(0, 0x01, -1), tcpClass(0, 0x01, 1))
	deepGrids = []deepGrid{{name: fmt.Sprintf("D1 tails<=%d over A1(38)", L), classes: append(append([]deepClass{}, udpDeep...), tcpDeep...), alpha: alphaA1, maxLen: L}}
	if r.Thorough() {
		deepGrids = append(deepGrids, deepGrid{name: "D2 tails<=4 over A2(51) not in A1", classes: deepGrids[0].classes, alpha: alphaA2, maxLen: 4, skipA1: true})
	}

	// ---- H: header sweeps
	// udp: every first byte x every code x 2 MIDs x full token x tails of length <= 1 over A1
	g.items("H1 udp header sweep", 256, func(w *worker, b0 int) int64 {
		var n int64
		buf := make([]byte, 0, 64)
		for code := 0; code < 256; code++ {
			for _, mid := range []uint16{0, 0xffff} {
				head := append(buf[:0], byte(b0), byte(code), byte(mid>>8), byte(mid))
				head = append(head, tokenBytes[:b0&15]...)
				w.check("udp", head, fFullStates)
				n++
				for _, t := range alphaA1 {
					s := append(head, t)
					w.check("udp", s, fPool)
					n++
				}
			}
		}
		return n
	})
	// udp: every prefix of every header+token
	g.items("H2 udp header prefixes", 256, func(w *worker, b0 int) int64 {
		var n int64
		full := append([]byte{byte(b0), 0x01, 0xab, 0xcd}, tokenBytes[:b0&15]...)
		for l := 0; l < len(full); l++ {
			w.check("udp", full[:l], fFullStates)
			n++
		}
		return n
	})
	r.Sample(map[string]any{"grid": "H1", "coder": "udp", "input_hex": "49010000a0a1a2a3a4a5a6a7a8", "reference": "reject: tkl>8"})

	// tcp: every string of length <= 3 over the full byte alphabet
	g.items("T1 tcp all strings <= 3 bytes", 256*256+1, func(w *worker, i int) int64 {
		if i == 256*256 {
			w.check("tcp", nil, fFullStates)
			for b := 0; b < 256; b++ {
				w.check("tcp", []byte{byte(b)}, fFullStates)
			}
			return 257
		}
		s := []byte{byte(i >> 8), byte(i), 0}
		w.check("tcp", s[:2], fFullStates)
		for b := 0; b < 256; b++ {
			s[2] = byte(b)
			w.check("tcp", s, fPool)
		}
		return 257
	})
	r.Sample(map[string]any{"grid": "T1", "coder": "tcp", "input_hex": "1001ff", "reference": "accept: code 1, payload marker followed by nothing = no payload"})

	// tcp: every first byte x extended-length patterns x codes x bodies of the announced length (and +-1)
	ext32 := []uint32{0, 1, 0xff, 0x100, 0xffff, 0x10000, 0x7ffefef2, 0x7ffefef3, 0x7ffefef4, 0x7fffffff, 0x80000000, 0xfffffffe, 0xffffffff}
	for e := uint32(0xfffefee0); e <= 0xfffefef4; e++ {
		ext32 = append(ext32, e)
	}
	g.items("T2 tcp header sweep", 256, func(w *worker, b0 int) int64 {
		var n int64
		ln, tkl := b0>>4, b0&15
		var exts [][]byte
		var bodies []uint64
		switch ln {
		case 13:
			for _, e := range []byte{0, 1, 0xfe, 0xff} {
				exts = append(exts, []byte{e})
				bodies = append(bodies, 13+uint64(e))
			}
		case 14:
			for _, e := range []uint16{0, 1, 0xff, 0x100, 0xfffe, 0xffff} {
				exts = append(exts, []byte{byte(e >> 8), byte(e)})
				bodies = append(bodies, 269+uint64(e))
			}
		case 15:
			for _, e := range ext32 {
				exts = append(exts, []byte{byte(e >> 24), byte(e >> 16), byte(e >> 8), byte(e)})
				bodies = append(bodies, 65805+uint64(e))
			}
		default:
			exts = append(exts, nil)
			bodies = append(bodies, uint64(ln))
		}
		for xi, ext := range exts {
			for _, code := range []byte{0x01, 0xe1, 0xff} {
				head := append([]byte{byte(b0)}, ext...)
				head = append(head, code)
				head = append(head, tokenBytes[:tkl]...)
				// every prefix of the header
				for l := 1; l <= len(head); l++ {
					w.check("tcp", head[:l], fFullStates)
					n++
				}
				// bodies: announced length, one less, one more; for lengths that cannot be
				// supplied (>= 2^18) the announced length modulo 2^32 as well (what a wrapped
				// length field would ask for)
				want := bodies[xi]
				var lens []uint64
				for _, d := range []int64{-1, 0, 1} {
					if int64(want)+d >= 0 {
						lens = append(lens, uint64(int64(want)+d))
					}
				}
				lens = append(lens, uint64(uint32(want))) // body length after a 32-bit wrap of the length field
				if wt := uint64(uint32(want) + uint32(len(head))); wt >= uint64(len(head)) {
					lens = append(lens, wt-uint64(len(head))) // ... after a 32-bit wrap of the frame length
				} else {
					lens = append(lens, 0)
				}
				seen := map[uint64]bool{}
				for _, bl := range lens {
					if bl > 70000 || seen[bl] {
						continue
					}
					seen[bl] = true
					for variant := 0; variant < 2; variant++ {
						s := append([]byte{}, head...)
						if variant == 0 { // options of number 1,2,3.. with empty values
							s = append(s, bytes.Repeat([]byte{0x10}, int(bl))...)
						} else if bl >= 1 { // marker + payload
							s = append(s, 0xff)
							s = append(s, bytes.Repeat([]byte{0x61}, int(bl)-1)...)
						} else {
							continue
						}
						fl := fPool
						if len(s) > 2000 {
							fl = 0
						}
						w.check("tcp", s, fl)
						n++
					}
				}
			}
		}
		return n
	})
	r.Sample(map[string]any{"grid": "T2", "coder": "tcp", "input_hex": "f0fffefeed01", "reference": "header announces a frame of exactly 2^32 bytes"})

	// ---- D: deep grids
	for i := range deepGrids {
		t0 := time.Now()
		n := deepGrids[i].run(g.workers, 2)
		g.sizes[deepGrids[i].name] = n
		fmt.Fprintf(os.Stderr, "  grid %-38s %12d strings %7.1fs\n", deepGrids[i].name, n, time.Since(t0).Seconds())
	}
	r.Sample(map[string]any{"grid": "D1", "coder": "udp", "input_hex": "40011234d00011ff", "reference": "accept: option 13 (empty), option 14 with 1-byte value ff"})
	r.Sample(map[string]any{"grid": "D1", "coder": "tcp", "input_hex": "30e1101161", "reference": "accept: CSM, option 1 (empty), option 2 = 61"})

	// ---- N: neighbourhoods of the corpus
	cp := corpus()
	type enc struct {
		name, coder string
		b           []byte
	}
	var encs []enc
	for i := range cp {
		encs = append(encs, enc{cp[i].name, "udp", ref.AppendDatagram(nil, &cp[i].m)}, enc{cp[i].name, "tcp", ref.AppendStream(nil, &cp[i].m)})
	}
	r.Set("corpus_messages", int64(len(cp)))
	fullLimit := ev.Pick(r, 320, 1400)
	g.items("N0 corpus encodings", len(encs), func(w *worker, i int) int64 {
		fl := fFullStates
		if len(encs[i].b) > 4000 {
			fl = fPool
		}
		w.check(encs[i].coder, encs[i].b, fl)
		return 1
	})
	// truncation at every offset (work item = encoding x block of offsets)
	type job struct{ e, lo, hi int }
	var jobs []job
	for i, e := range encs {
		for lo := 0; lo < len(e.b); lo += 2048 {
			jobs = append(jobs, job{i, lo, min(lo+2048, len(e.b))})
		}
	}
	g.items("N1 corpus truncated at every offset", len(jobs), func(w *worker, j int) int64 {
		e := encs[jobs[j].e]
		for l := jobs[j].lo; l < jobs[j].hi; l++ {
			fl := 0
			if l <= 400 {
				fl = fFullStates
			}
			w.check(e.coder, e.b[:l], fl)
		}
		return int64(jobs[j].hi - jobs[j].lo)
	})
	// one extra byte appended (every value): stream decoders must leave it to the next frame
	g.items("N2 corpus + 1 trailing byte (256 values)", len(encs), func(w *worker, i int) int64 {
		e := encs[i]
		if len(e.b) > fullLimit {
			return 0
		}
		s := append(append([]byte{}, e.b...), 0)
		for v := 0; v < 256; v++ {
			s[len(s)-1] = byte(v)
			w.check(e.coder, s, fPool)
		}
		return 256
	})
	// Hamming-1: every offset (structural offsets for large encodings) x all 256 values
	jobs = jobs[:0]
	offsets := make([][]int, len(encs))
	for i, e := range encs {
		if len(e.b) <= fullLimit {
			for o := range e.b {
				offsets[i] = append(offsets[i], o)
			}
		} else {
			offsets[i] = structuralOffsets(e.b, e.coder)
		}
		for lo := 0; lo < len(offsets[i]); lo += 16 {
			jobs = append(jobs, job{i, lo, min(lo+16, len(offsets[i]))})
		}
	}
	g.items("N3 corpus Hamming-1 (all 256 values)", len(jobs), func(w *worker, j int) int64 {
		e := encs[jobs[j].e]
		s := append([]byte{}, e.b...)
		var n int64
		for _, o := range offsets[jobs[j].e][jobs[j].lo:jobs[j].hi] {
			orig := s[o]
			for v := 0; v < 256; v++ {
				if byte(v) == orig {
					continue
				}
				s[o] = byte(v)
				fl := fPool
				if len(s) > 4000 {
					fl = 0
				}
				w.check(e.coder, s, fl)
				n++
			}
			s[o] = orig
		}
		return n
	})
	r.Sample(map[string]any{"grid": "N3", "coder": "tcp", "base": "typical", "input_hex": hex.EncodeToString(func() []byte {
		b := ref.AppendStream(nil, &cp[4].m)
		b[0] ^= 0x0b
		return b
	}()), "note": "first byte substituted so that TKL becomes 9"})
	if r.Thorough() {
		// Hamming-2 over A1 for encodings of at most 16 bytes
		jobs = jobs[:0]
		for i, e := range encs {
			if len(e.b) <= 16 {
				for o := range e.b {
					jobs = append(jobs, job{i, o, 0})
				}
			}
		}
		g.items("N4 corpus Hamming-2 over A1 (<=16 bytes)", len(jobs), func(w *worker, j int) int64 {
			e := encs[jobs[j].e]
			s := append([]byte{}, e.b...)
			o1 := jobs[j].lo
			var n int64
			for _, v1 := range alphaA1 {
				if v1 == e.b[o1] {
					continue
				}
				s[o1] = v1
				for o2 := o1 + 1; o2 < len(s); o2++ {
					for _, v2 := range alphaA1 {
						if v2 == e.b[o2] {
							continue
						}
						s[o2] = v2
						w.check(e.coder, s, fPool)
						n++
					}
					s[o2] = e.b[o2]
				}
			}
			return n
		})
	}

	r.Set("wall_enumeration_s", float64(int(time.Since(start).Seconds()*10))/10)
	g.finish(len(skipped) == 0, skipped)
}

func (g *grids) finish(exhaustive bool, skipped []string) {
	r := g.r
	flush(g.workers, r)
	var evals, calls, deep int64
	var all []uint64
	for _, w := range g.workers {
		evals += w.evals
		calls += w.calls
		deep += w.nontrivDeep
		all = append(all, w.hashes...)
	}
	slices.Sort(all)
	var distinct int64
	for i := range all {
		if i == 0 || all[i] != all[i-1] {
			distinct++
		}
	}
	r.Set("evaluations", evals)
	r.Set("library_calls", calls)
	r.Set("distinct_nontrivial", deep+distinct)
	r.Set("distinct_nontrivial_deep_grids", deep)
	r.Set("distinct_nontrivial_other_grids", distinct)
	r.Set("exhaustive", exhaustive)
	if len(skipped) > 0 {
		r.Set("skipped_pooled_states", fmt.Sprint(skipped))
		r.Set("skipped_reason", "a probe in this pooled start state never returned (reported as a violation); walking the state in-process would hang the check, so the grid was walked without it and exhaustive is false")
	}
	gs := map[string]any{}
	for k, v := range g.sizes {
		gs[k] = v
	}
	r.Set("grid_sizes", gs)
	r.Set("rule", "strings x {udp,tcp} decoders. P = 4 inputs x 6 pooled start states in killable child processes (non-termination). H1 = udp: all 256 first bytes x all 256 codes x MID {0,ffff} x full token x tails of length <=1 over A1; H2 = every prefix of every udp header+token; T1 = tcp: every string of <=3 bytes over all 256 byte values; T2 = tcp: all 256 first bytes x extended-length patterns (incl. every value around 2^32-65805) x 3 codes x every header prefix x bodies of the announced length -1/0/+1 (two shapes). D1 = 26 header classes (udp: first byte {40,51,68,72} x code {01,45,e1}, MID 1234, full token; tcp: TKL {0,8} x code {01,45,e1,e2,e4,e5} with Len nibble = tail length, plus TKL 0/code 01 with Len = tail length -1 and +1) x every tail of length <= L (4 quick / 5 thorough) over A1 = {0,1,c,d,e,f}^2 nibbles + {22,61} (38 bytes); thorough D2 = same classes x tails <=4 over A2 = {0,1,2,c,d,e,f}^2 + {44,61} (51 bytes) with a byte outside A1. N = corpus of reference encodings (hand-picked boundary messages, every list of <=2 options over 12 elements x token {0,2} x payload {0,2}, 4 messages of ~65 kB; each in both framings): N0 as is, N1 truncated at every offset, N2 + one trailing byte (256 values), N3 every single-byte substitution (all 255 other values) at every offset (encodings above 320 quick / 1400 thorough bytes: at every structural offset = headers, option headers +-1, value ends, marker), thorough N4 every pair of substitutions over A1 for encodings <=16 bytes. Each string: reference verdict vs DecodeHeader/Decode verdict, fields, consumed length; if accepted: Encode, Decode again, Encode again (canonical/idempotent); pooled UnmarshalWithDecoder on a recycled message (all start states for strings of the sweeps, tails <=2, corpus and truncations <=400 bytes) with verdict/fields and overwrite-the-caller's-buffer check. Non-trivial = the reference accepts the string, or rejects it after at least one option was completely parsed; deep-grid strings are distinct by construction, strings of the other grids are counted by distinct 64-bit hash and only if they are not members of a deep grid.")
	r.Assume(
		"the reference parser in props/codecref is written from RFC 7252 §3/§3.1 and RFC 8323 §3.2-3.3 with the registries of RFC 7252 §5.10, 7641, 7959, 7967 and 8323 §5.3-5.6; the Empty-message rule of RFC 7252 §4.1 (code 0.00 must have nothing after the message ID) is outside 'section 3' and is not enforced",
		"leniencies modelled: illegal-length registered options dropped, option number 0 dropped, marker followed by nothing = no payload; nothing else (TKL 9-15, frame lengths >= 2^32 and bytes after the frame are not leniencies, DESIGN §7a)",
		"unassigned signalling codes (7.00, 7.06-7.31) have no RFC-defined option space; the reference applies the base CoAP registry to them as to any other code",
		"an option-number sum above 65535 is a format error (the option number space is 16 bit, RFC 7252 §12.2)",
		"a stream header announcing a frame of 2^32 bytes or more is valid RFC 8323 syntax; since MessageHeader.MessageLength is a uint32 the decoder is required to refuse it rather than report a wrapped length",
		"the direct decoder calls get a fresh message.Message with ample option capacity; recycling is emulated by calling Reset() on the same object, which is what Pool.ReleaseMessage does before Put",
		"'bounded time' is observed as: every call returns before a 20 s per-worker watchdog (10 s for the child-process probes)",
	)
	r.Finish()
}

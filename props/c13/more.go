package main

import (
	"bytes"
	"context"
	"fmt"
	"sort"
	"strings"
	"time"

	"github.com/plgd-dev/go-coap/v3/message"
	"github.com/plgd-dev/go-coap/v3/message/codes"
	"github.com/plgd-dev/go-coap/v3/message/pool"
	"github.com/plgd-dev/go-coap/v3/net/blockwise"
	"github.com/plgd-dev/go-coap/v3/net/responsewriter"
	tcpclient "github.com/plgd-dev/go-coap/v3/tcp/client"

	"verif/ev"
	"verif/mcx"
	"verif/vrt"
	"verif/worlds/tcpw"
)

// tcp-conn histories: the same idea on a real tcp/client.Conn (block-wise enabled by the peer's CSM).

var tcpKinds = []string{"do-ok", "do-silent-cancel", "upload3", "upload-abort-cancel", "download3", "download-abort-cancel", "dup-token",
	"observe-cancel", "observe-live", "observe-silent-cancel", "observe-404", "ping-ok", "ping-silent-cancel", "oneway", "incoming", "incoming-blockwise-abort", "do-write-error", "observe-write-error"}

func tcpScenario(depth int, kinds []string) *mcx.Scenario {
	name := fmt.Sprintf("tcp-conn exchange histories depth=%d over %d exchange kinds", depth, len(kinds))
	return &mcx.Scenario{
		Name:   name,
		Bounds: mcx.Bounds{Preempt: 0, Env: -1, Select: 0},
		Opt:    vrt.Options{MaxSteps: 400000},
		Body: func(s *vrt.Sched) func() (string, []mcx.Finding) {
			var hist []string
			var fs []mcx.Finding
			liveObs := 0
			vrt.App("env", func() {
				w := tcpw.New(tcpw.Opts{LimitTotal: 2, LimitEndpoint: 2, QueueSize: 4, BlockWise: true, SZX: blockwise.SZX16, DisableCSM: true,
					Handler: func(rw *responsewriter.ResponseWriter[*tcpclient.Conn], r *pool.Message) {
						if r.Code() == codes.GET || r.Code() == codes.POST {
							_ = rw.SetResponse(codes.Content, message.TextPlain, bytes.NewReader([]byte("served")))
						}
					}})
				cc := w.CC
				w.Inject(message.Message{Code: codes.CSM, Options: message.Options{{ID: message.TCPBlockWiseTransfer}}})
				vrt.Quiesce("env: CSM consumed")
				tokN := byte(0)
				for step := 0; step < depth; step++ {
					kind := kinds[vrt.Choose(len(kinds), nil)]
					hist = append(hist, kind)
					ctx, cancel := context.WithCancel(context.Background())
					tokN++
					tok := message.Token{0xC2, tokN}
					opDone := false
					var opErr error
					start := func(name string, f func() error) { vrt.App(name, func() { opErr = f(); opDone = true }) }
					mk := func(code codes.Code, path string, body []byte) *pool.Message {
						req := cc.AcquireMessage(ctx)
						req.SetCode(code)
						req.SetToken(tok)
						_ = req.SetPath(path)
						if body != nil {
							req.SetContentFormat(message.TextPlain)
							req.SetBody(bytes.NewReader(body))
						}
						return req
					}
					var obsCancel func() error
					switch kind {
					case "do-write-error":
						// the socket refuses this one write (transient error); the connection stays open
						w.St.WriteErr = fmt.Errorf("write: no buffer space available")
						start("do", func() error { _, err := cc.Do(mk(codes.GET, "/r", nil)); w.St.WriteErr = nil; return err })
					case "observe-write-error":
						w.St.WriteErr = fmt.Errorf("write: no buffer space available")
						start("observe", func() error {
							req := mk(codes.GET, "/obs", nil)
							req.SetObserve(0)
							_, err := cc.DoObserve(req, func(*pool.Message) {})
							w.St.WriteErr = nil
							return err
						})
					case "do-ok", "do-silent-cancel", "download3", "download-abort-cancel":
						start("do", func() error { _, err := cc.Do(mk(codes.GET, "/r", nil)); return err })
					case "upload3", "upload-abort-cancel":
						start("do", func() error { _, err := cc.Do(mk(codes.POST, "/up", bytes.Repeat([]byte("u"), 40))); return err })
					case "dup-token":
						base := len(w.St.Out)
						start("do", func() error { _, err := cc.Do(mk(codes.GET, "/r", nil)); return err })
						vrt.App("do-dup", func() {
							vrt.WaitUntil("dup waits until first on wire", func() bool { return len(w.St.Out) > base || opDone })
							if _, err := cc.Do(mk(codes.GET, "/r2", nil)); err == nil {
								fs = append(fs, mcx.Finding{Sig: "tcp/duplicate-token-accepted", What: "second request with an outstanding token succeeded"})
							}
						})
					case "observe-cancel", "observe-live", "observe-silent-cancel", "observe-404":
						start("observe", func() error {
							req := mk(codes.GET, "/obs", nil)
							req.SetObserve(0)
							o, err := cc.DoObserve(req, func(*pool.Message) {})
							if err == nil {
								obsCancel = func() error { return o.Cancel(context.Background()) }
							}
							return err
						})
					case "ping-ok", "ping-silent-cancel":
						start("ping", func() error { return cc.Ping(ctx) })
					case "oneway":
						start("write", func() error { return cc.WriteMessage(mk(codes.POST, "/ow", []byte("x"))) })
					case "incoming":
						w.Inject(message.Message{Code: codes.GET, Token: tok, Options: message.Options{{ID: message.URIPath, Value: []byte("in")}}})
						opDone = true
					case "incoming-blockwise-abort":
						w.Inject(message.Message{Code: codes.POST, Token: tok, Payload: bytes.Repeat([]byte("p"), 16),
							Options: message.Options{{ID: message.URIPath, Value: []byte("in")}, u32opt(message.Block1, 0<<4|8|0)}})
						opDone = true
					}
					blockBody := "0123456789abcdef0123456789abcdef01234567"
					downloadStarted := false
					for round := 0; round < 16; round++ {
						vrt.Quiesce("env: settle")
						acted := false
						for _, m := range w.NewOuts() {
							reply := func(code codes.Code, payload string, opts ...message.Option) {
								w.Inject(message.Message{Code: code, Token: m.Token, Payload: []byte(payload), Options: opts})
								acted = true
							}
							if m.Code == codes.Ping {
								if kind == "ping-ok" {
									reply(codes.Pong, "")
								}
								continue
							}
							if m.Code < codes.GET || m.Code > codes.DELETE {
								continue
							}
							b1, e1 := m.Options.GetUint32(message.Block1)
							b2, e2 := m.Options.GetUint32(message.Block2)
							obsV, eo := m.Options.GetUint32(message.Observe)
							switch {
							case eo == nil && obsV == 1:
								reply(codes.Content, "bye")
							case kind == "do-ok" || kind == "dup-token":
								reply(codes.Content, "ok")
							case kind == "upload3" && e1 == nil:
								if b1&8 != 0 {
									reply(codes.Continue, "", u32opt(message.Block1, b1))
								} else {
									reply(codes.Changed, "", u32opt(message.Block1, b1))
								}
							case kind == "upload-abort-cancel" && e1 == nil:
								if b1>>4 == 0 {
									reply(codes.Continue, "", u32opt(message.Block1, b1))
								}
							case kind == "download3" || kind == "download-abort-cancel":
								num := uint32(0)
								if e2 == nil {
									num = b2 >> 4
								}
								if kind == "download-abort-cancel" && downloadStarted {
									break
								}
								downloadStarted = true
								lo, hi := int(num)*16, int(num)*16+16
								more := uint32(8)
								if hi >= len(blockBody) {
									hi, more = len(blockBody), 0
								}
								reply(codes.Content, blockBody[lo:hi], u32opt(message.Block2, num<<4|more))
							case kind == "observe-cancel" || kind == "observe-live":
								reply(codes.Content, "v1", u32opt(message.Observe, 7))
							case kind == "observe-404":
								reply(codes.NotFound, "")
							}
						}
						if acted {
							continue
						}
						if !opDone && strings.HasSuffix(kind, "-cancel") {
							cancel()
							continue
						}
						if opDone && kind == "observe-cancel" && obsCancel != nil {
							f := obsCancel
							obsCancel = nil
							opDone = false
							start("cancel-observation", f)
							continue
						}
						if opDone {
							break
						}
					}
					if kind == "observe-live" && opErr == nil {
						liveObs++
					}
					cancel()
					vrt.Quiesce("env: exchange over")
				}
				check := func(phase string, skipAbandoned bool) {
					sizes := cc.VerifSizes()
					abandoned := false
					for _, k := range hist {
						if strings.Contains(k, "abort") || strings.Contains(k, "silent") {
							abandoned = true
						}
					}
					var left []string
					for k, v := range sizes {
						want := 0
						if k == "observations" {
							want = liveObs
						}
						if skipAbandoned && abandoned && strings.HasPrefix(k, "blockwise") {
							continue
						}
						if v != want {
							left = append(left, k)
						}
					}
					sort.Strings(left)
					if len(left) > 0 {
						fs = append(fs, mcx.Finding{Sig: "tcp/" + phase + "/" + strings.Join(left, "+"), What: fmt.Sprintf("%s: after history [%s] the connection holds %v: %v", name, strings.Join(hist, " "), left, sizes)})
					}
				}
				vrt.Quiesce("env: before expiry")
				check("state-after-return", true)
				vrt.Advance(300 * time.Second)
				cc.CheckExpirations(vrt.Now())
				vrt.Quiesce("env: tick 1")
				vrt.Advance(5 * time.Second)
				cc.CheckExpirations(vrt.Now())
				vrt.Quiesce("env: tick 2")
				check("state-outlives-exchanges", false)
			})
			return func() (string, []mcx.Finding) { return "tcp:" + strings.Join(hist, " "), fs }
		},
	}
}

// addMore adds the tcp-conn histories.
func addMore(r *ev.Run, scs *[]*mcx.Scenario) {
	*scs = append(*scs, tcpScenario(ev.Pick(r, 3, 4), tcpKinds))
}

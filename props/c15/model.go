package main

// Reference model for C15: a plain Go slice of (id, deep-copied value) kept ascending by id
// with stable insertion among equal ids. Written from the property statement and the godoc of
// message/options.go ("Set replaces/stores", "Add appends", "Remove removes all options with
// ID", "Find returns range ... index of next option type") -- not from the implementation:
// there is no binary search, no in-place shifting and no shared buffer here.

import (
	"strings"

	"github.com/plgd-dev/go-coap/v3/message"
)

type ent struct {
	id  message.OptionID
	val []byte // private deep copy
}

type model struct{ e []ent }

func cp(b []byte) []byte {
	c := make([]byte, len(b))
	copy(c, b)
	return c
}

func (m *model) clone() model {
	// entries are immutable once stored, so sharing the value slices between model copies is safe
	c := model{e: make([]ent, len(m.e))}
	copy(c.e, m.e)
	return c
}

// find returns the index of the first entry with this id and how many there are.
func (m *model) find(id message.OptionID) (first, n int) {
	first = -1
	for i, e := range m.e {
		if e.id == id {
			if first < 0 {
				first = i
			}
			n++
		}
	}
	return first, n
}

func (m *model) remove(id message.OptionID) {
	out := m.e[:0:0]
	for _, e := range m.e {
		if e.id != id {
			out = append(out, e)
		}
	}
	m.e = out
}

// add inserts after the last entry whose id is <= id (stable among equal ids).
func (m *model) add(id message.OptionID, v []byte) {
	pos := 0
	for pos < len(m.e) && m.e[pos].id <= id {
		pos++
	}
	out := make([]ent, 0, len(m.e)+1)
	out = append(out, m.e[:pos]...)
	out = append(out, ent{id, cp(v)})
	out = append(out, m.e[pos:]...)
	m.e = out
}

// set = remove every entry with this id, then add one.
func (m *model) set(id message.OptionID, v []byte) {
	m.remove(id)
	m.add(id, v)
}

// resetTo replaces the whole list by in (added one by one, hence stably sorted).
func (m *model) resetTo(in []ent) {
	m.e = nil
	for _, e := range in {
		m.add(e.id, e.val)
	}
}

func (m *model) values(id message.OptionID) [][]byte {
	var out [][]byte
	for _, e := range m.e {
		if e.id == id {
			out = append(out, e.val)
		}
	}
	return out
}

// joined is what Path()/LocationPath() must answer when at least one option is present:
// "joins URIPath options by '/'", one slash before every segment.
func (m *model) joined(id message.OptionID) (string, bool) {
	var sb strings.Builder
	n := 0
	for _, e := range m.e {
		if e.id == id {
			sb.WriteByte('/')
			sb.Write(e.val)
			n++
		}
	}
	return sb.String(), n > 0
}

// splitPath is the statement's "splitting a path into segments": split at '/', drop empty
// segments. ok=false when a segment is longer than 255 bytes (must be refused).
func splitPath(p string) (segs []string, need int, ok bool) {
	ok = true
	for _, s := range strings.Split(p, "/") {
		if s == "" {
			continue
		}
		if len(s) > 255 {
			ok = false
		}
		segs = append(segs, s)
		need += len(s)
	}
	return segs, need, ok
}

// normalised path of the statement: one leading slash, empty segments dropped.
func normalise(segs []string) string { return "/" + strings.Join(segs, "/") }

// uintBytes is the RFC 7252 section 3.2 "uint" encoding: big-endian, no leading zero bytes,
// zero is the empty string.
func uintBytes(v uint32) []byte {
	var b []byte
	for v > 0 {
		b = append([]byte{byte(v)}, b...)
		v >>= 8
	}
	return b
}

// uintValue decodes a uint option value of at most 4 bytes.
func uintValue(b []byte) uint32 {
	var v uint32
	for _, c := range b {
		v = v<<8 | uint32(c)
	}
	return v
}

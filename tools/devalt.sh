#!/bin/bash
# devalt.sh <patch> <IDs...>: like seed_check_alt.sh but runs the checks of THIS copy
P=$(readlink -f "$1"); shift
HERE=$(cd $(dirname $0)/..; pwd)
D=$(mktemp -d /tmp/altrepo.XXXXXX)
B=$(cd $(dirname $0)/..; pwd)/.build/alt-$(echo $D | tr / _)
git -C /repo worktree add -q --detach $D HEAD || exit 2
trap 'git -C /repo worktree remove --force '"$D"' 2>/dev/null; rm -rf '"$B"'' EXIT
git -C $D apply "$P" || { echo "patch does not apply"; exit 2; }
mkdir -p $HERE/.build/alt-root; cp $HERE/known_findings.json $HERE/.build/alt-root/
for id in "$@"; do
  out=$(cd $HERE && VERIF_REPO=$D VERIF_ROOT=$HERE/.build/alt-root ./check $id --tier quick ${VERIF_EXTRA:-} 2>&1); rc=$?
  echo "== $id exit=$rc"; echo "$out" | grep -E "^(VIOLATION|ENGINE-ERROR)|signature:" | cut -c1-220 | sort -u | head -10
done

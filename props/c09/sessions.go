package main

import (
	"verif/ev"
	"verif/mcx"
)

// addSessionScenarios adds the scenarios over the real session types (udp/server.Session over a
// fake packet conn, tcp/client.Session over an in-memory stream, servers) - see sessions_*.go.
func addSessionScenarios(r *ev.Run, scs *[]*mcx.Scenario) {}

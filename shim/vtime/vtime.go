// Package vtime replaces the clock-reading and timer functions of "time" in instrumented files.
package vtime

import (
	"time"

	"verif/vrt"
)

func Now() time.Time                       { return vrt.Now() }
func Since(t time.Time) time.Duration      { return vrt.Now().Sub(t) }
func Until(t time.Time) time.Duration      { return t.Sub(vrt.Now()) }
func After(d time.Duration) <-chan time.Time { return vrt.After(d) }
func Sleep(time.Duration)                  { panic("vtime.Sleep: not modelled (no explored path may sleep)") }
func NewTicker(time.Duration) *time.Ticker { panic("vtime.NewTicker: not modelled (worlds own the periodic runner)") }
func NewTimer(time.Duration) *time.Timer   { panic("vtime.NewTimer: not modelled") }
func AfterFunc(time.Duration, func()) *time.Timer {
	panic("vtime.AfterFunc: not modelled")
}

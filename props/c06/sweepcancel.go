package main

import (
	"context"
	"fmt"

	"github.com/plgd-dev/go-coap/v3/message"
	"github.com/plgd-dev/go-coap/v3/message/codes"

	"verif/mcx"
	"verif/vrt"
	"verif/worlds/udpw"
)

// The housekeeping sweep decides to retransmit while the caller cancels the request: whatever the interleaving,
// no copy is written once the cancellation has happened (the session, like the real ones, refuses a message whose
// own context has ended - which only helps if the copy carries the request's context).
func sweepVsCancelFunctional(preempt int, copiesBefore int) *mcx.Scenario {
	name := fmt.Sprintf("retransmission sweep concurrent with the caller's cancellation after %d copies, preempt<=%d", copiesBefore, preempt)
	return &mcx.Scenario{
		Name:   name,
		Bounds: mcx.Bounds{Preempt: preempt, Env: -1, Select: 0},
		Body: func(s *vrt.Sched) func() (string, []mcx.Finding) {
			var fs []mcx.Finding
			late, total := 0, 0
			done := false
			vrt.App("env", func() {
				w := udpw.New(udpw.Opts{NStart: 1, MaxRetransmit: 3, AckTimeout: T, LimitTotal: 2, LimitEndpoint: 2})
				tok := message.Token{0xA9}
				ctx, cancel := context.WithCancel(context.Background())
				cancelled := false
				w.OnWrite = func(udpw.Out) {
					total++
					if cancelled {
						late++
					}
				}
				vrt.App("do", func() {
					req := w.Request(ctx, codes.GET, "/r", tok, message.Confirmable, nil)
					resp, err := w.CC.Do(req)
					if err == nil {
						w.CC.ReleaseMessage(resp)
					}
					done = true
				})
				vrt.Quiesce("env: first copy on the wire")
				wait := T + delta
				for i := 1; i < copiesBefore; i++ {
					vrt.Advance(wait)
					w.CC.CheckExpirations(vrt.Now())
					vrt.Quiesce("env: retransmitted")
					wait *= 2
				}
				if total != copiesBefore {
					fs = append(fs, mcx.Finding{Sig: "ENGINE/setup", What: fmt.Sprintf("%s: %d copies on the wire before the race, expected %d", name, total, copiesBefore)})
					return
				}
				vrt.Advance(wait) // the next retransmission is due
				now := vrt.Now()
				vrt.App("housekeeper", func() { w.CC.CheckExpirations(now) })
				vrt.App("canceller", func() { cancel(); cancelled = true })
				vrt.Quiesce("env: both done")
				if late > 0 {
					fs = append(fs, mcx.Finding{Sig: "copy-after-cancellation", What: fmt.Sprintf("%s: %d copy/copies were written after the caller had cancelled the request (Do returned=%v)", name, late, done)})
				}
				if !done {
					fs = append(fs, mcx.Finding{Sig: "cancelled-call-did-not-return", What: name + ": Do did not return after its context was cancelled"})
				}
			})
			return func() (string, []mcx.Finding) { return fmt.Sprintf("%v/%d/%d", done, total, late), fs }
		},
	}
}

func sweepCancelScenarios(thorough bool) []*mcx.Scenario {
	p := 2
	if thorough {
		p = 3
	}
	return []*mcx.Scenario{sweepVsCancelFunctional(p, 1), sweepVsCancelFunctional(p, 2)}
}

package main

import (
	"context"
	"fmt"
	"strings"

	"github.com/plgd-dev/go-coap/v3/message"
	"github.com/plgd-dev/go-coap/v3/message/codes"
	"github.com/plgd-dev/go-coap/v3/message/pool"

	"verif/ev"
	"verif/mcx"
	"verif/vrt"
	"verif/worlds/tcpw"
	"verif/worlds/udpw"
)

// A live observation is an outstanding request: its token stays in use until it is cancelled. A second request
// issued with that token - another registration, or an ordinary request - is rejected rather than displacing the
// observation; the notifications that follow still reach the first observer, and only it.
func observeCollideScenario(transport, second string) *mcx.Scenario {
	if second == "registration-behind-request" {
		return requestThenRegistrationScenario(transport)
	}
	sigp := "observe/observation-then-" + second + "/"
	name := fmt.Sprintf("%s: live observation, then a second %s with the same token, then a notification", transport, second)
	return &mcx.Scenario{
		Name:   name,
		Bounds: mcx.Bounds{Preempt: 0, Env: -1, Select: 0},
		Opt:    vrt.Options{MaxSteps: 400000},
		Body: func(s *vrt.Sched) func() (string, []mcx.Finding) {
			var hist []string
			var fs []mcx.Finding
			fail := func(sig, format string, a ...any) {
				fs = append(fs, mcx.Finding{Sig: sig, What: name + ": " + fmt.Sprintf(format, a...) + "; history [" + strings.Join(hist, " ") + "]"})
			}
			vrt.App("env", func() {
				tok := message.Token{0x0B, 0x5E}
				var inject func(m message.Message)
				var outs func() []message.Message
				var doObserve func(req *pool.Message, cb func(*pool.Message)) error
				var do func(req *pool.Message) (*pool.Message, error)
				var acquire func(ctx context.Context) *pool.Message
				peerMID := int32(9000)
				var lastReqMID int32
				if transport == "udp" {
					w := udpw.New(udpw.Opts{LimitTotal: 4, LimitEndpoint: 4, QueueSize: 8, NStart: 4})
					inject = func(m message.Message) { _ = w.Inject(m) }
					outs = func() []message.Message {
						var ms []message.Message
						for _, o := range w.NewOuts() {
							ms = append(ms, o.M)
						}
						return ms
					}
					doObserve = func(req *pool.Message, cb func(*pool.Message)) error { _, err := w.CC.DoObserve(req, cb); return err }
					do = w.CC.Do
					acquire = w.CC.AcquireMessage
				} else {
					w := tcpw.New(tcpw.Opts{LimitTotal: 4, LimitEndpoint: 4, QueueSize: 8, DisableCSM: true})
					inject = func(m message.Message) { m.Type, m.MessageID = 0, 0; w.Inject(m) }
					outs = w.NewOuts
					doObserve = func(req *pool.Message, cb func(*pool.Message)) error { _, err := w.CC.DoObserve(req, cb); return err }
					do = w.CC.Do
					acquire = w.CC.AcquireMessage
				}
				var got1, got2 []string
				reg1Done, reg1Err := false, error(nil)
				vrt.App("observer-1", func() {
					req := acquire(context.Background())
					req.SetCode(codes.GET)
					req.SetToken(tok)
					_ = req.SetPath("/obs")
					req.SetObserve(0)
					req.SetType(message.Confirmable)
					reg1Err = doObserve(req, func(m *pool.Message) {
						b, _ := m.ReadBody()
						got1 = append(got1, string(b))
					})
					reg1Done = true
				})
				vrt.Quiesce("env: registration written")
				reqs := outs()
				if len(reqs) != 1 {
					fail("ENGINE/setup", "expected the registration on the wire, got %d messages", len(reqs))
					return
				}
				lastReqMID = reqs[0].MessageID
				obsOpt := func(seq byte) message.Options { return message.Options{{ID: message.Observe, Value: []byte{seq}}} }
				inject(message.Message{Type: message.Acknowledgement, MessageID: lastReqMID, Code: codes.Content, Token: tok, Options: obsOpt(1), Payload: []byte("v1")})
				vrt.Quiesce("env: registration answered")
				hist = append(hist, "observe(T) registered")
				if !reg1Done || reg1Err != nil {
					fail("ENGINE/setup", "the first registration did not succeed: done=%v err=%v", reg1Done, reg1Err)
					return
				}
				// the second request with the same token
				done2, err2 := false, error(nil)
				var resp2 string
				vrt.App("caller-2", func() {
					ctx, cancel := vrt.WithTimeout(context.Background(), 30_000_000_000)
					defer cancel()
					req := acquire(ctx)
					req.SetCode(codes.GET)
					req.SetToken(tok)
					_ = req.SetPath("/other")
					req.SetType(message.Confirmable)
					if second == "registration" {
						req.SetObserve(0)
						err2 = doObserve(req, func(m *pool.Message) {
							b, _ := m.ReadBody()
							got2 = append(got2, string(b))
						})
					} else {
						var r *pool.Message
						r, err2 = do(req)
						if err2 == nil {
							b, _ := r.ReadBody()
							resp2 = fmt.Sprintf("%v %q", r.Code(), b)
						}
					}
					done2 = true
				})
				vrt.Quiesce("env: second request issued")
				wire2 := outs()
				hist = append(hist, fmt.Sprintf("second %s(T): returned=%v err=%v wrote=%d", second, done2, err2, len(wire2)))
				if !done2 || err2 == nil {
					fail(sigp+"second-not-rejected", "the second %s with the token of a live observation was not rejected (returned=%v err=%v, %d messages written)", second, done2, err2, len(wire2))
				}
				// the next notification of the observation
				peerMID++
				inject(message.Message{Type: message.NonConfirmable, MessageID: peerMID, Code: codes.Content, Token: tok, Options: obsOpt(2), Payload: []byte("v2")})
				vrt.Quiesce("env: notification delivered")
				hist = append(hist, "notification(T, seq 2)")
				if len(got1) == 0 || got1[len(got1)-1] != "v2" {
					fail(sigp+"live-observation-displaced", "after the second %s (err=%v) the next notification did not reach the first observer: it has seen %q, the second caller %q / response %q", second, err2, got1, got2, resp2)
				}
				if len(got2) != 0 || strings.Contains(resp2, "v2") {
					fail(sigp+"notification-delivered-to-other-caller", "the notification of the first observation reached the second caller: callback %q response %q", got2, resp2)
				}
				// let the second caller finish (deadline) if it is still waiting
				if !done2 {
					vrt.Advance(31_000_000_000)
					vrt.Quiesce("env: deadline of the second caller")
				}
			})
			return func() (string, []mcx.Finding) { return strings.Join(hist, " | "), fs }
		},
	}
}

// The other order: an ordinary request is outstanding (not yet answered) and a registration is issued with its token.
func requestThenRegistrationScenario(transport string) *mcx.Scenario {
	sigp := "observe/request-then-registration/"
	name := fmt.Sprintf("%s: outstanding request, then a registration with the same token, then the response", transport)
	return &mcx.Scenario{
		Name:   name,
		Bounds: mcx.Bounds{Preempt: 0, Env: -1, Select: 0},
		Opt:    vrt.Options{MaxSteps: 400000},
		Body: func(s *vrt.Sched) func() (string, []mcx.Finding) {
			var hist []string
			var fs []mcx.Finding
			fail := func(sig, format string, a ...any) {
				fs = append(fs, mcx.Finding{Sig: sig, What: name + ": " + fmt.Sprintf(format, a...) + "; history [" + strings.Join(hist, " ") + "]"})
			}
			vrt.App("env", func() {
				tok := message.Token{0x0B, 0x5F}
				var inject func(m message.Message)
				var outs func() []message.Message
				var doObserve func(req *pool.Message, cb func(*pool.Message)) error
				var do func(req *pool.Message) (*pool.Message, error)
				var acquire func(ctx context.Context) *pool.Message
				if transport == "udp" {
					w := udpw.New(udpw.Opts{LimitTotal: 4, LimitEndpoint: 4, QueueSize: 8, NStart: 4})
					inject = func(m message.Message) { _ = w.Inject(m) }
					outs = func() []message.Message {
						var ms []message.Message
						for _, o := range w.NewOuts() {
							ms = append(ms, o.M)
						}
						return ms
					}
					doObserve = func(req *pool.Message, cb func(*pool.Message)) error { _, err := w.CC.DoObserve(req, cb); return err }
					do = w.CC.Do
					acquire = w.CC.AcquireMessage
				} else {
					w := tcpw.New(tcpw.Opts{LimitTotal: 4, LimitEndpoint: 4, QueueSize: 8, DisableCSM: true})
					inject = func(m message.Message) { m.Type, m.MessageID = 0, 0; w.Inject(m) }
					outs = w.NewOuts
					doObserve = func(req *pool.Message, cb func(*pool.Message)) error { _, err := w.CC.DoObserve(req, cb); return err }
					do = w.CC.Do
					acquire = w.CC.AcquireMessage
				}
				done1, resp1, err1 := false, "", error(nil)
				vrt.App("caller-1", func() {
					ctx, cancel := vrt.WithTimeout(context.Background(), 60_000_000_000)
					defer cancel()
					req := acquire(ctx)
					req.SetCode(codes.GET)
					req.SetToken(tok)
					_ = req.SetPath("/slow")
					req.SetType(message.Confirmable)
					var r *pool.Message
					r, err1 = do(req)
					if err1 == nil {
						b, _ := r.ReadBody()
						resp1 = string(b)
					}
					done1 = true
				})
				vrt.Quiesce("env: request written")
				reqs := outs()
				if len(reqs) != 1 {
					fail("ENGINE/setup", "expected the request on the wire, got %d messages", len(reqs))
					return
				}
				if transport == "udp" {
					inject(message.Message{Type: message.Acknowledgement, MessageID: reqs[0].MessageID, Code: codes.Empty})
					vrt.Quiesce("env: empty ACK")
				}
				hist = append(hist, "request(T) outstanding")
				var got2 []string
				done2, err2 := false, error(nil)
				vrt.App("observer-2", func() {
					ctx, cancel := vrt.WithTimeout(context.Background(), 30_000_000_000)
					defer cancel()
					req := acquire(ctx)
					req.SetCode(codes.GET)
					req.SetToken(tok)
					_ = req.SetPath("/obs")
					req.SetObserve(0)
					req.SetType(message.Confirmable)
					err2 = doObserve(req, func(m *pool.Message) {
						b, _ := m.ReadBody()
						got2 = append(got2, string(b))
					})
					done2 = true
				})
				vrt.Quiesce("env: registration issued")
				wire2 := outs()
				hist = append(hist, fmt.Sprintf("registration(T): returned=%v err=%v wrote=%d", done2, err2, len(wire2)))
				if !done2 || err2 == nil {
					fail(sigp+"second-not-rejected", "the registration with the token of an outstanding request was not rejected (returned=%v err=%v, %d messages written)", done2, err2, len(wire2))
				}
				inject(message.Message{Type: message.NonConfirmable, MessageID: 9100, Code: codes.Content, Token: tok, Payload: []byte("r1")})
				vrt.Quiesce("env: response delivered")
				hist = append(hist, "response(T)")
				if !done1 || err1 != nil || resp1 != "r1" {
					fail(sigp+"outstanding-request-displaced", "the response did not reach the first caller: returned=%v err=%v body %q; the registration's callback saw %q", done1, err1, resp1, got2)
				}
				if len(got2) != 0 {
					fail(sigp+"response-delivered-to-other-caller", "the response of the first request reached the registration's callback: %q", got2)
				}
				vrt.Advance(61_000_000_000)
				vrt.Quiesce("env: deadlines")
			})
			return func() (string, []mcx.Finding) { return strings.Join(hist, " | "), fs }
		},
	}
}

func addObserveCollide(r *ev.Run, scs *[]*mcx.Scenario) {
	for _, tr := range []string{"udp", "tcp"} {
		for _, second := range []string{"registration", "request", "registration-behind-request"} {
			*scs = append(*scs, observeCollideScenario(tr, second))
		}
	}
}

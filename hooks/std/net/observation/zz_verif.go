//go:build verif

package observation

// VerifSize: number of registered observations (verification overlay only).
func (h *Handler[C]) VerifSize() int { return h.observations.Length() }

#!/bin/bash
# tools/mutant.sh <patch.diff> <ID> [<ID>...] : apply a property-breaking change to /repo, run the quick checks, undo it.
P=$(readlink -f "$1"); shift
cd /repo && git diff --quiet || { echo "/repo has uncommitted changes"; exit 2; }
git apply "$P" || { echo "patch does not apply"; exit 2; }
trap 'git -C /repo checkout -- . ; git -C /repo clean -fdq' EXIT
for id in "$@"; do
  out=$(cd /verif && VERIF_ROOT=/verif ./check $id --tier quick 2>&1); rc=$?
  echo "== $id exit=$rc"; echo "$out" | grep -E "^(VIOLATION|KNOWN-FINDING|ENGINE-ERROR|RESULT)|signature:" | cut -c1-260 | head -12
done

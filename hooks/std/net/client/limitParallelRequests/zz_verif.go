//go:build verif

package limitparallelrequests

// VerifSizes is a read-only accessor injected by the verification overlay (never part of /repo).
func (c *LimitParallelRequests) VerifSizes() (queues int, waiters int, processed int64) {
	for _, q := range c.endpointQueues.CopyData() {
		queues++
		waiters += len(q.orderedRequest)
		processed += verifInt(&q.processedCounter)
	}
	return
}

// verifInt reads a counter whether it is a plain integer or an atomic one (the accessor must keep compiling
// when the representation of the counter changes).
func verifInt(p any) int64 {
	switch x := p.(type) {
	case *int64:
		return *x
	case *int:
		return int64(*x)
	case *int32:
		return int64(*x)
	case interface{ Load() int64 }:
		return x.Load()
	case interface{ Load() int32 }:
		return int64(x.Load())
	}
	panic("verif: unknown counter representation")
}

package main

import (
	"context"
	"errors"
	"fmt"
	"net"
	"sort"
	"strings"
	"time"

	"github.com/plgd-dev/go-coap/v3/message"
	"github.com/plgd-dev/go-coap/v3/message/codes"
	"github.com/plgd-dev/go-coap/v3/message/pool"
	"github.com/plgd-dev/go-coap/v3/net/responsewriter"
	"github.com/plgd-dev/go-coap/v3/udp/client"

	"verif/ev"
	"verif/mcx"
	"verif/vrt"
	"verif/worlds/srvw"
)

// Discovery: one or two concurrent Discover calls (unicast target), 0..2 responders answering from
// their own addresses with the right token, plus answers carrying the other call's token and an
// unknown token, in every order.

type dcfg struct {
	Calls      int
	Responders int
	Preempt    int
}

func (c dcfg) String() string {
	return fmt.Sprintf("udp-server discovery calls=%d responders=%d preempt<=%d", c.Calls, c.Responders, c.Preempt)
}

func discoveryScenario(c dcfg) *mcx.Scenario {
	return &mcx.Scenario{
		Name:   c.String(),
		Bounds: mcx.Bounds{Preempt: c.Preempt, Env: -1, Select: 0, Delay: 2},
		Opt:    vrt.Options{MaxSteps: 600000},
		Body: func(s *vrt.Sched) func() (string, []mcx.Finding) {
			var hist []string
			var fs []mcx.Finding
			fail := func(sig, format string, a ...any) {
				fs = append(fs, mcx.Finding{Sig: sig, What: c.String() + ": " + fmt.Sprintf(format, a...) + "; order [" + strings.Join(hist, " ") + "]"})
			}
			var u *srvw.UDP
			got := make([][]string, c.Calls) // per call: "remote|token|payload"
			unknownHandled := 0
			vrt.App("env", func() {
				u = srvw.NewUDP(srvw.UDPOpts{Handler: func(w *responsewriter.ResponseWriter[*client.Conn], r *pool.Message) { unknownHandled++ }})
				cancels := make([]context.CancelFunc, c.Calls)
				done := make([]bool, c.Calls)
				for i := 0; i < c.Calls; i++ {
					i := i
					ctx, cancel := context.WithCancel(context.Background())
					cancels[i] = cancel
					vrt.App(fmt.Sprintf("discover%d", i), func() {
						err := u.S.Discover(ctx, "10.0.0.50:5683", fmt.Sprintf("/res%d", i), func(cc *client.Conn, resp *pool.Message) {
							b, _ := resp.ReadBody()
							got[i] = append(got[i], fmt.Sprintf("%s|%x|%s", cc.RemoteAddr(), []byte(resp.Token()), b))
						})
						if err != nil {
							fail("discovery/discover-error", "Discover(%d) failed: %v", i, err)
						}
						done[i] = true
					})
				}
				vrt.Quiesce("env: discovery requests sent")
				toks := map[int]message.Token{}
				for _, o := range u.NewOuts() {
					m, err := srvw.DecodeUDP(o.Data)
					if err != nil || m.Code != codes.GET {
						continue
					}
					p, _ := m.Options.Path()
					for i := 0; i < c.Calls; i++ {
						if p == fmt.Sprintf("/res%d", i) {
							toks[i] = m.Token
						}
					}
				}
				if len(toks) != c.Calls {
					fail("discovery/request-not-sent", "%d discovery requests on the wire, %d calls", len(toks), c.Calls)
					return
				}
				// the answers, delivered in every order
				type ans struct {
					from    *net.UDPAddr
					tok     message.Token
					payload string
				}
				var answers []ans
				want := make([][]string, c.Calls)
				for r := 0; r < c.Responders; r++ {
					from := &net.UDPAddr{IP: net.IPv4(10, 0, 1, byte(1+r)), Port: 5683}
					for i := 0; i < c.Calls; i++ {
						pl := fmt.Sprintf("dev%d-for-call%d", r, i)
						answers = append(answers, ans{from, toks[i], pl})
						want[i] = append(want[i], fmt.Sprintf("%s|%x|%s", from, []byte(toks[i]), pl))
					}
				}
				answers = append(answers, ans{&net.UDPAddr{IP: net.IPv4(10, 6, 6, 6), Port: 5683}, message.Token{0x99, 0x99}, "foreign-token"})
				mid := int32(500)
				for len(answers) > 0 {
					k := vrt.Choose(len(answers), nil)
					a := answers[k]
					answers = append(answers[:k], answers[k+1:]...)
					mid++
					hist = append(hist, a.payload)
					u.Send(a.from, srvw.EncodeUDP(message.Message{Type: message.NonConfirmable, Code: codes.Content, MessageID: mid, Token: a.tok, Payload: []byte(a.payload)}))
					vrt.Quiesce("env: answer handled")
				}
				for i := range cancels {
					cancels[i]()
				}
				vrt.Quiesce("env: discoveries ended")
				for i := 0; i < c.Calls; i++ {
					if !done[i] {
						fail("discovery/discover-did-not-return", "Discover(%d) did not return after its context was cancelled", i)
					}
					g := append([]string{}, got[i]...)
					w := append([]string{}, want[i]...)
					sort.Strings(w)
					gs := append([]string{}, g...)
					sort.Strings(gs)
					if fmt.Sprint(gs) != fmt.Sprint(w) {
						fail("discovery/receiver-got-wrong-answers", "receiver of call %d got %v, expected exactly %v", i, g, want[i])
					}
				}
				// a late answer after the call ended must not reach the receiver
				before := len(got[0])
				u.Send(&net.UDPAddr{IP: net.IPv4(10, 0, 1, 9), Port: 5683}, srvw.EncodeUDP(message.Message{Type: message.NonConfirmable, Code: codes.Content, MessageID: 900, Token: toks[0], Payload: []byte("late")}))
				vrt.Quiesce("env: late answer handled")
				if len(got[0]) != before {
					fail("discovery/answer-after-end-delivered", "an answer that arrived after Discover returned reached the receiver")
				}
				// a discovery whose request cannot be sent (context already cancelled) must leave nothing behind:
				// a request carrying the same token is then an ordinary request, and the token can be used again
				{
					cctx, ccancel := context.WithCancel(context.Background())
					ccancel()
					reqTok := message.Token{0xAB, 0xCD}
					failedGot := 0
					dreq := pool.NewMessage(cctx)
					_ = dreq.SetupGet("/failed", reqTok)
					dreq.SetMessageID(777)
					dreq.SetType(message.NonConfirmable)
					var derr error
					ddone := false
					vrt.App("discover-failing", func() {
						derr = u.S.DiscoveryRequest(dreq, "10.0.0.50:5683", func(*client.Conn, *pool.Message) { failedGot++ })
						ddone = true
					})
					vrt.Quiesce("env: failed discovery returned")
					if !ddone {
						fail("discovery/discover-did-not-return", "DiscoveryRequest with a cancelled context did not return")
					} else if derr == nil {
						// a cancelled context may also be reported as a normal end; either way nothing may stay registered
						_ = derr
					}
					before := unknownHandled
					u.Send(&net.UDPAddr{IP: net.IPv4(10, 0, 2, 2), Port: 5683}, srvw.EncodeUDP(message.Message{Type: message.NonConfirmable, Code: codes.GET, MessageID: 901, Token: reqTok, Options: message.Options{{ID: message.URIPath, Value: []byte("a")}}}))
					vrt.Quiesce("env: request with the same token handled")
					if failedGot != 0 {
						fail("discovery/stale-receiver-invoked", "a request carrying the token of a discovery that had already returned reached its receiver")
					}
					if unknownHandled != before+1 {
						fail("discovery/request-swallowed-by-stale-receiver", "a request carrying the token of a finished discovery was not handed to the server handler")
					}
				}
				if _, mr, mh := u.S.VerifSizes(); mr != 0 || mh != 0 {
					fail("discovery/tables-not-empty", "after all discoveries returned the server keeps %d stored requests and %d receivers", mr, mh)
				}
				u.S.Stop()
				vrt.Quiesce("env: stopped")
			})
			return func() (string, []mcx.Finding) {
				if u != nil {
					u.Cleanup()
				}
				return strings.Join(hist, " "), fs
			}
		},
	}
}

// A discovery is running (token T); a second DiscoveryRequest is issued with the same token. It is rejected - and the
// first one is not disturbed: its stored request stays (block-wise answers are paired through it), and a block-wise
// answer that arrives afterwards is still reassembled and handed to the first receiver.
func discoveryDupTokenScenario(dup bool) *mcx.Scenario {
	name := "udp-server discovery: a second DiscoveryRequest with the token of a running one, then a block-wise answer"
	if !dup {
		name = "udp-server discovery: one running DiscoveryRequest, then a block-wise answer (control)"
	}
	return &mcx.Scenario{
		Name:   name,
		Bounds: mcx.Bounds{Preempt: 0, Env: -1, Select: 0, Delay: 1},
		Opt:    vrt.Options{MaxSteps: 600000},
		Body: func(s *vrt.Sched) func() (string, []mcx.Finding) {
			var fs []mcx.Finding
			fail := func(sig, format string, a ...any) {
				fs = append(fs, mcx.Finding{Sig: sig, What: name + ": " + fmt.Sprintf(format, a...)})
			}
			var u *srvw.UDP
			var got1, got2 []string
			vrt.App("env", func() {
				u = srvw.NewUDP(srvw.UDPOpts{BlockWise: true, Handler: func(w *responsewriter.ResponseWriter[*client.Conn], r *pool.Message) {}})
				tok := message.Token{0xD1, 0x5C}
				mk := func(ctx context.Context, path string, mid int32) *pool.Message {
					m := pool.NewMessage(ctx)
					_ = m.SetupGet(path, tok)
					m.SetMessageID(mid)
					m.SetType(message.NonConfirmable)
					return m
				}
				ctx1, cancel1 := context.WithCancel(context.Background())
				done1, done2 := false, false
				var err2 error
				vrt.App("discover-1", func() {
					_ = u.S.DiscoveryRequest(mk(ctx1, "/first", 801), "10.0.0.50:5683", func(cc *client.Conn, resp *pool.Message) {
						b, _ := resp.ReadBody()
						got1 = append(got1, string(b))
					})
					done1 = true
				})
				vrt.Quiesce("env: first discovery running")
				u.NewOuts()
				_, mr0, mh0 := u.S.VerifSizes()
				ctx2, cancel2 := vrt.WithTimeout(context.Background(), 5*time.Second)
				if !dup {
					done2, err2 = true, errors.New("not issued")
				}
				vrt.App("discover-2", func() {
					if !dup {
						return
					}
					err2 = u.S.DiscoveryRequest(mk(ctx2, "/second", 802), "10.0.0.50:5683", func(cc *client.Conn, resp *pool.Message) {
						b, _ := resp.ReadBody()
						got2 = append(got2, string(b))
					})
					done2 = true
				})
				vrt.Quiesce("env: second discovery issued")
				if !done2 || err2 == nil {
					fail("discovery/duplicate-token-not-rejected", "the second DiscoveryRequest with the token of a running one was not rejected (returned=%v err=%v)", done2, err2)
				}
				if _, mr, mh := u.S.VerifSizes(); done2 && (mr != mr0 || mh != mh0) {
					fail("discovery/running-discovery-displaced", "after the rejected second call the server holds %d stored requests and %d receivers (%d and %d before): the running discovery lost its state", mr, mh, mr0, mh0)
				}
				// a responder answers the first discovery block-wise (24 bytes in blocks of 16)
				from := &net.UDPAddr{IP: net.IPv4(10, 0, 1, 1), Port: 5683}
				body := "discovered-device-000001"
				u.Send(from, srvw.EncodeUDP(message.Message{Type: message.NonConfirmable, Code: codes.Content, MessageID: 601, Token: tok, Payload: []byte(body[:16]),
					Options: message.Options{{ID: message.Block2, Value: []byte{0<<4 | 8 | 0}}}}))
				vrt.Quiesce("env: first block handled")
				for _, o := range u.NewOuts() {
					m, err := srvw.DecodeUDP(o.Data)
					if err != nil || m.Code != codes.GET {
						continue
					}
					if b2, errB := m.Options.GetUint32(message.Block2); errB == nil && b2>>4 == 1 {
						r := message.Message{Type: message.NonConfirmable, Code: codes.Content, MessageID: 602, Token: m.Token, Payload: []byte(body[16:]), Options: message.Options{{ID: message.Block2, Value: []byte{1<<4 | 0 | 0}}}}
						if m.Type == message.Confirmable {
							r.Type, r.MessageID = message.Acknowledgement, m.MessageID
						}
						u.Send(from, srvw.EncodeUDP(r))
					}
				}
				vrt.Quiesce("env: second block handled")
				if len(got1) != 1 || got1[0] != body {
					fail("discovery/block-wise-answer-lost", "the block-wise answer to the running discovery reached its receiver as %q (expected the %d-byte body once); the rejected caller's receiver saw %q", got1, len(body), got2)
				}
				if len(got2) != 0 {
					fail("discovery/answer-delivered-to-other-caller", "the rejected caller's receiver got %q", got2)
				}
				cancel1()
				cancel2()
				vrt.Advance(6 * time.Second)
				vrt.Quiesce("env: discoveries ended")
				if !done1 {
					fail("discovery/discover-did-not-return", "the first DiscoveryRequest did not return after its context was cancelled")
				}
				u.S.Stop()
				vrt.Quiesce("env: stopped")
			})
			return func() (string, []mcx.Finding) {
				if u != nil {
					u.Cleanup()
				}
				return fmt.Sprint(got1, got2), fs
			}
		},
	}
}

func addDiscovery(r *ev.Run, scs *[]*mcx.Scenario) {
	*scs = append(*scs, discoveryDupTokenScenario(true), discoveryDupTokenScenario(false))
	for _, calls := range []int{1, 2} {
		for _, resp := range []int{0, 1, 2} {
			*scs = append(*scs, discoveryScenario(dcfg{Calls: calls, Responders: resp}))
		}
	}
	*scs = append(*scs, discoveryScenario(dcfg{Calls: 2, Responders: 1, Preempt: 1}))
}

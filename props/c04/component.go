package main

import (
	"bytes"
	"context"
	"fmt"
	"io"
	"strings"
	"time"

	"github.com/plgd-dev/go-coap/v3/message"
	"github.com/plgd-dev/go-coap/v3/message/codes"
	"github.com/plgd-dev/go-coap/v3/message/pool"
	"github.com/plgd-dev/go-coap/v3/net/blockwise"
	"github.com/plgd-dev/go-coap/v3/net/responsewriter"

	"verif/ev"
	"verif/mcx"
	"verif/vrt"
)

// Component level: the real blockwise.BlockWise in the receiver role, driven through its exported Handle
// by several goroutines at once - what a connection does whenever two datagrams of one token are in
// processing at the same time. Copies of one block of an upload (a network duplicate, a retransmission
// answered late) are handled concurrently; every interleaving at lock granularity is explored.
type compClient struct{ p *pool.Pool }

func (c *compClient) AcquireMessage(ctx context.Context) *pool.Message {
	return c.p.AcquireMessage(ctx)
}
func (c *compClient) ReleaseMessage(m *pool.Message) { c.p.ReleaseMessage(m) }

// dupAt: the block number delivered by two goroutines at once; blocks: number of blocks of the upload
func componentScenario(blocks, dupAt int, preempt int) *mcx.Scenario {
	name := fmt.Sprintf("blockwise.Handle component: upload of %d blocks, block %d handled by two goroutines at once (different message IDs), preempt<=%d", blocks, dupAt, preempt)
	return &mcx.Scenario{
		Name:   name,
		Bounds: mcx.Bounds{Preempt: preempt, Env: -1, Select: -1},
		Opt:    vrt.Options{MaxSteps: 400000},
		Body: func(s *vrt.Sched) func() (string, []mcx.Finding) {
			var fs []mcx.Finding
			fail := func(sig, format string, a ...any) {
				fs = append(fs, mcx.Finding{Sig: sig, What: name + ": " + fmt.Sprintf(format, a...)})
			}
			up := pattern(blocks*pblk, 0x31)
			var delivered [][]byte
			var replies []string
			vrt.App("env", func() {
				cc := &compClient{p: pool.New(0, 0)}
				bw := blockwise.New(cc, time.Hour, func(error) {}, nil)
				tok := message.Token{0xC4, 0x01}
				handler := func(w *responsewriter.ResponseWriter[*compClient], r *pool.Message) {
					var got []byte
					if r.Body() != nil {
						got, _ = io.ReadAll(r.Body())
					}
					delivered = append(delivered, got)
					_ = w.SetResponse(codes.Changed, message.TextPlain, bytes.NewReader([]byte("ok")))
				}
				handle := func(num int, mid int32) string {
					more := num < blocks-1
					m := pool.NewMessage(context.Background())
					m.SetCode(codes.POST)
					m.SetToken(tok)
					m.SetMessageID(mid)
					m.SetType(message.Confirmable)
					_ = m.SetPath("/up")
					bo, _ := blockwise.EncodeBlockOption(blockwise.SZX16, int64(num), more)
					m.SetOptionUint32(message.Block1, bo)
					m.SetOptionUint32(message.Size1, uint32(len(up)))
					m.SetBody(bytes.NewReader(up[num*pblk : (num+1)*pblk]))
					w := responsewriter.New(cc.AcquireMessage(context.Background()), cc)
					bw.Handle(w, m, blockwise.SZX16, 1152, handler)
					return w.Message().Code().String()
				}
				for num := 0; num < dupAt; num++ {
					replies = append(replies, handle(num, int32(100+num)))
				}
				doneA, doneB := false, false
				var ra, rb string
				vrt.Lib("copy-a", func() { ra = handle(dupAt, 200); doneA = true })
				vrt.Lib("copy-b", func() { rb = handle(dupAt, 201); doneB = true })
				vrt.WaitUntil("both copies handled", func() bool { return doneA && doneB })
				replies = append(replies, "a:"+ra, "b:"+rb)
				for num := dupAt + 1; num < blocks; num++ {
					replies = append(replies, handle(num, int32(100+num)))
				}
				if len(delivered) > 1 {
					fail("component/handler-invoked-twice", "the application was handed the upload %d times (replies %v)", len(delivered), replies)
				}
				for _, d := range delivered {
					if !bytes.Equal(d, up) {
						fail("component/handler-got-wrong-body", "the application was handed %d bytes %s, the upload has %d bytes (replies %v)", len(d), head(d), len(up), replies)
					}
				}
				if len(delivered) == 0 {
					// allowed only if some reply reported a failure
					failed := false
					for _, r := range replies {
						failed = failed || !(strings.HasSuffix(r, codes.Continue.String()) || strings.HasSuffix(r, codes.Changed.String()))
					}
					if !failed {
						fail("component/upload-neither-delivered-nor-failed", "every block was acknowledged (%v) but the application never got the body", replies)
					}
				}
			})
			return func() (string, []mcx.Finding) {
				return fmt.Sprintf("%v|%d", replies, len(delivered)), fs
			}
		},
	}
}

func addComponent(r *ev.Run, scs *[]*mcx.Scenario) {
	for _, c := range [][2]int{{4, 3}, {4, 1}, {2, 1}, {2, 0}} {
		*scs = append(*scs, componentScenario(c[0], c[1], ev.Pick(r, 2, 3)))
	}
}

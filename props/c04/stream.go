package main

import (
	"verif/ev"
	"verif/mcx"
)

// addStream adds the tcp two-party family (BERT); see stream_tcp.go.
func addStream(r *ev.Run, scs *[]*mcx.Scenario) { addTCP(r, scs) }

package main

// World 2: the pool.Message builder (internal 256-byte value buffer that is consumed
// monotonically and re-grown on demand, 16-option initial capacity), with a second message as
// Clone target, Swap (continue editing the other message) and Reset (+ reuse).
//
// Readings (in addition to R4-R8 of world_opts.go):
//
//  P1 the builder methods without an error result (SetOptionString, AddOptionBytes, ...) always
//     succeed: growing the value buffer is the builder's business, never the caller's.
//  P2 SetOptionString/AddOptionString deliberately panic("cannot set string option: ...") when
//     the underlying Options editor refuses; for a Uri-Path value > 255 bytes (R6) that panic,
//     wrapping ErrInvalidValueLength, is accepted as the builder's way of refusing, provided the
//     list is unchanged. Any other panic is a violation.
//  P3 SetPath: nil error and the path replaced (R4), or an error wrapping ErrInvalidValueLength
//     and the list unchanged when a segment is longer than 255 bytes (godoc of SetPath).
//  P4 SetETag/AddETag: "format: opaque, length: 1-8": other lengths are refused with
//     ErrInvalidValueLength, list unchanged; SetETag: "only a single ETag value will remain".
//  P5 Clone(dst): dst's options become a copy of the source's, independent of later edits,
//     Reset and reuse of either message. Reset: the list becomes empty.

import (
	"bytes"
	"context"
	"errors"

	"github.com/plgd-dev/go-coap/v3/message"
	"github.com/plgd-dev/go-coap/v3/message/pool"
)

const inlineValueBuffer = 256 // only used for the distinct_nontrivial accounting (growth exercised)

type poolWorld struct {
	a, b    *pool.Message
	ma, mb  model
	usedA   int
	usedB   int
	flag    bool
	refused bool
	obs     *observations
}

func newPoolWorld(obs *observations) *poolWorld {
	return &poolWorld{a: pool.NewMessage(context.Background()), obs: obs}
}

func (w *poolWorld) use(n int) {
	w.usedA += n
	if w.usedA > inlineValueBuffer {
		w.flag = true
	}
}

func (w *poolWorld) apply(step int, op Op, rep *reporter) (stop bool) {
	allowedPanic := false
	defer func() {
		if p := recover(); p != nil {
			if e, ok := p.(error); ok && allowedPanic && errors.Is(e, message.ErrInvalidValueLength) {
				if w.obs != nil {
					w.obs.uriPathLongRefused++
				}
				w.refused = true
				return // P2: refusal, model unchanged; the list comparison verifies "unchanged"
			}
			rep.add(family(op.K)+"/panic", "%s panicked: %v", op, p)
			stop = true
		}
	}()
	id := message.OptionID(op.ID)
	w.refused = false
	if len(w.a.Options()) == cap(w.a.Options()) {
		w.flag = true
	}
	switch op.K {
	case "Remove":
		w.a.Remove(id)
		w.ma.remove(id)
	case "SetBytes", "AddBytes", "SetString", "AddString", "AddQuery":
		v := val(op.V, step)
		want := cp(v)
		if op.K == "AddQuery" {
			id = message.URIQuery
		}
		long := id == message.URIPath && len(v) > 255
		switch op.K {
		case "SetBytes":
			w.a.SetOptionBytes(id, v)
		case "AddBytes":
			w.a.AddOptionBytes(id, v)
		case "SetString":
			allowedPanic = long
			w.a.SetOptionString(id, string(v))
		case "AddString":
			allowedPanic = long
			w.a.AddOptionString(id, string(v))
		case "AddQuery":
			w.a.AddQuery(string(v))
		}
		if long && w.obs != nil {
			w.obs.uriPathLongStored++
		}
		if op.K[0] == 'S' {
			w.ma.set(id, want)
		} else {
			w.ma.add(id, want)
		}
		w.use(len(v))
		scribble(v)
	case "SetUint32", "AddUint32", "SetContentFormat", "SetObserve", "SetAccept":
		u := uintArg(op.U, step)
		enc := uintBytes(u)
		switch op.K {
		case "SetUint32":
			w.a.SetOptionUint32(id, u)
			w.ma.set(id, enc)
		case "AddUint32":
			w.a.AddOptionUint32(id, u)
			w.ma.add(id, enc)
		case "SetContentFormat":
			w.a.SetContentFormat(message.MediaType(u))
			w.ma.set(message.ContentFormat, enc)
		case "SetObserve":
			w.a.SetObserve(u)
			w.ma.set(message.Observe, enc)
		case "SetAccept":
			w.a.SetAccept(message.MediaType(u))
			w.ma.set(message.Accept, enc)
		}
		w.use(len(enc))
	case "SetETag", "AddETag":
		v := val(op.V, step)
		want := cp(v)
		var err error
		if op.K == "SetETag" {
			err = w.a.SetETag(v)
		} else {
			err = w.a.AddETag(v)
		}
		w.refused = err != nil
		legal := len(v) >= 1 && len(v) <= 8 // P4
		switch {
		case legal && err != nil:
			rep.add(family(op.K)+"/unexpected-error", "%s with a %d-byte value returned %v", op, len(v), err)
		case !legal && !errors.Is(err, message.ErrInvalidValueLength):
			rep.add(family(op.K)+"/not-refused", "%s with a %d-byte value (legal: 1-8) returned %v", op, len(v), err)
		}
		if err == nil {
			if op.K == "SetETag" {
				w.ma.set(message.ETag, want)
			} else {
				w.ma.add(message.ETag, want)
			}
			w.use(len(v))
		}
		scribble(v)
	case "SetPath", "MustSetPath":
		p := expandPath(op.P)
		segs, need, ok := splitPath(p)
		if need > inlineValueBuffer-w.usedA {
			w.flag = true
		}
		var err error
		if op.K == "SetPath" {
			err = w.a.SetPath(p)
		} else {
			w.a.MustSetPath(p) // only used with valid paths in the alphabet
		}
		w.refused = err != nil
		switch {
		case !ok:
			if !errors.Is(err, message.ErrInvalidValueLength) {
				rep.add("SetPath/not-refused", "%s with a segment longer than 255 bytes returned %v", op, err)
			}
		case err != nil:
			rep.add("SetPath/unexpected-error", "%s returned %v", op, err)
		}
		if err == nil {
			if p == "" { // R4
				if _, had := w.ma.find(message.URIPath); had > 0 && countID(w.a.Options(), message.URIPath) == 0 {
					w.ma.remove(message.URIPath)
					if w.obs != nil {
						w.obs.setPathEmptyClear++
					}
				} else if w.obs != nil {
					w.obs.setPathEmptyNoop++
				}
			} else {
				w.ma.remove(message.URIPath)
				for _, s := range segs {
					w.ma.add(message.URIPath, []byte(s))
				}
				w.use(need)
			}
		}
	case "ResetOptionsTo":
		in := preset(op.N, step)
		inOpts := toOptions(in)
		w.a.ResetOptionsTo(inOpts)
		w.ma.resetTo(in)
		for _, e := range in {
			w.use(len(e.val))
		}
		for _, o := range inOpts {
			scribble(o.Value)
		}
	case "ResetOptionsToOwn":
		// the input is (built from) the message's own list: its values live in the message's own value buffer
		var in message.Options
		if op.N == 0 {
			in = w.a.Options()
		} else {
			for _, o := range w.a.Options() {
				in = append(in, message.Option{ID: o.ID, Value: o.Value}) // caller-built list from getter results
			}
		}
		w.a.ResetOptionsTo(in)
		for _, e := range w.ma.e {
			w.use(len(e.val))
		}
	case "Clone":
		if w.b == nil {
			w.b = pool.NewMessage(context.Background())
		}
		if err := w.a.Clone(w.b); err != nil {
			rep.add("Clone/error", "Clone returned %v", err)
		}
		w.mb = w.ma.clone()
		for _, e := range w.ma.e {
			w.usedB += len(e.val)
		}
		if w.usedB > inlineValueBuffer {
			w.flag = true
		}
	case "Swap":
		if w.b == nil {
			w.b = pool.NewMessage(context.Background())
		}
		w.a, w.b = w.b, w.a
		w.ma, w.mb = w.mb, w.ma
		w.usedA, w.usedB = w.usedB, w.usedA
	case "Reset":
		w.a.Reset()
		w.ma = model{}
		w.usedA = 0
	default:
		panic("pool world: unknown op " + op.K)
	}
	return false
}

func (w *poolWorld) check(op Op, sc *scratch, rep *reporter) (stop bool) {
	if !sameList(w.a.Options(), &w.ma) {
		rep.add(differsSig(op.K, w.refused), "after the sequence (last operation %s) the message's list is %s, the reference list is %s", map[bool]string{true: "refused", false: "accepted"}[w.refused], fmtOptions(w.a.Options()), fmtModel(&w.ma))
		stop = true
	}
	if w.b != nil && !sameList(w.b.Options(), &w.mb) {
		rep.add("other-message-changed/"+family(op.K), "the other message (clone target / clone source) now holds %s, the reference list is %s", fmtOptions(w.b.Options()), fmtModel(&w.mb))
		stop = true
	}
	if stop {
		return true
	}
	queryOptions(w.a.Options(), &w.ma, sc, rep)
	w.queryBuilder(sc, rep)
	if !sameList(w.a.Options(), &w.ma) || (w.b != nil && !sameList(w.b.Options(), &w.mb)) {
		rep.add("query-modifies-list", "after the query set the list is %s, the reference list is %s", fmtOptions(w.a.Options()), fmtModel(&w.ma))
		return true
	}
	return false
}

// queryBuilder asks the same questions through the pool.Message getters.
func (w *poolWorld) queryBuilder(sc *scratch, rep *reporter) {
	a, m := w.a, &w.ma
	for _, id := range queryIDs {
		vals := m.values(id)
		cnt := len(vals)
		var has bool
		if p := safe(func() { has = a.HasOption(id) }); p != nil {
			rep.add("HasOption/panic", "Message.HasOption(%d) panicked: %v", id, p)
		} else if has != (cnt > 0) {
			rep.add("HasOption/wrong", "Message.HasOption(%d) = %v with %d such options", id, has, cnt)
		}
		var u uint32
		var err error
		if p := safe(func() { u, err = a.GetOptionUint32(id) }); p != nil {
			rep.add("GetUint32/panic", "Message.GetOptionUint32(%d) panicked: %v", id, p)
		} else if cnt == 0 {
			if !isNotFound(err) {
				rep.add("GetUint32/absent-not-reported", "Message.GetOptionUint32(%d) = (%d,%v) although absent", id, u, err)
			}
		} else if len(vals[0]) <= 4 && (err != nil || u != uintValue(vals[0])) {
			rep.add("GetUint32/wrong", "Message.GetOptionUint32(%d) = (%d,%v), first value is %s", id, u, err, fmtVal(vals[0]))
		}
		var b []byte
		if p := safe(func() { b, err = a.GetOptionBytes(id) }); p != nil {
			rep.add("GetBytes/panic", "Message.GetOptionBytes(%d) panicked: %v", id, p)
		} else if cnt == 0 {
			if !isNotFound(err) {
				rep.add("GetBytes/absent-not-reported", "Message.GetOptionBytes(%d) = (%s,%v) although absent", id, fmtVal(b), err)
			}
		} else if err != nil || !bytes.Equal(b, vals[0]) {
			rep.add("GetBytes/wrong", "Message.GetOptionBytes(%d) = (%s,%v), first value is %s", id, fmtVal(b), err, fmtVal(vals[0]))
		}
		for rl := cnt - 1; rl <= cnt+1; rl++ {
			if rl < 0 {
				continue
			}
			r := sc.b[:rl:rl]
			for i := range r {
				r[i] = sentinelB
			}
			var n int
			if p := safe(func() { n, err = a.GetOptionAllBytes(id, r) }); p != nil {
				rep.add("GetBytess/panic", "Message.GetOptionAllBytes(%d, len %d) panicked: %v", id, rl, p)
				continue
			}
			switch {
			case cnt == 0:
				if !isNotFound(err) {
					rep.add("GetBytess/absent-not-reported", "Message.GetOptionAllBytes(%d) = (%d,%v) although absent", id, n, err)
				}
			case rl < cnt:
				if !isTooSmall(err) {
					rep.add("GetBytess/short-slice-not-refused", "Message.GetOptionAllBytes(%d, len %d) = (%d,%v) with %d such options", id, rl, n, err, cnt)
				}
			default:
				ok := err == nil && n == cnt
				for i := 0; ok && i < cnt; i++ {
					ok = bytes.Equal(r[i], vals[i])
				}
				if !ok {
					rep.add("GetBytess/wrong-value", "Message.GetOptionAllBytes(%d, len %d) = (%d,%v) does not return the %d values in order", id, rl, n, err, cnt)
				}
			}
		}
	}
	// Path, Queries, ETag, typed getters
	{
		want, present := m.joined(message.URIPath)
		var s string
		var err error
		if p := safe(func() { s, err = a.Path() }); p != nil {
			rep.add("Path/panic", "Message.Path() panicked: %v", p)
		} else if !present {
			if !isNotFound(err) {
				rep.add("Path/absent-not-reported", "Message.Path() = (%q,%v) without any Uri-Path", s, err)
			}
		} else if err != nil || s != want {
			rep.add("Path/wrong", "Message.Path() = (%s,%v), want %s", fmtVal([]byte(s)), err, fmtVal([]byte(want)))
		}
	}
	{
		vals := m.values(message.URIQuery)
		var q []string
		var err error
		if p := safe(func() { q, err = a.Queries() }); p != nil {
			rep.add("Queries/panic", "Message.Queries() panicked: %v", p)
		} else if len(vals) == 0 {
			if !isNotFound(err) {
				rep.add("Queries/absent-not-reported", "Message.Queries() = (%d entries,%v) without any Uri-Query", len(q), err)
			}
		} else {
			ok := err == nil && len(q) == len(vals)
			for i := 0; ok && i < len(vals); i++ {
				ok = q[i] == string(vals[i])
			}
			if !ok {
				rep.add("Queries/wrong", "Message.Queries() = (%d entries,%v), want the %d Uri-Query values in order", len(q), err, len(vals))
			}
		}
	}
	{
		vals := m.values(message.ETag)
		var b []byte
		var err error
		if p := safe(func() { b, err = a.ETag() }); p != nil {
			rep.add("GetBytes/panic", "Message.ETag() panicked: %v", p)
		} else if len(vals) == 0 {
			if !isNotFound(err) {
				rep.add("GetBytes/absent-not-reported", "Message.ETag() = (%s,%v) although absent", fmtVal(b), err)
			}
		} else if err != nil || !bytes.Equal(b, vals[0]) {
			rep.add("GetBytes/wrong", "Message.ETag() = (%s,%v), first value is %s", fmtVal(b), err, fmtVal(vals[0]))
		}
		r := sc.b[: len(vals)+1 : len(vals)+1]
		var n int
		if p := safe(func() { n, err = a.ETags(r) }); p != nil {
			rep.add("GetBytess/panic", "Message.ETags() panicked: %v", p)
		} else if len(vals) == 0 {
			if !isNotFound(err) {
				rep.add("GetBytess/absent-not-reported", "Message.ETags() = (%d,%v) although absent", n, err)
			}
		} else if err != nil || n != len(vals) {
			rep.add("GetBytess/wrong-count", "Message.ETags() = (%d,%v) with %d ETags", n, err, len(vals))
		}
	}
	for _, tq := range []struct {
		name string
		id   message.OptionID
		max  int
		f    func() (uint32, error)
	}{
		{"ContentFormat", message.ContentFormat, 2, func() (uint32, error) { v, e := a.ContentFormat(); return uint32(v), e }},
		{"Accept", message.Accept, 2, func() (uint32, error) { v, e := a.Accept(); return uint32(v), e }},
		{"Observe", message.Observe, 4, a.Observe},
	} {
		vals := m.values(tq.id)
		var u uint32
		var err error
		if p := safe(func() { u, err = tq.f() }); p != nil {
			rep.add(tq.name+"/panic", "Message.%s() panicked: %v", tq.name, p)
		} else if len(vals) == 0 {
			if !isNotFound(err) {
				rep.add(tq.name+"/absent-not-reported", "Message.%s() = (%d,%v) although absent", tq.name, u, err)
			}
		} else if len(vals[0]) <= tq.max && (err != nil || u != uintValue(vals[0])) {
			rep.add(tq.name+"/wrong", "Message.%s() = (%d,%v), first value is %s", tq.name, u, err, fmtVal(vals[0]))
		}
	}
}

func (w *poolWorld) nontrivial() bool {
	return w.flag || len(w.ma.e) > 0 || len(w.mb.e) > 0
}

package main

import (
	"context"
	"fmt"
	"github.com/plgd-dev/go-coap/v3/message/pool"
	"github.com/plgd-dev/go-coap/v3/net/responsewriter"
	"net"
	"time"

	"github.com/plgd-dev/go-coap/v3/message"
	"github.com/plgd-dev/go-coap/v3/message/codes"
	udpclient "github.com/plgd-dev/go-coap/v3/udp/client"

	"verif/mcx"
	"verif/vrt"
	"verif/worlds/srvw"
)

// The per-peer connections a udp / dtls SERVER creates must carry the server's configured
// transmission parameters: a confirmable request issued from the server side through such a
// connection, with every copy lost, is written exactly 1+MAX_RETRANSMIT times, copy k later than
// k*ACK_TIMEOUT, and then fails. NSTART is configured different from MAX_RETRANSMIT on purpose.
func serverConnScenario(kind string, nstart, maxRetransmit uint32) *mcx.Scenario {
	name := fmt.Sprintf("%s-server per-peer connection: NSTART=%d ACK_TIMEOUT=%v MAX_RETRANSMIT=%d, server-initiated confirmable request, every copy lost", kind, nstart, T, maxRetransmit)
	return &mcx.Scenario{
		Name:   name,
		Bounds: mcx.Bounds{Preempt: 0, Env: -1, Select: 0, Delay: 1},
		Opt:    vrt.Options{MaxSteps: 600000},
		Body: func(s *vrt.Sched) func() (string, []mcx.Finding) {
			var fs []mcx.Finding
			fail := func(sig, format string, a ...any) {
				fs = append(fs, mcx.Finding{Sig: sig, What: name + ": " + fmt.Sprintf(format, a...)})
			}
			copies := 0
			cleanup := func() {}
			vrt.App("env", func() {
				tr := &srvw.Transmission{NStart: nstart, AckTimeout: T, MaxRetransmit: maxRetransmit}
				var cc *udpclient.Conn
				var tick func(time.Time) bool
				var written func() [][]byte
				arrive := func(time.Time) {}
				if kind == "udp" || kind == "udp+arrivals" {
					u := srvw.NewUDP(srvw.UDPOpts{Transmission: tr, Handler: func(*responsewriter.ResponseWriter[*udpclient.Conn], *pool.Message) {}})
					if kind == "udp+arrivals" {
						// an unrelated datagram of the same peer arrives 20 ms before every k x ACK_TIMEOUT (the server looks 10 ms
						// ahead when a datagram arrives - DESIGN O10 - so 20 ms is outside that window)
						n := int32(0)
						arrive = func(at time.Time) {
							vrt.SetClock(at)
							n++
							u.Send(&net.UDPAddr{IP: net.IPv4(10, 0, 0, 11), Port: 1}, srvw.EncodeUDP(message.Message{Type: message.NonConfirmable, Code: codes.GET, MessageID: 500 + n, Token: message.Token{0x70, byte(n)},
								Options: message.Options{{ID: message.URIPath, Value: []byte("unrelated")}}}))
							vrt.Quiesce("env: unrelated datagram handled")
						}
					}
					cleanup = u.Cleanup
					vrt.Quiesce("env: server up")
					var err error
					cc, err = u.S.NewConn(&net.UDPAddr{IP: net.IPv4(10, 0, 0, 11), Port: 1})
					if err != nil {
						fail("ENGINE/setup", "NewConn: %v", err)
						return
					}
					tick = func(now time.Time) bool { return u.Tick(now) }
					written = func() [][]byte {
						var out [][]byte
						for _, o := range u.NewOuts() {
							out = append(out, o.Data)
						}
						return out
					}
				} else {
					d := srvw.NewDTLS(srvw.StreamOpts{Transmission: tr, OnNewDTLS: func(c *udpclient.Conn) { cc = c }})
					vrt.Quiesce("env: server up")
					peer := d.L.Connect("10.0.0.11:1000", func(context.Context) error { return nil })
					vrt.Quiesce("env: accepted")
					if cc == nil {
						fail("ENGINE/setup", "no connection accepted")
						return
					}
					tick = func(now time.Time) bool { return d.Tick(now) }
					seen := 0
					written = func() [][]byte {
						out := peer.St.Writes[seen:]
						seen = len(peer.St.Writes)
						return out
					}
				}
				t0 := vrt.Now()
				returned := false
				var derr error
				vrt.App("server-request", func() {
					ctx, cancel := vrt.WithTimeout(context.Background(), 60*time.Second)
					defer cancel()
					r := cc.AcquireMessage(ctx)
					_ = r.SetupGet("/from-server", message.Token{0xA6})
					r.SetType(message.Confirmable)
					_, derr = cc.Do(r)
					returned = true
				})
				var at []time.Duration
				collect := func() {
					for _, raw := range written() {
						if m, err := srvw.DecodeUDP(raw); err == nil && m.Type == message.Confirmable && m.Code == codes.GET {
							at = append(at, vrt.Now().Sub(t0))
						}
					}
				}
				vrt.Quiesce("env: first copy")
				collect()
				for k := 1; k <= int(maxRetransmit)+3 && !returned; k++ {
					for _, d := range []time.Duration{-delta, +delta} {
						if kind == "udp+arrivals" && d > 0 {
							arrive(t0.Add(time.Duration(k)*T - 20*time.Millisecond))
							collect()
						}
						vrt.SetClock(t0.Add(time.Duration(k)*T + d))
						tick(vrt.Now())
						vrt.Quiesce("env: tick")
						collect()
					}
				}
				// (a request whose attempts are exhausted ends with its context; the deadline is far behind the retransmission span)
				vrt.SetClock(t0.Add(61 * time.Second))
				tick(vrt.Now())
				vrt.Quiesce("env: deadline")
				collect()
				copies = len(at)
				if copies != int(maxRetransmit)+1 {
					fail("server-conn/copies", "the request was written %d times (at %v), the server is configured with MAX_RETRANSMIT=%d", copies, at, maxRetransmit)
				}
				for k, a := range at {
					if k >= 1 && a <= time.Duration(k)*T {
						fail("server-conn/retransmission-too-early", "copy %d written %v after the first, ACK_TIMEOUT=%v", k, a, T)
					}
				}
				if !returned {
					fail("server-conn/request-never-fails", "the request has not returned although its 60 s deadline has passed")
				} else if derr == nil {
					fail("server-conn/request-succeeded", "the request returned success although nothing was ever received")
				}
			})
			return func() (string, []mcx.Finding) {
				cleanup()
				return fmt.Sprint(copies), fs
			}
		},
	}
}

func serverConnScenarios() []*mcx.Scenario {
	var scs []*mcx.Scenario
	for _, k := range []string{"udp", "dtls"} {
		scs = append(scs, serverConnScenario(k, 3, 1), serverConnScenario(k, 1, 2))
	}
	scs = append(scs, serverConnScenario("udp+arrivals", 1, 2))
	return scs
}

// C05 — datagram duplicates never re-execute a handler (MID de-duplication).
// Engine E2 (world mode): a real udp/client.Conn in the server role over an in-memory session;
// the environment injects every history of {copy of request m1, copy of request m2, +246 s,
// +248 s, housekeeping tick}; a second family processes two copies concurrently (each message
// in its own thread via the exported ProcessReceivedMessage option) under preemption bounding.
package main

import (
	"bytes"
	"fmt"
	"strings"
	"time"

	"github.com/plgd-dev/go-coap/v3/message"
	"github.com/plgd-dev/go-coap/v3/message/codes"
	"github.com/plgd-dev/go-coap/v3/message/pool"
	"github.com/plgd-dev/go-coap/v3/net/responsewriter"
	"github.com/plgd-dev/go-coap/v3/options/config"
	"github.com/plgd-dev/go-coap/v3/udp/client"

	"verif/ev"
	"verif/mcx"
	"verif/vrt"
	"verif/worlds/track"
	"verif/worlds/udpw"
)

type kind struct {
	Type  message.Type
	Reply bool // handler sets a (piggy-backed) response
	MID   int32
}

func (k kind) String() string {
	r := "noreply"
	if k.Reply {
		r = "reply"
	}
	return fmt.Sprintf("%v/%s/mid=%d", k.Type, r, k.MID)
}

type cfg struct {
	K          [2]kind
	Depth      int
	Concurrent bool // each received message processed in its own thread; copies injected back-to-back
	Preempt    int
	MaxAge     int // >=0 with HasMaxAge: the handler's reply carries a Max-Age option of that many seconds (the cache lifetime is 247 s regardless)
	HasMaxAge  bool
	Code       codes.Code // request method of m1 and m2 (0 = GET); RFC 8132 adds FETCH 0.05, PATCH 0.06, iPATCH 0.07
	DTLS       bool       // the connection runs over the real dtls/server.Session (read loop, datagram stream) instead of the in-memory session
}

func (c cfg) String() string {
	tr := ""
	if c.DTLS {
		tr = " transport=dtls-session"
	}
	if c.Code != 0 {
		tr += fmt.Sprintf(" method=%v", c.Code)
	}
	if c.HasMaxAge {
		tr += fmt.Sprintf(" reply-max-age=%d", c.MaxAge)
	}
	if c.Concurrent {
		return fmt.Sprintf("dedup concurrent copies m1=%v preempt<=%d%s", c.K[0], c.Preempt, tr)
	}
	return fmt.Sprintf("dedup history m1=%v m2=%v depth=%d%s", c.K[0], c.K[1], c.Depth, tr)
}

type replySig struct {
	Bare    bool
	Code    codes.Code
	Token   string
	Opts    string
	Payload string
}

func sigOf(m message.Message) replySig {
	if m.Code == codes.Empty {
		return replySig{Bare: true}
	}
	var ob strings.Builder
	for _, o := range m.Options {
		fmt.Fprintf(&ob, "%d=%x;", o.ID, o.Value)
	}
	return replySig{Code: m.Code, Token: fmt.Sprintf("%x", []byte(m.Token)), Opts: ob.String(), Payload: string(m.Payload)}
}

func scenario(c cfg) *mcx.Scenario {
	return &mcx.Scenario{
		Name:   c.String(),
		Bounds: mcx.Bounds{Preempt: c.Preempt, Env: -1, Select: 0},
		Body: func(s *vrt.Sched) func() (string, []mcx.Finding) {
			var hist []string
			var fs []mcx.Finding
			fail := func(sig, format string, a ...any) {
				fs = append(fs, mcx.Finding{Sig: sig, What: c.String() + ": " + fmt.Sprintf(format, a...) + "; history [" + strings.Join(hist, " ") + "]"})
			}
			handlerCalls := map[int32]int{}
			nonce := 0
			var w *udpw.World
			vrt.App("env", func() {
				opts := udpw.Opts{MaxRetransmit: 0, QueueSize: 4, LimitTotal: 4, LimitEndpoint: 4, Handler: func(rw *responsewriter.ResponseWriter[*client.Conn], r *pool.Message) {
					track.Hold(r, "request inside a handler")
					defer track.Unhold(r)
					handlerCalls[r.MessageID()]++
					vrt.Point("handler body")
					for _, k := range c.K {
						if k.MID == r.MessageID() && k.Reply {
							nonce++
							ropts := []message.Option{{ID: message.ETag, Value: []byte{byte(nonce)}}}
							if c.HasMaxAge {
								b := make([]byte, 4)
								n, _ := message.EncodeUint32(b, uint32(c.MaxAge))
								ropts = append(ropts, message.Option{ID: message.MaxAge, Value: b[:n]})
							}
							_ = rw.SetResponse(codes.Content, message.TextPlain, bytes.NewReader([]byte(fmt.Sprintf("reply-%d-#%d", r.MessageID(), nonce))), ropts...)
						}
					}
				}}
				if c.Concurrent {
					opts.Process = config.ProcessReceivedMessageFunc[*client.Conn](func(req *pool.Message, cc *client.Conn, h config.HandlerFunc[*client.Conn]) {
						vrt.Lib("process-msg", func() { cc.ProcessReceivedMessageWithHandler(req, h) })
					})
				}
				opts.DTLS = c.DTLS
				w = udpw.New(opts)
				mk := func(k kind, i int) message.Message {
					code := codes.GET
					if c.Code != 0 {
						code = c.Code
					}
					return message.Message{Type: k.Type, Code: code, MessageID: k.MID, Token: message.Token{0xC0 + byte(i)},
						Options: message.Options{{ID: message.URIPath, Value: []byte(fmt.Sprintf("res%d", i))}}}
				}
				type entry struct {
					reply    replySig
					deadline time.Time
				}
				seen := map[int32]*entry{}
				if c.Concurrent {
					// two (or three) copies of m1 back-to-back, processed by concurrent threads
					k := c.K[0]
					for n := 0; n < 3; n++ {
						hist = append(hist, "inject(m1)")
						_ = w.Inject(mk(k, 0))
					}
					vrt.Quiesce("env: all copies processed")
					mayRepeat := k.Type == message.NonConfirmable && !k.Reply // the statement exempts NON requests that produced no reply
					if handlerCalls[k.MID] != 1 && !mayRepeat {
						fail("handler-executed-for-concurrent-duplicates", "handler ran %d times for 3 concurrently processed copies of %v", handlerCalls[k.MID], k)
					}
					var replies []replySig
					for _, o := range w.NewOuts() {
						if o.M.MessageID == k.MID || (k.Type == message.NonConfirmable && o.M.Code != codes.Empty) {
							replies = append(replies, sigOf(o.M))
						}
					}
					if k.Type == message.Confirmable {
						if len(replies) != 3 {
							fail("concurrent-duplicate-not-answered", "3 copies of a CON request got %d acknowledgements", len(replies))
						}
						for _, r := range replies {
							if r != replies[0] {
								fail("concurrent-duplicate-answered-differently", "copies of one request were answered with different replies %v vs %v", replies[0], r)
							}
						}
					}
					return
				}
				for step := 0; step < c.Depth; step++ {
					vrt.Quiesce("env: settle")
					w.NewOuts()
					nch := 5
					if c.HasMaxAge {
						nch = 6
					}
					ch := vrt.Choose(nch, nil)
					switch ch {
					case 5:
						hist = append(hist, "+2s")
						vrt.Advance(2 * time.Second)
					case 0, 1:
						k := c.K[ch]
						hist = append(hist, fmt.Sprintf("inject(m%d)", ch+1))
						before := handlerCalls[k.MID]
						now := vrt.Now()
						_ = w.Inject(mk(k, ch))
						vrt.Quiesce("env: copy processed")
						h := handlerCalls[k.MID] - before
						var D []message.Message
						for _, o := range w.NewOuts() {
							D = append(D, o.M)
						}
						e := seen[k.MID]
						if e != nil && !now.Before(e.deadline) {
							e = nil // lifetime elapsed: the ID is fresh again
						}
						if e != nil {
							if h != 0 {
								fail("duplicate-re-executed-handler/"+k.Type.String(), "a duplicate of %v within the exchange lifetime was handed to the handler again", k)
							}
							switch {
							case k.Type == message.Confirmable:
								if len(D) != 1 || D[0].Type != message.Acknowledgement || D[0].MessageID != k.MID {
									fail("duplicate-not-acknowledged", "duplicate of %v answered with %d datagrams %v", k, len(D), descr(D))
								} else if sigOf(D[0]) != e.reply {
									fail("duplicate-answered-differently", "duplicate of %v answered with %v, first reply was %v", k, sigOf(D[0]), e.reply)
								}
							default:
								if len(D) != 1 || D[0].MessageID != k.MID || sigOf(D[0]) != e.reply {
									fail("non-duplicate-answered-differently", "duplicate of %v answered with %v, first reply was %v", k, descr(D), e.reply)
								}
							}
						} else {
							if h != 1 {
								fail("fresh-request-not-handled-once", "first copy (or copy after the lifetime) of %v ran the handler %d times; answered with %v", k, h, descr(D))
							}
							switch {
							case k.Type == message.Confirmable:
								if len(D) != 1 || D[0].Type != message.Acknowledgement || D[0].MessageID != k.MID || (D[0].Code != codes.Empty) != k.Reply {
									fail("first-copy-wrong-reply", "first copy of %v answered with %v", k, descr(D))
								} else {
									seen[k.MID] = &entry{sigOf(D[0]), now.Add(247 * time.Second)}
								}
							case k.Reply:
								if len(D) != 1 || D[0].Code != codes.Content {
									fail("first-copy-wrong-reply", "first copy of %v answered with %v", k, descr(D))
								} else {
									seen[k.MID] = &entry{sigOf(D[0]), now.Add(247 * time.Second)}
								}
							default:
								if len(D) != 0 {
									fail("first-copy-wrong-reply", "NON request without reply answered with %v", descr(D))
								}
							}
						}
					case 2:
						hist = append(hist, "+246s")
						vrt.Advance(246 * time.Second)
					case 3:
						hist = append(hist, "+248s")
						vrt.Advance(248 * time.Second)
					case 4:
						hist = append(hist, "tick")
						w.CC.CheckExpirations(vrt.Now())
					}
				}
			})
			return func() (string, []mcx.Finding) {
				return strings.Join(hist, " ") + fmt.Sprint("|", handlerCalls), fs
			}
		},
	}
}

func descr(D []message.Message) string {
	var s []string
	for _, m := range D {
		s = append(s, udpw.Describe(m))
	}
	return "[" + strings.Join(s, "; ") + "]"
}

func main() {
	r := ev.Start("C05", "model_checking")
	var scs []*mcx.Scenario
	types := []message.Type{message.Confirmable, message.NonConfirmable}
	depth := ev.Pick(r, 5, 8)
	for _, t1 := range types {
		for _, r1 := range []bool{true, false} {
			for _, t2 := range types {
				for _, r2 := range []bool{true, false} {
					scs = append(scs, scenario(cfg{K: [2]kind{{t1, r1, 5001}, {t2, r2, 5002}}, Depth: depth}))
				}
			}
			// m2 carries the message ID the endpoint itself uses next for an outgoing message
			scs = append(scs, scenario(cfg{K: [2]kind{{t1, r1, 7777}, {message.Confirmable, true, 1000}}, Depth: depth}))
			scs = append(scs, scenario(cfg{K: [2]kind{{t1, r1, 7777}, {message.NonConfirmable, true, 1000}}, Depth: depth}))
			scs = append(scs, scenario(cfg{K: [2]kind{{t1, r1, 5001}}, Concurrent: true, Preempt: ev.Pick(r, 2, 3)}))
		}
	}
	// a DIFFERENT request (other token, other path) that carries the message ID of an earlier one is a duplicate
	// on the message layer: it is answered with the earlier reply - token included - and never handled
	for _, t1 := range types {
		for _, t2 := range types {
			scs = append(scs, scenario(cfg{K: [2]kind{{t1, true, 5001}, {t2, true, 5001}}, Depth: ev.Pick(r, 4, 5)}))
		}
	}
	// the ends of the 16-bit message-ID space: 0 and 65535 are ordinary message IDs (a pooled message's "not set"
	// marker is -1, not 0)
	for _, t1 := range types {
		for _, r1 := range []bool{true, false} {
			scs = append(scs, scenario(cfg{K: [2]kind{{t1, r1, 0}, {message.Confirmable, !r1, 65535}}, Depth: ev.Pick(r, 4, 5)}))
			scs = append(scs, scenario(cfg{K: [2]kind{{t1, r1, 65535}, {message.NonConfirmable, true, 0}}, Depth: ev.Pick(r, 4, 5)}))
		}
		scs = append(scs, scenario(cfg{K: [2]kind{{t1, true, 0}}, Concurrent: true, Preempt: ev.Pick(r, 2, 3)}))
	}
	// replies that carry a Max-Age option (0 s, 1 s): the de-duplication lifetime is the exchange lifetime, not the
	// freshness of the representation
	for _, ma := range []int{0, 1} {
		for _, t1 := range types {
			scs = append(scs, scenario(cfg{K: [2]kind{{t1, true, 5001}, {message.Confirmable, false, 5002}}, Depth: ev.Pick(r, 4, 5), HasMaxAge: true, MaxAge: ma}))
		}
	}
	for _, con := range []bool{true, false} {
		scs = append(scs, blockScenario(codes.GET, con, ev.Pick(r, 5, 7)))
	}
	scs = append(scs, blockScenario(codes.POST, true, ev.Pick(r, 5, 6)))
	scs = append(scs, manyScenario(ev.Pick(r, 1100, 2200), true))
	if r.Thorough() {
		scs = append(scs, manyScenario(4200, false))
	}
	// every request method: GET..DELETE and the RFC 8132 methods FETCH, PATCH, iPATCH (reduced family per method)
	for _, code := range []codes.Code{codes.POST, codes.PUT, codes.DELETE, codes.Code(5), codes.Code(6), codes.Code(7)} {
		for _, t1 := range types {
			scs = append(scs, scenario(cfg{K: [2]kind{{t1, true, 5001}, {message.Confirmable, false, 5002}}, Depth: ev.Pick(r, 3, 5), Code: code}))
		}
	}
	// the same conn code over the real DTLS session type (reduced family)
	for _, t1 := range types {
		scs = append(scs, scenario(cfg{K: [2]kind{{t1, true, 5001}, {message.Confirmable, false, 5002}}, Depth: ev.Pick(r, 4, 5), DTLS: true}))
	}
	sum := mcx.Explore(r, scs, mcx.Config{Wall: ev.Pick(r, 3*time.Minute, 25*time.Minute)})
	mcx.Report(r, scs, sum)
	r.Set("rule", "history family: every sequence up to the depth over {inject copy of m1, inject copy of m2, +246 s, +248 s, housekeeping tick} for all (CON|NON) x (handler replies | does not reply) assignments of m1 and m2, plus m2 carrying the endpoint's own next outgoing message ID, plus m1/m2 at the ends of the message-ID space (0, 65535); each injection runs to quiescence and is compared with the reference {MID -> (first reply, deadline)}: handler invocations, number/type/MID/content of emitted datagrams; concurrent family: 3 copies processed by concurrent threads, all schedules within the preemption bound; distinct outcome = distinct (history, handler-call table)")
	r.Sample(map[string]any{"scenario": scs[0].Name, "history": "inject(m1) +246s inject(m1) +248s inject(m1)"})
	r.Assume("the lifetime boundary is probed at 246 s and 248 s (never exactly at 247 s)", "in-memory session; events applied to a settled connection in the history family")
	r.Finish()
}

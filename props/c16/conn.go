package main

import (
	"context"
	"fmt"
	"strings"

	"github.com/plgd-dev/go-coap/v3/message"
	"github.com/plgd-dev/go-coap/v3/message/codes"
	"github.com/plgd-dev/go-coap/v3/message/pool"

	"verif/ev"
	"verif/mcx"
	"verif/vrt"
	"verif/worlds/tcpw"
	"verif/worlds/udpw"
)

// Connection level: every client entry point that sends a request on a real udp / tcp connection
// (Do, Observe, Observation.Cancel, Ping is not a request) goes through the connection's limiter.
// The peer is silent until the environment answers; the oracle counts, at every settle point, the
// requests that are on the wire and unanswered: never more than the total limit, and per path
// never more than the per-endpoint limit.

type ccfg struct {
	T               string // udp | tcp
	Total, Endpoint int64
}

func (c ccfg) String() string {
	return fmt.Sprintf("%s-conn entry points through the limiter: total=%d endpoint=%d, operations {Do(/slow), Do(/obs), Observe(/obs), Cancel} in every start/answer order", c.T, c.Total, c.Endpoint)
}

func connScenario(c ccfg) *mcx.Scenario {
	return &mcx.Scenario{
		Name:   c.String(),
		Bounds: mcx.Bounds{Preempt: 0, Env: -1, Select: 0},
		Body: func(s *vrt.Sched) func() (string, []mcx.Finding) {
			var hist []string
			var fs []mcx.Finding
			fail := func(sig, format string, a ...any) {
				fs = append(fs, mcx.Finding{Sig: sig, What: c.String() + ": " + fmt.Sprintf(format, a...) + "; events [" + strings.Join(hist, " ") + "]"})
			}
			vrt.App("env", func() {
				var acquire func(ctx context.Context) *pool.Message
				var do func(*pool.Message) (*pool.Message, error)
				var release func(*pool.Message)
				var observe func(path string) (func(context.Context) error, error)
				var outs func() []message.Message
				var inject func(m message.Message)
				datagram := c.T == "udp"
				if datagram {
					w := udpw.New(udpw.Opts{LimitTotal: c.Total, LimitEndpoint: c.Endpoint, QueueSize: 8, NStart: 8, MaxRetransmit: 0})
					acquire, do, release = w.CC.AcquireMessage, w.CC.Do, w.CC.ReleaseMessage
					observe = func(path string) (func(context.Context) error, error) {
						o, err := w.CC.Observe(context.Background(), path, func(*pool.Message) {})
						if err != nil {
							return nil, err
						}
						return func(ctx context.Context) error { return o.Cancel(ctx) }, nil
					}
					outs = func() []message.Message {
						var ms []message.Message
						for _, o := range w.NewOuts() {
							ms = append(ms, o.M)
						}
						return ms
					}
					inject = func(m message.Message) { _ = w.Inject(m) }
				} else {
					w := tcpw.New(tcpw.Opts{LimitTotal: c.Total, LimitEndpoint: c.Endpoint, QueueSize: 8, DisableCSM: true})
					acquire, do, release = w.CC.AcquireMessage, w.CC.Do, w.CC.ReleaseMessage
					observe = func(path string) (func(context.Context) error, error) {
						o, err := w.CC.Observe(context.Background(), path, func(*pool.Message) {})
						if err != nil {
							return nil, err
						}
						return func(ctx context.Context) error { return o.Cancel(ctx) }, nil
					}
					outs = w.NewOuts
					inject = func(m message.Message) { m.Type, m.MessageID = 0, 0; w.Inject(m) }
				}
				type wire struct {
					m    message.Message
					path string
				}
				var onWire []wire // requests written and not yet answered
				settle := func() {
					vrt.Quiesce("env: settle")
					for _, m := range outs() {
						if m.Code >= codes.GET && m.Code <= codes.DELETE {
							p, _ := m.Options.Path()
							onWire = append(onWire, wire{m, p})
						}
					}
					if c.Total > 0 && int64(len(onWire)) > c.Total {
						fail("conn/total-limit-exceeded", "%d requests are on the wire and unanswered, the total limit is %d", len(onWire), c.Total)
					}
					per := map[string]int64{}
					for _, x := range onWire {
						per[x.path]++
						if c.Endpoint > 0 && per[x.path] > c.Endpoint {
							fail("conn/endpoint-limit-exceeded", "%d requests for %s are on the wire and unanswered, the per-endpoint limit is %d", per[x.path], x.path, c.Endpoint)
						}
					}
				}
				var cancelObs func(context.Context) error
				started := map[string]bool{}
				finished := 0
				for step := 0; step < 10; step++ {
					settle()
					var evs []string
					for _, o := range []string{"Do(/slow)", "Do(/obs)", "Observe(/obs)"} {
						if !started[o] {
							evs = append(evs, o)
						}
					}
					if cancelObs != nil && !started["Cancel"] {
						evs = append(evs, "Cancel")
					}
					if len(onWire) > 0 {
						evs = append(evs, "answer-oldest", "answer-newest")
					}
					if len(evs) == 0 {
						break
					}
					e := evs[vrt.Choose(len(evs), nil)]
					hist = append(hist, e)
					switch e {
					case "Do(/slow)", "Do(/obs)":
						started[e] = true
						path := e[3 : len(e)-1]
						vrt.App(e, func() {
							r := acquire(context.Background())
							_ = r.SetupGet(path, message.Token{0x51, byte(len(path))})
							if datagram {
								r.SetType(message.NonConfirmable)
							}
							resp, err := do(r)
							if err == nil {
								release(resp)
							}
							finished++
						})
					case "Observe(/obs)":
						started[e] = true
						vrt.App(e, func() {
							cf, err := observe("/obs")
							if err == nil {
								cancelObs = cf
							}
							finished++
						})
					case "Cancel":
						started[e] = true
						cf := cancelObs
						vrt.App(e, func() { _ = cf(context.Background()); finished++ })
					default:
						k := 0
						if e == "answer-newest" {
							k = len(onWire) - 1
						}
						x := onWire[k]
						onWire = append(onWire[:k:k], onWire[k+1:]...)
						resp := message.Message{Type: message.NonConfirmable, MessageID: 20000 + int32(step), Code: codes.Content, Token: x.m.Token, Payload: []byte("r")}
						if datagram && x.m.Type == message.Confirmable {
							resp.Type, resp.MessageID = message.Acknowledgement, x.m.MessageID
						}
						if ov, err := x.m.Options.GetUint32(message.Observe); err == nil && ov == 0 {
							b := make([]byte, 4)
							resp.Options, _, _ = message.Options{}.SetUint32(b, message.Observe, 1)
						}
						inject(resp)
					}
				}
				// answer whatever is still waiting so that every call returns
				for i := 0; i < 12; i++ {
					settle()
					if len(onWire) == 0 {
						break
					}
					x := onWire[0]
					onWire = onWire[1:]
					fin := message.Message{Type: message.NonConfirmable, MessageID: 21000 + int32(i), Code: codes.Content, Token: x.m.Token, Payload: []byte("r")}
					if datagram && x.m.Type == message.Confirmable {
						fin.Type, fin.MessageID = message.Acknowledgement, x.m.MessageID
					}
					if ov, err := x.m.Options.GetUint32(message.Observe); err == nil && ov == 0 {
						b := make([]byte, 4)
						fin.Options, _, _ = message.Options{}.SetUint32(b, message.Observe, 1)
					}
					inject(fin)
				}
				vrt.Metric("calls_finished", int64(finished))
			})
			return func() (string, []mcx.Finding) { return strings.Join(hist, " "), fs }
		},
	}
}

func addConn(r *ev.Run, scs *[]*mcx.Scenario) {
	for _, t := range []string{"udp", "tcp"} {
		*scs = append(*scs, connScenario(ccfg{T: t, Total: 1, Endpoint: 1}))
		*scs = append(*scs, connScenario(ccfg{T: t, Total: 2, Endpoint: 1}))
	}
}

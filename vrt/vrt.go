// Package vrt is the cooperative deterministic runtime under which instrumented go-coap code
// and the harness worlds run: one real goroutine per managed thread, exactly one running at a
// time, every synchronisation operation a scheduling point whose outcome is an explorer choice.
package vrt

import (
	"fmt"
	"runtime"
	"strings"
	"time"
)

// ChoicePoint describes one recorded decision of an execution.
type ChoicePoint struct {
	N          int    // number of alternatives
	Kind       byte   // 's' schedule, 'c' select arbitration, 'e' environment, 'm' map order
	CurEnabled bool   // 's': the running thread was still enabled (alternative != 0 is a preemption)
	Costs      []int8 // 'e': cost of each alternative (nil = all free)
}

type op struct {
	label     string
	ready     func() bool
	completed bool // completed by a rendezvous partner
	quiescent bool // enabled only when no ordinary thread is enabled
	cases     []Case
	sel       Sel
}

type Thread struct {
	ID      int
	Name    string
	App     bool // application thread (spawned by the world) as opposed to a library goroutine
	Daemon  bool // allowed to be parked forever at the end of an execution
	gate    chan struct{}
	done    bool
	started bool
	exiting bool
	op      *op
	f       func()
}

type Options struct {
	MaxSteps       int  // scheduling steps before the execution is cut (0 = 200000)
	NoAtomicPoints bool // atomics are not scheduling points (coarser, never unsound for failures found)
	PoolPoints     bool // sync.Pool Get/Put are scheduling points too (finer: a thread can be preempted between looking an object up and using it)
	Trace          bool // record a human readable trace
	StopOnFail     bool // end the execution at the first Failf
	Start          time.Time
}

type Sched struct {
	Opt      Options
	threads  []*Thread
	cur      *Thread
	running  bool
	killed   bool
	mainGate chan struct{}

	choices []int
	pos     int
	Choices []int // choices actually taken (prefix + defaults)
	Points  []ChoicePoint

	Steps     int
	StepBound bool
	Deadlock  bool
	Blocked   []string // application threads parked at the end
	Panic     string
	Diverged  string
	Obs       []string
	TraceLog  []string

	closed map[uintptr]bool
	keep   []any

	clock    time.Time
	timers   []*vtimer
	Fail     []Failure // invariant failures raised during the run
	userData any
	Metrics  map[string]int64
	enBuf    []*Thread
	rng      uint64
}

type Failure struct{ Sig, What string }

// S is the scheduler of the execution in progress (nil outside executions: shims pass through).
var S *Sched

var baseTime = time.Date(2030, 1, 1, 0, 0, 0, 0, time.UTC)

func New(prefix []int, opt Options) *Sched {
	if opt.MaxSteps == 0 {
		opt.MaxSteps = 200000
	}
	if opt.Start.IsZero() {
		opt.Start = baseTime
	}
	s := &Sched{Opt: opt, choices: prefix, closed: map[uintptr]bool{}, mainGate: make(chan struct{}), clock: opt.Start,
		Choices: make([]int, 0, 64), Points: make([]ChoicePoint, 0, 64), enBuf: make([]*Thread, 0, 8), threads: make([]*Thread, 0, 8)}
	S = s
	return s
}

type killT struct{}

func (s *Sched) newThread(name string, app bool, f func()) *Thread {
	t := &Thread{ID: len(s.threads), Name: name, App: app, gate: make(chan struct{}), f: f}
	s.threads = append(s.threads, t)
	go s.body(t)
	return t
}

func (s *Sched) body(t *Thread) {
	<-t.gate
	defer func() {
		if r := recover(); r != nil {
			if _, ok := r.(killT); !ok && s.Panic == "" {
				buf := make([]byte, 16384)
				n := runtime.Stack(buf, false)
				s.Panic = fmt.Sprintf("thread %d(%s): %v\n%s", t.ID, t.Name, r, buf[:n])
			}
		}
		t.done = true
		t.op = nil
		if s.killed {
			s.mainGate <- struct{}{}
			return
		}
		s.handoff(t, true)
	}()
	if s.killed {
		return
	}
	t.started = true
	t.f()
}

// App starts an application thread (its being parked forever counts as a deadlock).
func App(name string, f func()) *Thread { return S.newThread(name, true, f) }

// Lib starts a library thread from harness code (e.g. a fake peer's reader).
func Lib(name string, f func()) *Thread { return S.newThread(name, false, f) }

func libName() string {
	_, file, line, ok := runtime.Caller(2)
	if !ok {
		return "go"
	}
	if i := strings.LastIndex(file, "/"); i >= 0 {
		file = file[i+1:]
	}
	return fmt.Sprintf("go@%s:%d", file, line)
}

func spawn(f func()) {
	if S == nil || S.killed {
		if S == nil {
			go f()
		}
		return
	}
	name := "go"
	if S.Opt.Trace {
		name = libName()
	}
	S.newThread(name, false, f)
}

// Go0..Go4 replace `go f(args...)` in instrumented code.
func Go0(f func())                                    { spawn(f) }
func Go1[A any](f func(A), a A)                       { spawn(func() { f(a) }) }
func Go2[A, B any](f func(A, B), a A, b B)            { spawn(func() { f(a, b) }) }
func Go3[A, B, C any](f func(A, B, C), a A, b B, c C) { spawn(func() { f(a, b, c) }) }
func Go4[A, B, C, D any](f func(A, B, C, D), a A, b B, c C, d D) {
	spawn(func() { f(a, b, c, d) })
}

// Daemon marks the calling thread as allowed to stay parked when the execution ends.
func Daemon() {
	if S != nil && S.cur != nil {
		S.cur.Daemon = true
	}
}

func Cur() *Thread {
	if S == nil {
		return nil
	}
	return S.cur
}

func (t *Thread) enabledOrdinary(s *Sched) bool {
	if t.done {
		return false
	}
	o := t.op
	if o == nil || o.completed {
		return true
	}
	if o.quiescent {
		return false
	}
	if o.ready == nil {
		return true
	}
	return o.ready()
}

// enabledSet returns the enabled threads in canonical order: the running thread first if
// still enabled, then ascending ids. Quiescence waiters are enabled only if nobody else is.
func (s *Sched) enabledSet(self *Thread, selfAlive bool) (en []*Thread, curEnabled bool) {
	en = s.enBuf[:0]
	defer func() { s.enBuf = en[:0] }()
	if selfAlive && self.enabledOrdinary(s) {
		en = append(en, self)
		curEnabled = true
	}
	for _, t := range s.threads {
		if t != self && t.enabledOrdinary(s) {
			en = append(en, t)
		}
	}
	if len(en) == 0 {
		for _, t := range s.threads {
			if !t.done && t.op != nil && t.op.quiescent && !t.op.completed {
				if t.op.ready == nil || t.op.ready() {
					en = append(en, t)
				}
			}
		}
		if len(en) > 0 && selfAlive && en[0] != self {
			// keep canonical order: self first if present
			for i, t := range en {
				if t == self {
					en[0], en[i] = en[i], en[0]
					curEnabled = true
				}
			}
		} else if len(en) > 0 && selfAlive && en[0] == self {
			curEnabled = true
		}
	}
	return en, curEnabled
}

func (s *Sched) choose(n int, kind byte, curEn bool, costs []int8) int {
	c := 0
	if s.pos < len(s.choices) {
		c = s.choices[s.pos]
		if c >= n || c < 0 {
			s.Diverged = fmt.Sprintf("replay divergence at choice %d: recorded %d, only %d alternatives (kind %c)", s.pos, c, n, kind)
			panic(killT{})
		}
	}
	s.pos++
	s.Choices = append(s.Choices, c)
	s.Points = append(s.Points, ChoicePoint{N: n, Kind: kind, CurEnabled: curEn, Costs: costs})
	return c
}

// handoff picks the next thread to run and transfers the baton. Called by the thread that is
// yielding (finished=false) or has just finished (finished=true).
func (s *Sched) handoff(self *Thread, finished bool) {
	if s.Panic != "" || s.Diverged != "" || s.StepBound || (len(s.Fail) > 0 && s.Opt.StopOnFail) {
		s.endRun(self, finished)
		return
	}
	en, curEn := s.enabledSet(self, !finished)
	if len(en) == 0 {
		s.endRun(self, finished)
		return
	}
	s.Steps++
	if s.Steps > s.Opt.MaxSteps {
		s.StepBound = true
		s.endRun(self, finished)
		return
	}
	c := 0
	if len(en) > 1 {
		func() {
			defer func() {
				if r := recover(); r != nil {
					c = -1
				}
			}()
			c = s.choose(len(en), 's', curEn, nil)
		}()
		if c < 0 {
			s.endRun(self, finished)
			return
		}
	}
	next := en[c]
	if s.Opt.Trace {
		lbl := "start"
		if next.op != nil {
			lbl = next.op.label
		}
		s.TraceLog = append(s.TraceLog, fmt.Sprintf("#%d T%d(%s) %s", s.Steps, next.ID, next.Name, lbl))
	}
	s.cur = next
	if next == self {
		return
	}
	next.gate <- struct{}{}
	if !finished {
		<-self.gate
		if s.killed {
			s.exit(self)
		}
	}
}

func (s *Sched) endRun(self *Thread, finished bool) {
	s.mainGate <- struct{}{}
	if !finished {
		<-self.gate
		if s.killed {
			s.exit(self)
		}
	}
}

func (s *Sched) exit(t *Thread) {
	if t.exiting {
		return
	}
	t.exiting = true
	runtime.Goexit()
}

// yield publishes the pending operation and lets the scheduler decide who runs next.
// It returns when this thread is chosen and the operation is enabled.
func (s *Sched) yield(o *op) {
	if s == nil || !s.running {
		return // driver goroutine (set-up / inspection): pass-through
	}
	t := s.cur
	if s.killed {
		if t != nil {
			s.exit(t)
		}
		return
	}
	t.op = o
	s.handoff(t, false)
	t.op = nil
}

// Point is an unconditional scheduling point.
func Point(label string) {
	if S == nil || !S.running {
		return
	}
	S.yield(&op{label: label})
}

// PointAtomic is the scheduling point placed before atomic operations.
func PointAtomic(label string) {
	if S == nil || !S.running || S.Opt.NoAtomicPoints {
		return
	}
	S.yield(&op{label: label})
}

// PointPool is the (opt-in) scheduling point placed before sync.Pool operations.
func PointPool(label string) {
	if S == nil || !S.running || !S.Opt.PoolPoints {
		return
	}
	S.yield(&op{label: label})
}

// WaitUntil blocks the calling thread until f holds (f is evaluated by the scheduler).
func WaitUntil(label string, f func() bool) {
	if S == nil || !S.running {
		if !f() {
			panic("vrt.WaitUntil outside an execution would block: " + label)
		}
		return
	}
	S.yield(&op{label: label, ready: f})
}

// Quiesce blocks until no ordinary thread is enabled (environment threads use it so that
// each environment event is applied to a settled system).
func Quiesce(label string) {
	if S == nil || !S.running {
		return
	}
	S.yield(&op{label: label, quiescent: true})
}

// Choose is an environment choice point: n alternatives, alternative i costing costs[i]
// deviations (nil = all free). Alternative 0 is the default answer.
func Choose(n int, costs []int8) int {
	if n <= 1 {
		return 0
	}
	s := S
	if costs != nil && costs[0] != 0 {
		panic("vrt.Choose: the default alternative (index 0) must cost 0")
	}
	c := s.choose(n, 'e', false, costs)
	if s.Opt.Trace {
		s.TraceLog = append(s.TraceLog, fmt.Sprintf("   env choice %d of %d", c, n))
	}
	return c
}

// Observe appends to the execution's observation log (part of the determinism fingerprint).
func Observe(format string, a ...any) {
	if S == nil {
		return
	}
	m := fmt.Sprintf(format, a...)
	S.Obs = append(S.Obs, m)
	if S.Opt.Trace {
		S.TraceLog = append(S.TraceLog, "   obs: "+m)
	}
}

// Metric records a named measurement of this execution (the explorer keeps the maximum over all
// executions); used for vacuity guards such as "some stream delivered >= 2 notifications".
func Metric(name string, v int64) {
	if S == nil {
		return
	}
	if S.Metrics == nil {
		S.Metrics = map[string]int64{}
	}
	if v > S.Metrics[name] {
		S.Metrics[name] = v
	}
}

// Failf records an invariant failure observed during the run.
func Failf(sig, format string, a ...any) {
	if S == nil {
		return
	}
	S.Fail = append(S.Fail, Failure{sig, fmt.Sprintf(format, a...)})
}

// Run executes the threads created so far (and those they create) until nothing is enabled.
// ExecStart: functions run at the start of every execution (shims use it to forget state that lives
// in package-level variables of the code under test, e.g. the free lists of sync.Pool stand-ins).
var ExecStart []func()

func (s *Sched) Run() {
	for _, f := range ExecStart {
		f()
	}
	s.running = true
	en, _ := s.enabledSet(nil, false)
	if len(en) > 0 {
		c := 0
		if len(en) > 1 {
			func() {
				defer func() { _ = recover() }()
				c = s.choose(len(en), 's', false, nil)
			}()
		}
		if s.Diverged == "" {
			s.Steps++
			s.cur = en[c]
			if s.Opt.Trace {
				s.TraceLog = append(s.TraceLog, fmt.Sprintf("#%d T%d(%s) start", s.Steps, s.cur.ID, s.cur.Name))
			}
			en[c].gate <- struct{}{}
			<-s.mainGate
		}
	}
	// end of execution: classify, then release everything in kill mode
	for _, t := range s.threads {
		if !t.done && t.App && !t.Daemon {
			s.Deadlock = true
			lbl := "?"
			if t.op != nil {
				lbl = t.op.label
			}
			s.Blocked = append(s.Blocked, fmt.Sprintf("T%d(%s)@%s", t.ID, t.Name, lbl))
		}
	}
	if s.StepBound || s.Panic != "" || s.Diverged != "" {
		s.Deadlock = false
	}
	s.killed = true
	for _, t := range s.threads {
		if !t.done {
			s.cur = t
			t.gate <- struct{}{}
			<-s.mainGate
		}
	}
	s.running = false
	s.cur = nil
}

// Killed reports whether the current execution is over and its threads are being unwound.
func Killed() bool { return S != nil && S.killed }

func (s *Sched) NumThreads() int { return len(s.threads) }

// SetUser / User attach world data to the execution.
func (s *Sched) SetUser(v any) { s.userData = v }
func (s *Sched) User() any     { return s.userData }

var _ = time.Now

// C19 — block option value codec is the RFC 7959 §2.2 mapping on its whole domain.
// Engine E1: complete enumeration of the decoder and encoder domains against a three-line
// specification function; BERT buffer sizing through the real BlockWise.Do.
package main

import (
	"bytes"
	"context"
	"fmt"
	"runtime"
	"sync/atomic"

	"github.com/plgd-dev/go-coap/v3/message"
	"github.com/plgd-dev/go-coap/v3/message/codes"
	"github.com/plgd-dev/go-coap/v3/message/pool"
	"github.com/plgd-dev/go-coap/v3/net/blockwise"

	"verif/ev"
)

// specification (RFC 7959 §2.2): value = NUM<<4 | M<<3 | SZX, at most 24 bits.
func specDecode(v uint64) (szx uint8, num int64, more bool, ok bool) {
	if v > 0xffffff {
		return 0, 0, false, false
	}
	return uint8(v & 7), int64(v >> 4), v&8 != 0, true
}

func specEncode(szx int, num int64, more bool) (uint32, bool) {
	if szx < 0 || szx > 7 || num < 0 || num > 0xfffff {
		return 0, false
	}
	m := uint32(0)
	if more {
		m = 1
	}
	return uint32(num)<<4 | m<<3 | uint32(szx), true
}

func specSize(s int) int64 {
	switch {
	case s >= 0 && s <= 6:
		return 1 << (s + 4)
	case s == 7:
		return 1024
	}
	return -1 // refused
}

type fakeClient struct{ p *pool.Pool }

func (f fakeClient) AcquireMessage(ctx context.Context) *pool.Message { return f.p.AcquireMessage(ctx) }
func (f fakeClient) ReleaseMessage(m *pool.Message)                   { f.p.ReleaseMessage(m) }

func main() {
	r := ev.Start("C19", "exploration")
	nw := runtime.NumCPU()
	var evals, nontriv atomic.Int64

	// ---- decoder
	decLimit := uint64(1<<24 + 1<<8)
	if r.Thorough() {
		decLimit = 1 << 32
	}
	ev.Parallel(nw, func(sh int) {
		lo := decLimit * uint64(sh) / uint64(nw)
		hi := decLimit * uint64(sh+1) / uint64(nw)
		var n, nt int64
		for v := lo; v < hi; v++ {
			szx, num, more, err := blockwise.DecodeBlockOption(uint32(v))
			ss, sn, sm, ok := specDecode(v)
			n++
			if ok {
				nt++
				if err != nil {
					r.Violate(fmt.Sprintf("decode-refuses-valid/num=%#x", classNum(sn)), fmt.Sprintf("DecodeBlockOption(%#x) = error %v, RFC 7959 defines it as (szx=%d,num=%#x,more=%v)", v, err, ss, sn, sm), map[string]any{"op": "decode", "value": v})
					continue
				}
				if uint8(szx) != ss || num != sn || more != sm {
					r.Violate("decode-wrong-triple", fmt.Sprintf("DecodeBlockOption(%#x) = (%d,%#x,%v), want (%d,%#x,%v)", v, szx, num, more, ss, sn, sm), map[string]any{"op": "decode", "value": v})
					continue
				}
				// mutual inverse
				back, eerr := blockwise.EncodeBlockOption(szx, num, more)
				if eerr != nil || uint64(back) != v {
					r.Violate(fmt.Sprintf("encode-of-decoded-differs/num=%#x", classNum(sn)), fmt.Sprintf("Encode(Decode(%#x)) = (%#x,%v)", v, back, eerr), map[string]any{"op": "decode-encode", "value": v})
				}
			} else if err == nil {
				r.Violate("decode-accepts-out-of-domain", fmt.Sprintf("DecodeBlockOption(%#x) accepted a value above 24 bits", v), map[string]any{"op": "decode", "value": v})
			}
		}
		evals.Add(n)
		nontriv.Add(nt)
	})
	r.Sample(map[string]any{"op": "decode", "value": 0xfffffe, "spec": "szx=6 num=0xfffff more=true"})

	// ---- encoder: all 8 x 2^20 x 2 in-domain triples, plus the out-of-domain ring
	ev.Parallel(nw, func(sh int) {
		var n, nt int64
		total := int64(1 << 20)
		for num := total * int64(sh) / int64(nw); num < total*int64(sh+1)/int64(nw); num++ {
			for szx := 0; szx < 8; szx++ {
				for _, more := range []bool{false, true} {
					want, _ := specEncode(szx, num, more)
					got, err := blockwise.EncodeBlockOption(blockwise.SZX(szx), num, more)
					n++
					nt++
					if err != nil {
						r.Violate(fmt.Sprintf("encode-refuses-valid/num=%#x", classNum(num)), fmt.Sprintf("EncodeBlockOption(%d,%#x,%v) = error %v, want %#x", szx, num, more, err, want), map[string]any{"op": "encode", "szx": szx, "num": num, "more": more})
						continue
					}
					if got != want {
						r.Violate("encode-wrong-value", fmt.Sprintf("EncodeBlockOption(%d,%#x,%v) = %#x, want %#x", szx, num, more, got, want), map[string]any{"op": "encode", "szx": szx, "num": num, "more": more})
						continue
					}
					s2, n2, m2, derr := blockwise.DecodeBlockOption(got)
					if derr != nil || int(s2) != szx || n2 != num || m2 != more {
						r.Violate(fmt.Sprintf("decode-of-encoded-differs/num=%#x", classNum(num)), fmt.Sprintf("Decode(Encode(%d,%#x,%v)) = (%d,%#x,%v,%v)", szx, num, more, s2, n2, m2, derr), map[string]any{"op": "encode-decode", "szx": szx, "num": num, "more": more})
					}
				}
			}
		}
		evals.Add(n)
		nontriv.Add(nt)
	})
	r.Sample(map[string]any{"op": "encode", "szx": 7, "num": 0xfffff, "more": true, "spec": "0xffffff"})
	var n int64
	for szx := 0; szx < 256; szx++ {
		for _, num := range []int64{-1 << 63, -1 << 31, -2, -1, 0, 1, 0xffff7, 0xffff8, 0xfffff, 1 << 20, 1<<20 + 1, 1 << 24, 1 << 28, 1 << 31, 1 << 32, 1<<32 + 1, 1<<63 - 1} {
			for _, more := range []bool{false, true} {
				want, ok := specEncode(szx, num, more)
				got, err := blockwise.EncodeBlockOption(blockwise.SZX(szx), num, more)
				n++
				switch {
				case ok && err != nil:
					r.Violate(fmt.Sprintf("encode-refuses-valid/num=%#x", classNum(num)), fmt.Sprintf("EncodeBlockOption(%d,%#x,%v) = error %v", szx, num, more, err), map[string]any{"op": "encode", "szx": szx, "num": num, "more": more})
				case ok && got != want:
					r.Violate("encode-wrong-value", fmt.Sprintf("EncodeBlockOption(%d,%#x,%v) = %#x want %#x", szx, num, more, got, want), map[string]any{"op": "encode", "szx": szx, "num": num, "more": more})
				case !ok && err == nil:
					r.Violate("encode-accepts-out-of-domain", fmt.Sprintf("EncodeBlockOption(%d,%d,%v) = %#x accepted (wrapped/truncated)", szx, num, more, got), map[string]any{"op": "encode", "szx": szx, "num": num, "more": more})
				}
			}
		}
		if got, want := blockwise.SZX(szx).Size(), specSize(szx); (want > 0 && got != want) || (want <= 0 && got > 0) {
			r.Violate("szx-size", fmt.Sprintf("SZX(%d).Size() = %d, want %d", szx, got, want), map[string]any{"op": "size", "szx": szx})
		}
		n++
	}
	evals.Add(n)

	// ---- BERT buffer sizing through the real Do: first block = floor(max/1024)*1024 bytes
	p := pool.New(0, 0)
	bw := blockwise.New(fakeClient{p}, 0, func(error) {}, nil)
	body := make([]byte, 9*1024)
	step := uint32(1)
	var nb int64
	for max := uint32(1024); max <= 8192+1024; max += step {
		req := p.AcquireMessage(context.Background())
		req.SetCode(codes.POST)
		req.SetToken(message.Token{1})
		req.SetBody(bytes.NewReader(body))
		var first int64 = -1
		_, _ = bw.Do(req, blockwise.SZXBERT, max, func(q *pool.Message) (*pool.Message, error) {
			first, _ = q.BodySize()
			return nil, fmt.Errorf("stop")
		})
		want := int64(max/1024) * 1024
		if want > int64(len(body)) {
			want = int64(len(body))
		}
		nb++
		if first != want {
			r.Violate("bert-buffer-size", fmt.Sprintf("BERT first block with maxMessageSize=%d carries %d bytes, want %d", max, first, want), map[string]any{"op": "bert", "max": max})
		}
	}
	evals.Add(nb)
	nontriv.Add(nb)
	r.Sample(map[string]any{"op": "bert-do", "max_message_size": 4100, "spec_first_block_bytes": 4096})

	r.Set("evaluations", evals.Load())
	r.Set("distinct_nontrivial", nontriv.Load())
	r.Set("exhaustive", true)
	r.Set("decoder_inputs", int64(decLimit))
	r.Set("rule", "decoder: every uint32 in [0,limit) (limit=2^24+2^8 quick, 2^32 thorough); encoder: all 8 x 2^20 x 2 in-domain triples plus an out-of-domain ring (szx 0..255 x 17 block numbers incl. negatives and >20 bit); SZX.Size for 0..255; BERT first-block size for every max message size 1024..9216. Non-trivial = input inside the RFC domain (each distinct), compared field-wise with the specification and round-tripped.")
	r.Assume("specification functions specDecode/specEncode/specSize are written from RFC 7959 §2.2, not from the implementation")
	r.Finish()
}

// classNum buckets block numbers so that one defect yields one signature.
func classNum(n int64) int64 {
	if n >= 0xffff8 && n <= 0xfffff {
		return 0xffff8
	}
	return n >> 16 << 16
}

package main

import (
	"context"

	"github.com/plgd-dev/go-coap/v3/message"
	"github.com/plgd-dev/go-coap/v3/message/pool"
	"github.com/plgd-dev/go-coap/v3/net/blockwise"

	"verif/vrt"
	"verif/worlds/udpw"
)

type tdesc struct {
	name string
	mk   func() transport
	cons []bool
}

func transports() []tdesc {
	return append([]tdesc{{"udp", func() transport { return &udpT{} }, []bool{true, false}},
		{"dtls-session", func() transport { return &udpT{dtls: true} }, []bool{true}}}, moreTransports()...)
}

type udpT struct {
	w    *udpw.World
	dtls bool // the real dtls/server.Session over an in-memory datagram conn instead of the in-memory session
}

func (t *udpT) Name() string   { return "udp" }
func (t *udpT) Datagram() bool { return true }
func (t *udpT) Build(bw bool) {
	t.w = udpw.New(udpw.Opts{NStart: 4, MaxRetransmit: 2, LimitTotal: 8, LimitEndpoint: 8, QueueSize: 4, BlockWise: bw, SZX: blockwise.SZX16, DTLS: t.dtls})
}
func (t *udpT) Acquire(ctx context.Context) *pool.Message   { return t.w.CC.AcquireMessage(ctx) }
func (t *udpT) Do(req *pool.Message) (*pool.Message, error) { return t.w.CC.Do(req) }
func (t *udpT) Release(m *pool.Message)                     { t.w.CC.ReleaseMessage(m) }
func (t *udpT) NewOuts() []message.Message {
	var ms []message.Message
	for _, o := range t.w.NewOuts() {
		vrt.Observe("wire-out %s", udpw.Describe(o.M))
		ms = append(ms, o.M)
	}
	return ms
}
func (t *udpT) Inject(m message.Message) {
	vrt.Observe("wire-in %s", udpw.Describe(m))
	_ = t.w.Inject(m)
}
func (t *udpT) PeerMID() int32   { return t.w.PeerMID() }
func (t *udpT) Errors() []string { return t.w.Errors }

package main

import (
	"verif/ev"
	"verif/mcx"
)

func addDiscovery(r *ev.Run, scs *[]*mcx.Scenario) {}

// C02 — the datagram and stream decoders are total, accept/reject exactly as an RFC-derived
// reference parser does (plus three documented leniencies), yield the same fields, canonicalise
// (re-encode + decode is the identity) and, through the pooled-message API, never alias the
// caller's buffer.
//
// Engine E1: bounded-exhaustive enumeration of byte strings (no sampling, no mutation search):
// complete header sweeps, all tails up to length L over a reduced alphabet, all short strings
// over the full alphabet, and the complete truncation / Hamming-1 (thorough: Hamming-2 over the
// reduced alphabet) neighbourhoods of a corpus of reference encodings. See grids.go.
package main

import (
	"bytes"
	"context"
	"encoding/hex"
	"encoding/json"
	"errors"
	"fmt"
	"math"
	"os"
	"os/exec"
	"strings"
	"sync"
	"time"

	"github.com/plgd-dev/go-coap/v3/message"
	"github.com/plgd-dev/go-coap/v3/message/pool"
	tcpcoder "github.com/plgd-dev/go-coap/v3/tcp/coder"
	udpcoder "github.com/plgd-dev/go-coap/v3/udp/coder"

	ref "verif/props/codecref"

	"verif/ev"
)

// replayCase is the stored form of one counterexample.
type replayCase struct {
	Coder string `json:"coder"` // "udp" | "tcp"
	State string `json:"state"` // "" (direct decoder call) or the pooled-message start state
	Input string `json:"input_hex"`
}

type reporter interface {
	Violate(signature, what string, replay any)
}

type printReporter struct{ n int }

func (p *printReporter) Violate(s, what string, replay any) {
	p.n++
	if what != "" {
		fmt.Printf("VIOLATION (replay) signature: %s\n  what: %s\n", s, what)
	}
}

// pooled-message start states
const (
	stFresh    = "fresh"
	stRecycled = "recycled"          // same object, Reset() as ReleaseMessage does
	st40       = "recycled-40opts"   // recycled after decoding a 40-option message (options grown)
	stGrown    = "recycled-grownbuf" // recycled after decoding a 900-byte message (receive buffer grown, kept)
	stBig      = "recycled-bigbuf"   // recycled after decoding a 3000-byte message (buffer dropped by Reset)
	stCap0     = "recycled-cap0"     // recycled after SetMessage(message.Message{}): option capacity 0
)

var allStates = []string{stFresh, stRecycled, st40, stGrown, stBig, stCap0}

type coderAPI interface {
	Size(m message.Message) (int, error)
	Encode(m message.Message, buf []byte) (int, error)
	Decode(data []byte, m *message.Message) (int, error)
}

type worker struct {
	rep  reporter
	slot *ref.Slot
	// published for the watchdog
	curCoder, curStep, curState string
	curData                     []byte

	optsA, optsB message.Options
	enc1, enc2   []byte
	caller       []byte // stands for the caller's receive buffer in the pooled path
	rm, lm, lm2  ref.Msg
	pmRecycled   *pool.Message
	pmState      map[string]*pool.Message
	states       []string // pooled states exercised by fullStates cases

	evals, calls, nontrivDeep int64
	hashes                    []uint64
	verbose                   bool

	mu   sync.Mutex
	best map[string]*finding // per signature: the smallest counterexample seen by this worker
}

// finding is the smallest counterexample of one signature: ordered by (prio, length, bytes), so
// the reported case does not depend on scheduling.
type finding struct {
	count int64
	prio  int
	what  string
	rc    replayCase
	data  []byte
}

func less(prio int, data []byte, f *finding) bool {
	if prio != f.prio {
		return prio < f.prio
	}
	if len(data) != len(f.data) {
		return len(data) < len(f.data)
	}
	return bytes.Compare(data, f.data) < 0
}

// violateLazy records one occurrence; what() is only evaluated for a new smallest counterexample.
func (w *worker) violateLazy(sig string, prio int, coder, state string, data []byte, what func() string) {
	w.mu.Lock()
	defer w.mu.Unlock()
	f := w.best[sig]
	if f == nil {
		f = &finding{prio: 1 << 30}
		w.best[sig] = f
	}
	f.count++
	if f.count == 1 || less(prio, data, f) {
		f.prio, f.data = prio, append([]byte(nil), data...)
		f.what = what() + "; input(" + coder + ")=" + ref.Hex(data)
		f.rc = replayCase{Coder: coder, State: state, Input: hex.EncodeToString(data)}
	}
}

// flush hands the merged findings of all workers to the reporter (smallest case first, then one
// call per further occurrence so that the occurrence count is right).
func flush(workers []*worker, rep reporter) {
	merged := map[string]*finding{}
	for _, w := range workers {
		w.mu.Lock()
		for sig, f := range w.best {
			m := merged[sig]
			if m == nil {
				c := *f
				merged[sig] = &c
				continue
			}
			m.count += f.count
			if less(f.prio, f.data, m) {
				m.prio, m.data, m.what, m.rc = f.prio, f.data, f.what, f.rc
			}
		}
		w.best = map[string]*finding{}
		w.mu.Unlock()
	}
	for sig, f := range merged {
		rep.Violate(sig, f.what, f.rc)
		for i := int64(1); i < f.count; i++ {
			rep.Violate(sig, "", nil)
		}
	}
}

const maxInput = 1 << 18

func newWorker(rep reporter) *worker {
	w := &worker{rep: rep, slot: &ref.Slot{}}
	w.optsA = make(message.Options, 0, 4096)
	w.optsB = make(message.Options, 0, 4096)
	w.enc1 = make([]byte, maxInput+64)
	w.enc2 = make([]byte, maxInput+64)
	w.caller = make([]byte, maxInput)
	w.pmRecycled = pool.NewMessage(context.Background())
	w.pmState = map[string]*pool.Message{}
	w.states = allStates
	w.best = map[string]*finding{}
	w.slot.Describe(func() (string, string, any) {
		st := ""
		if w.curState != "" {
			st = " on a " + w.curState + " pooled message"
		}
		return "call-never-returns/" + w.curStep,
			fmt.Sprintf("%s%s did not return within the watchdog period; input=%s", w.curStep, st, ref.Hex(w.curData)),
			replayCase{Coder: w.curCoder, State: w.curState, Input: hex.EncodeToString(w.curData)}
	})
	return w
}

func (w *worker) step(s string) { w.curStep = s; w.slot.Touch(); w.calls++ }

func (w *worker) violate(sig, what, coder, state string, data []byte) {
	w.violateLazy(sig, 0, coder, state, data, func() string { return what })
}

func (w *worker) optsFor(n int) {
	if cap(w.optsA) < n+2 {
		w.optsA = make(message.Options, 0, n+2)
		w.optsB = make(message.Options, 0, n+2)
	}
}

func errName(err error) string {
	for _, e := range []struct {
		e error
		n string
	}{
		{message.ErrShortRead, "ErrShortRead"}, {message.ErrInvalidTokenLen, "ErrInvalidTokenLen"},
		{message.ErrOptionTruncated, "ErrOptionTruncated"}, {message.ErrOptionUnexpectedExtendMarker, "ErrOptionUnexpectedExtendMarker"},
		{message.ErrOptionsTooSmall, "ErrOptionsTooSmall"}, {message.ErrOptionNotFound, "ErrOptionNotFound"},
		{message.ErrTooSmall, "ErrTooSmall"}, {udpcoder.ErrMessageTruncated, "ErrMessageTruncated"},
		{udpcoder.ErrMessageInvalidVersion, "ErrMessageInvalidVersion"},
	} {
		if errors.Is(err, e.e) {
			return e.n
		}
	}
	return "other-error"
}

// flags of one case
const (
	fPool       = 1 << iota // pooled path on the worker's recycled message
	fFullStates             // pooled path from every start state
	fDeep                   // member of a deep grid (distinct by construction): count, do not hash
)

// check runs every clause of the property on one byte string for one coder.
func (w *worker) check(coder string, data []byte, flags int) {
	w.evals++
	w.curCoder, w.curData, w.curState = coder, data, ""
	defer func() {
		if p := recover(); p != nil {
			w.violate("panic/"+w.curStep, fmt.Sprintf("%s panicked: %v", w.curStep, p), coder, w.curState, data)
		}
	}()
	w.optsFor(len(data))
	var agree, accepted, nontrivial bool
	if coder == "udp" {
		agree, accepted, nontrivial = w.checkUDP(data)
	} else {
		agree, accepted, nontrivial = w.checkTCP(data)
	}
	if nontrivial {
		if flags&fDeep != 0 {
			w.nontrivDeep++
		} else if !inDeep(coder, data) {
			w.hashes = append(w.hashes, hashInput(coder, data))
		}
	}
	if !agree {
		return // what follows would only repeat the discrepancy already reported
	}
	if flags&fFullStates != 0 {
		for _, st := range w.states {
			w.checkPooled(coder, data, st, accepted)
		}
	} else if flags&fPool != 0 {
		w.checkPooled(coder, data, stRecycled, accepted)
	}
}

func hashInput(coder string, data []byte) uint64 {
	h := uint64(14695981039346656037)
	h ^= uint64(coder[0])
	h *= 1099511628211
	for _, b := range data {
		h ^= uint64(b)
		h *= 1099511628211
	}
	h ^= uint64(len(data))
	h *= 1099511628211
	return h
}

// canonical: accepted => Encode succeeds and Decode(Encode(x)) = x, Encode(Decode(Encode(x))) = Encode(x).
func (w *worker) canonical(coder string, cd coderAPI, data []byte, m *message.Message, datagram bool) {
	w.step(coder + ".Encode(decoded message)")
	need := len(data) + 16
	n, err := cd.Encode(*m, w.enc1[:need])
	if err != nil {
		w.violate(coder+"-reencode-fails", fmt.Sprintf("the decoder accepted the input but Encode of the decoded message (%s) returned (%d, %v)", ref.Describe(&w.lm, datagram), n, err), coder, "", data)
		return
	}
	e1 := w.enc1[:n]
	w.step(coder + ".Decode(re-encoded)")
	m2 := message.Message{Options: w.optsB[:0]}
	n2, err := cd.Decode(e1, &m2)
	if err != nil || n2 != n {
		w.violate(coder+"-redecode-fails", fmt.Sprintf("Decode(Encode(Decode(x))) returned (%d, %v), want (%d, nil); re-encoding=%s", n2, err, n, ref.Hex(e1)), coder, "", data)
		return
	}
	ref.FromLib(&m2, &w.lm2)
	if d := ref.Diff(&w.lm, &w.lm2, datagram); d != "" {
		w.violate(coder+"-decode-not-idempotent/"+d, fmt.Sprintf("Decode(Encode(Decode(x))) differs from Decode(x) in %s: first %s, then %s", d, ref.Describe(&w.lm, datagram), ref.Describe(&w.lm2, datagram)), coder, "", data)
		return
	}
	n3, err := cd.Encode(m2, w.enc2[:need])
	if err != nil || !bytes.Equal(w.enc2[:max(n3, 0)], e1) {
		w.violate(coder+"-reencode-not-canonical", fmt.Sprintf("second re-encoding (%d, %v) differs from the first %s", n3, err, ref.Hex(e1)), coder, "", data)
	}
}

func (w *worker) checkUDP(data []byte) (agree, accepted, nontrivial bool) {
	v := ref.ParseDatagram(data, &w.rm)
	nontrivial = v.OK || v.OptsSeen > 0
	w.step("udp.Decode")
	m := message.Message{Options: w.optsA[:0]}
	n, err := udpcoder.DefaultCoder.Decode(data, &m)
	if w.verbose {
		fmt.Printf("reference: ok=%v reason=%q consumed=%d options_parsed=%d %s\n", v.OK, v.Reason, v.Consumed, v.OptsSeen, describeIf(v.OK, &w.rm, true))
		fmt.Printf("udp.Decode: n=%d err=%v\n", n, err)
	}
	switch {
	case !v.OK && err == nil:
		ref.FromLib(&m, &w.lm)
		w.violate("udp-decode-accepts/"+v.Reason, fmt.Sprintf("udp Decode accepted (n=%d, %s) a string the RFC 7252 parser rejects (%s)", n, ref.Describe(&w.lm, true), v.Reason), "udp", "", data)
		return false, false, nontrivial
	case v.OK && err != nil:
		w.violate("udp-decode-rejects-valid/"+errName(err), fmt.Sprintf("udp Decode returned error %q for a string the RFC 7252 parser accepts as %s", err, ref.Describe(&w.rm, true)), "udp", "", data)
		return false, false, nontrivial
	case !v.OK:
		return true, false, nontrivial
	}
	ref.FromLib(&m, &w.lm)
	if n != v.Consumed {
		w.violate("udp-decode-consumed-differs", fmt.Sprintf("udp Decode consumed %d bytes, the datagram has %d", n, v.Consumed), "udp", "", data)
		return false, true, nontrivial
	}
	if d := ref.Diff(&w.rm, &w.lm, true); d != "" {
		w.violate("udp-decode-field-differs/"+d, fmt.Sprintf("udp Decode yields %s, the RFC parser %s (first difference: %s)", ref.Describe(&w.lm, true), ref.Describe(&w.rm, true), d), "udp", "", data)
		return false, true, nontrivial
	}
	w.canonical("udp", udpcoder.DefaultCoder, data, &m, true)
	return true, true, nontrivial
}

func describeIf(ok bool, m *ref.Msg, datagram bool) string {
	if !ok {
		return ""
	}
	return ref.Describe(m, datagram)
}

// tcpCompare runs the library's stream decoder and compares with the reference verdict v / message
// w.rm. It returns sig "" when they agree, else the signature, a priority (0: verdict or field
// difference, 1: only the consumed length differs) and the text.
func (w *worker) tcpCompare(data []byte, v ref.Verdict, m *message.Message) (sig string, prio int, what func() string) {
	n, err := tcpcoder.DefaultCoder.Decode(data, m)
	if w.verbose {
		fmt.Printf("tcp.Decode(%d bytes): n=%d err=%v\n", len(data), n, err)
	}
	switch {
	case !v.OK && err == nil:
		ref.FromLib(m, &w.lm)
		return "tcp-decode-accepts/" + v.Reason, 0, func() string {
			return fmt.Sprintf("tcp Decode accepted (n=%d, %s) a string the RFC 8323 parser rejects (%s)", n, ref.Describe(&w.lm, false), v.Reason)
		}
	case v.OK && err != nil:
		return "tcp-decode-rejects-valid/" + errName(err), 0, func() string {
			return fmt.Sprintf("tcp Decode returned error %q for a string whose first frame the RFC 8323 parser accepts as %s", err, ref.Describe(&w.rm, false))
		}
	case !v.OK:
		return "", 0, nil
	}
	ref.FromLib(m, &w.lm)
	if d := ref.Diff(&w.rm, &w.lm, false); d != "" {
		return "tcp-decode-field-differs/" + d, 0, func() string {
			return fmt.Sprintf("tcp Decode yields (n=%d) %s, the RFC parser (frame of %d bytes) %s (first difference: %s)", n, ref.Describe(&w.lm, false), v.Consumed, ref.Describe(&w.rm, false), d)
		}
	}
	if n != v.Consumed {
		return "tcp-decode-consumed-differs", 1, func() string {
			return fmt.Sprintf("tcp Decode consumed %d bytes, the frame has %d (fields equal)", n, v.Consumed)
		}
	}
	return "", 0, nil
}

func (w *worker) checkTCP(data []byte) (agree, accepted, nontrivial bool) {
	// ---- header pre-parse
	h := ref.ParseStreamHeader(data)
	w.step("tcp.DecodeHeader")
	var lh tcpcoder.MessageHeader
	hn, herr := tcpcoder.DefaultCoder.DecodeHeader(data, &lh)
	if w.verbose {
		fmt.Printf("reference header: status=%d reason=%q hdr=%d total=%d code=%d token=%x\n", h.Status, h.Reason, h.HdrLen, h.Total, h.Code, h.Token)
		fmt.Printf("tcp.DecodeHeader: n=%d err=%v Length=%d MessageLength=%d Code=%d Token=%x\n", hn, herr, lh.Length, lh.MessageLength, lh.Code, lh.Token)
	}
	hsig, hwhat := "", ""
	switch h.Status {
	case ref.HdrOK:
		switch {
		case h.Total > math.MaxUint32:
			if herr == nil {
				hsig, hwhat = "tcp-decodeheader-length-wraps-uint32", fmt.Sprintf("the header announces a frame of %d bytes (>= 2^32); DecodeHeader accepted it and reports MessageLength=%d", h.Total, lh.MessageLength)
			}
		case herr != nil:
			hsig, hwhat = "tcp-decodeheader-rejects-valid/"+errName(herr), fmt.Sprintf("DecodeHeader returned error %q for a complete valid header (header %d bytes, frame %d bytes)", herr, h.HdrLen, h.Total)
		case hn != h.HdrLen || int(lh.Length) != h.HdrLen:
			hsig, hwhat = "tcp-decodeheader-field-differs/header-length", fmt.Sprintf("DecodeHeader reports header length n=%d Length=%d, want %d", hn, lh.Length, h.HdrLen)
		case uint64(lh.MessageLength) != h.Total:
			hsig, hwhat = "tcp-decodeheader-field-differs/message-length", fmt.Sprintf("DecodeHeader reports MessageLength=%d, the frame has %d bytes", lh.MessageLength, h.Total)
		case int(lh.Code) != h.Code:
			hsig, hwhat = "tcp-decodeheader-field-differs/code", fmt.Sprintf("DecodeHeader reports code %d, want %d", lh.Code, h.Code)
		case !bytes.Equal(lh.Token, h.Token):
			hsig, hwhat = "tcp-decodeheader-field-differs/token", fmt.Sprintf("DecodeHeader reports token %x, want %x", lh.Token, h.Token)
		}
	case ref.HdrIncomplete:
		if herr == nil {
			hsig, hwhat = "tcp-decodeheader-accepts-incomplete", fmt.Sprintf("DecodeHeader accepted (n=%d) a string that ends before the header is complete", hn)
		}
	case ref.HdrInvalid:
		if herr == nil {
			hsig, hwhat = "tcp-decodeheader-accepts-"+h.Reason, fmt.Sprintf("DecodeHeader accepted (n=%d, token %x) a header the RFC 8323 parser rejects (%s)", hn, lh.Token, h.Reason)
		}
	}
	if hsig != "" {
		w.violate(hsig, hwhat, "tcp", "", data)
		return false, false, false
	}

	// ---- whole message
	v := ref.ParseStream(data, &w.rm)
	nontrivial = v.OK || v.OptsSeen > 0
	if w.verbose {
		fmt.Printf("reference: ok=%v reason=%q consumed=%d options_parsed=%d %s\n", v.OK, v.Reason, v.Consumed, v.OptsSeen, describeIf(v.OK, &w.rm, false))
	}
	w.step("tcp.Decode")
	m := message.Message{Options: w.optsA[:0]}
	sig, prio, what := w.tcpCompare(data, v, &m)
	if sig != "" && h.Status == ref.HdrOK && uint64(len(data)) > h.Total {
		// bytes follow the frame: does the decoder agree with the reference on the frame alone?
		// (what() of the first comparison is rendered now: the second one reuses w.lm)
		frame := data[:h.Total]
		first := what()
		mf := message.Message{Options: w.optsB[:0]}
		if fsig, _, _ := w.tcpCompare(frame, v, &mf); fsig == "" {
			sig = "tcp-decode-reads-beyond-frame"
			what = func() string {
				return fmt.Sprintf("the header frames %d bytes and %d more bytes follow; on the frame alone tcp Decode agrees with the RFC parser, on the whole string: %s", h.Total, uint64(len(data))-h.Total, first)
			}
		} else {
			what = func() string { return first }
		}
	}
	if sig != "" {
		w.violateLazy(sig, prio, "tcp", "", data, what)
		return false, v.OK, nontrivial
	}
	if !v.OK {
		return true, false, nontrivial
	}
	w.canonical("tcp", tcpcoder.DefaultCoder, data, &m, false)
	return true, true, nontrivial
}

// ---------------------------------------------------------------------------------------------
// pooled-message path

var (
	prep40    = ref.AppendDatagram(nil, &ref.Msg{Code: 1, Opts: repeatOpt(11, []byte("a"), 40)})
	prep900   = ref.AppendDatagram(nil, &ref.Msg{Code: 1, Payload: bytes.Repeat([]byte{0x55}, 900)})
	prep3000  = ref.AppendDatagram(nil, &ref.Msg{Code: 1, Payload: bytes.Repeat([]byte{0x55}, 3000)})
	prep40T   = ref.AppendStream(nil, &ref.Msg{Code: 1, Opts: repeatOpt(11, []byte("a"), 40)})
	prep900T  = ref.AppendStream(nil, &ref.Msg{Code: 1, Payload: bytes.Repeat([]byte{0x55}, 900)})
	prep3000T = ref.AppendStream(nil, &ref.Msg{Code: 1, Payload: bytes.Repeat([]byte{0x55}, 3000)})
)

func repeatOpt(num int, val []byte, n int) []ref.Opt {
	o := make([]ref.Opt, n)
	for i := range o {
		o[i] = ref.Opt{Num: num, Val: val}
	}
	return o
}

// prepare returns a pooled message in the given start state.
func (w *worker) prepare(coder, state string, cd coderAPI) *pool.Message {
	if state == stFresh {
		return pool.NewMessage(context.Background())
	}
	if state == stRecycled {
		w.pmRecycled.Reset()
		return w.pmRecycled
	}
	pm := w.pmState[state]
	if pm == nil {
		pm = pool.NewMessage(context.Background())
		w.pmState[state] = pm
	}
	p40, p900, p3000 := prep40, prep900, prep3000
	if coder == "tcp" {
		p40, p900, p3000 = prep40T, prep900T, prep3000T
	}
	var err error
	switch state {
	case st40:
		pm.Reset()
		_, err = pm.UnmarshalWithDecoder(cd, p40)
	case stGrown:
		pm.Reset()
		_, err = pm.UnmarshalWithDecoder(cd, p900)
	case stBig:
		pm.Reset()
		_, err = pm.UnmarshalWithDecoder(cd, p3000)
	case stCap0:
		pm.SetMessage(message.Message{})
	}
	if err != nil {
		ev.EngineError("preparing pooled state %s: %v", state, err)
	}
	pm.Reset() // what Pool.ReleaseMessage does before the object is handed out again
	return pm
}

func (w *worker) pooledMsg(pm *pool.Message, out *ref.Msg) error {
	body, err := pm.ReadBody()
	if err != nil {
		return err
	}
	lm := message.Message{Token: pm.Token(), Options: pm.Options(), Code: pm.Code(), Payload: body, MessageID: pm.MessageID(), Type: pm.Type()}
	ref.FromLib(&lm, out)
	return nil
}

// checkPooled: the direct decoder already agreed with the reference (w.rm holds the reference
// message when accepted). The pooled API must give the same verdict and fields from every start
// state, and must not alias the caller's buffer.
func (w *worker) checkPooled(coder string, data []byte, state string, accepted bool) {
	var cd coderAPI = tcpcoder.DefaultCoder
	datagram := coder == "udp"
	if datagram {
		cd = udpcoder.DefaultCoder
	}
	w.curState = ""
	w.step("preparing pooled message")
	pm := w.prepare(coder, state, cd)
	buf := w.caller[:len(data)]
	copy(buf, data)
	w.curState = state
	w.step("pool.Message.UnmarshalWithDecoder(" + coder + ")")
	n, err := pm.UnmarshalWithDecoder(cd, buf)
	if w.verbose {
		fmt.Printf("pool.Message[%s].UnmarshalWithDecoder(%s): n=%d err=%v\n", state, coder, n, err)
	}
	if accepted != (err == nil) {
		w.violate("pool-"+coder+"-verdict-differs-from-decoder", fmt.Sprintf("UnmarshalWithDecoder on a %s pooled message returned (%d, %v) although the %s decoder called directly (and the RFC parser) %s the input", state, n, err, coder, map[bool]string{true: "accept", false: "reject"}[accepted]), coder, state, data)
		return
	}
	if !accepted {
		return
	}
	// w.rm still holds the reference message, but its slices point into data, which the caller is
	// allowed to overwrite: compare now, overwrite, compare again.
	if err := w.pooledMsg(pm, &w.lm2); err != nil {
		w.violate("pool-"+coder+"-body-unreadable", fmt.Sprintf("ReadBody after UnmarshalWithDecoder on a %s pooled message: %v", state, err), coder, state, data)
		return
	}
	wantN := len(data)
	if !datagram {
		wantN = int(ref.ParseStreamHeader(data).Total)
	}
	if n != wantN {
		w.violate("pool-"+coder+"-consumed-differs", fmt.Sprintf("UnmarshalWithDecoder on a %s pooled message consumed %d, want %d", state, n, wantN), coder, state, data)
		return
	}
	// stream framing leaves type and message id unset in the pooled message
	if d := ref.Diff(&w.rm, &w.lm2, datagram); d != "" {
		w.violate("pool-"+coder+"-field-differs/"+d, fmt.Sprintf("UnmarshalWithDecoder on a %s pooled message yields %s, the RFC parser %s (first difference: %s)", state, ref.Describe(&w.lm2, datagram), ref.Describe(&w.rm, datagram), d), coder, state, data)
		return
	}
	for i := range buf {
		buf[i] = ^buf[i]
	}
	if err := w.pooledMsg(pm, &w.lm2); err != nil {
		w.violate("pool-"+coder+"-body-unreadable", fmt.Sprintf("ReadBody after the caller's buffer was overwritten: %v", err), coder, state, data)
		return
	}
	if d := ref.Diff(&w.rm, &w.lm2, datagram); d != "" {
		w.violate("pool-aliases-caller-buffer/"+d, fmt.Sprintf("after UnmarshalWithDecoder(%s) on a %s pooled message, overwriting the caller's buffer changed the message's %s: now %s", coder, state, d, ref.Describe(&w.lm2, datagram)), coder, state, data)
	}
	w.curState = ""
}

// ---------------------------------------------------------------------------------------------
// non-termination probe: one pooled decode in a child process that can be killed

const probeTimeout = 5 * time.Second

// probe runs `self --probe` for one case; hung reports that the child had to be killed.
func probe(rc replayCase) (hung bool, out string) {
	ctx, cancel := context.WithTimeout(context.Background(), probeTimeout)
	defer cancel()
	cmd := exec.CommandContext(ctx, os.Args[0], "--probe", "--coder", rc.Coder, "--state", rc.State, "--hex", "x"+rc.Input)
	b, err := cmd.CombinedOutput()
	if ctx.Err() != nil {
		return true, string(b)
	}
	if err != nil && len(b) == 0 {
		ev.EngineError("probe child failed: %v", err)
	}
	return false, string(b)
}

func probeChild() {
	data, err := hex.DecodeString(strings.TrimPrefix(ev.Arg("hex"), "x"))
	if err != nil {
		ev.EngineError("probe: %v", err)
	}
	rep := &printReporter{}
	w := newWorker(rep)
	w.verbose = true
	coder, state := ev.Arg("coder"), ev.Arg("state")
	accepted := false
	if coder == "udp" {
		accepted = ref.ParseDatagram(data, &w.rm).OK
	} else {
		accepted = ref.ParseStream(data, &w.rm).OK
	}
	w.checkPooled(coder, data, state, accepted)
	flush([]*worker{w}, rep)
	fmt.Println("probe: returned")
	os.Exit(0)
}

func replay(path string) {
	b, err := os.ReadFile(path)
	if err != nil {
		ev.EngineError("replay: %v", err)
	}
	var f struct {
		Signature string     `json:"signature"`
		Replay    replayCase `json:"replay"`
	}
	if err := json.Unmarshal(b, &f); err != nil {
		ev.EngineError("replay: %v", err)
	}
	data, err := hex.DecodeString(f.Replay.Input)
	if err != nil {
		ev.EngineError("replay: %v", err)
	}
	fmt.Printf("replaying %s\n  recorded signature: %s\n  coder=%s state=%q input=%s\n", path, f.Signature, f.Replay.Coder, f.Replay.State, ref.Hex(data))
	rep := &printReporter{}
	w := newWorker(rep)
	w.verbose = true
	w.states = nil
	w.check(f.Replay.Coder, data, fFullStates)
	flush([]*worker{w}, rep)
	states := allStates
	if f.Replay.State != "" {
		states = []string{f.Replay.State}
	}
	if rep.n == 0 {
		// pooled path, each start state in a killable child
		for _, st := range states {
			rc := replayCase{Coder: f.Replay.Coder, State: st, Input: f.Replay.Input}
			hung, out := probe(rc)
			fmt.Print(out)
			if hung {
				rep.Violate("pool-unmarshal-never-returns/options-capacity-0", fmt.Sprintf("UnmarshalWithDecoder(%s) on a %s pooled message did not return within %v (child killed); input=%s", rc.Coder, st, probeTimeout, ref.Hex(data)), rc)
			} else if strings.Contains(out, "VIOLATION") {
				rep.n++
			}
		}
	}
	if rep.n == 0 {
		fmt.Println("replay: no violation on this tree")
		os.Exit(0)
	}
	os.Exit(1)
}

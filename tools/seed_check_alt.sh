#!/bin/bash
# tools/seed_check_alt.sh <patch.diff> <check IDs...>: run checks against a scratch copy of /repo with the patch applied
# (never touches /repo; safe while other checks are running).
P=$(readlink -f "$1"); shift
D=$(mktemp -d /tmp/altrepo.XXXXXX)
B=$(cd $(dirname $0)/..; pwd)/.build/alt-$(echo $D | tr / _)
git -C /repo worktree add -q --detach $D HEAD || exit 2
trap 'git -C /repo worktree remove --force '"$D"' 2>/dev/null; rm -rf '"$B"'' EXIT
git -C $D apply "$P" || { echo "patch does not apply"; exit 2; }
for id in "$@"; do
  out=$(cd /verif && VERIF_REPO=$D VERIF_ROOT=/verif/.build/alt-root ./check $id --tier ${VERIF_TIER_ALT:-quick} ${VERIF_EXTRA:-} 2>&1); rc=$?
  echo "== $id exit=$rc"; echo "$out" | grep -E "^(VIOLATION|KNOWN-FINDING|ENGINE-ERROR)|signature:" | cut -c1-220 | sort -u | head -10
done

#!/usr/bin/env python3
# tools/seed_keep.py <ID> <n> <needs> <caught_by> [<history>]: archive a confirmed seeded change under /verif/seeded/<ID>-<n>/
import sys,os,shutil,json,re
ID,n,needs,caught=sys.argv[1:5]; hist=sys.argv[5] if len(sys.argv)>5 else ""
import os as _os
src=_os.environ.get('SEEDDIR','/tmp/seed')+f'/{ID}'; off=int(_os.environ.get('SEEDOFFSET','0')); dst=f'/verif/seeded/{ID}-{int(n)+off}'
os.makedirs(dst,exist_ok=True)
shutil.copy(f'{src}/change{n}.diff',f'{dst}/patch.diff')
shutil.copy(f'{src}/demo{n}_test.go',f'{dst}/demo_test.go')
if os.path.exists(f'{src}/NOTES.md'): shutil.copy(f'{src}/NOTES.md',f'{dst}/NOTES-from-author.md')
d=open(f'{dst}/demo_test.go').read()
m=re.search(r'[Pp]ackage dir(?:ectory)?:?\s*(\S+)',d)
tests=re.findall(r'^func (Test\w+)',d,re.M)
meta={"property":ID,"change":int(n)+off,"origin":"independent sub-agent given only the property text and a scratch worktree",
 "needs_to_manifest":needs,
 "demonstration":{"file":"demo_test.go","package_dir":m.group(1) if m else "","tests":tests,"run":f"copy to <worktree>/{m.group(1) if m else ''}/zz_seed_test.go; go test -vet=off -count=1 -run '^({'|'.join(tests)})$' ./{m.group(1) if m else ''}/"},
 "confirmed_by_me":"tools/seed_confirm.sh in the scratch worktree: demo passes without the change, fails with it; go build ./... ok; tools/baseline.sh: all 428 pinned tests pass with the change",
 "detection":{"caught_by":caught,"history":hist,"how":"tools/seed_check.sh (git -C /repo apply patch.diff; ./check <ID> --tier quick; git -C /repo checkout -- .)"}}
json.dump(meta,open(f'{dst}/meta.json','w'),indent=1)
print("kept",dst)

package main

import (
	"verif/ev"
	"verif/mcx"
)

func addTCP(r *ev.Run, scs *[]*mcx.Scenario) {}

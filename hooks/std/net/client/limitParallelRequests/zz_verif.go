//go:build verif

package limitparallelrequests

// VerifSizes is a read-only accessor injected by the verification overlay (never part of /repo).
func (c *LimitParallelRequests) VerifSizes() (queues int, waiters int, processed int64) {
	for _, q := range c.endpointQueues.CopyData() {
		queues++
		waiters += len(q.orderedRequest)
		processed += q.processedCounter
	}
	return
}

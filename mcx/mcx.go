// Package mcx is the explorer: deviation-bounded depth-first search over the choice sequences
// of executions of real code under the vrt scheduler, sharded over worker processes.
package mcx

import (
	"bufio"
	"encoding/json"
	"fmt"
	"hash/fnv"
	"os"
	"os/exec"
	"runtime"
	"runtime/pprof"
	"sort"
	"strconv"
	"strings"
	"sync"
	"time"

	"verif/ev"
	"verif/vrt"
)

type Finding struct {
	Sig  string `json:"sig"`
	What string `json:"what"`
}

// Bounds on the deviations of one execution from the default choice; -1 = unbounded.
type Bounds struct {
	Preempt int `json:"preempt"` // switches away from a still-enabled thread
	Env     int `json:"env"`     // summed cost of environment deviations
	Select  int `json:"select"`  // select arbitrations other than the first ready case
	// Delay bounds the non-default choices among runnable threads at points where the running thread is
	// blocked or finished (delay-bounded scheduling, Emmi/Qadeer/Rakamaric 2011); 0 = unbounded (every order)
	Delay int `json:"delay,omitempty"`
}

// Scenario is one closed system: Body builds fresh objects and spawns the threads of one
// execution and returns the end-of-execution oracle.
type Scenario struct {
	Name        string
	Opt         vrt.Options
	Bounds      Bounds
	DeadlockOK  bool   // parked application threads at the end are not a finding
	DeadlockSig string // if set, the signature under which a deadlock is reported (default: names of the parked threads)
	Body        func(s *vrt.Sched) func() (outcome string, fs []Finding)
}

type Result struct {
	S        *vrt.Sched
	Outcome  string
	Findings []Finding
}

// PreExec / PostExec are hooks run around every execution (used by the C12 lifecycle tracker).
var (
	PreExec  []func()
	PostExec []func() []Finding
)

// Exec runs one execution of sc on the given choice prefix.
func Exec(sc *Scenario, prefix []int, trace bool) *Result {
	opt := sc.Opt
	opt.Trace = trace
	s := vrt.New(prefix, opt)
	for _, f := range PreExec {
		f()
	}
	check := sc.Body(s)
	s.Run()
	res := &Result{S: s}
	defer func() {
		vrt.S = s // hooks may record metrics of this execution
		for _, f := range PostExec {
			res.Findings = append(res.Findings, f()...)
		}
		vrt.S = nil
	}()
	if s.Diverged != "" {
		res.Findings = append(res.Findings, Finding{"ENGINE/diverged", s.Diverged})
		return res
	}
	if s.Panic != "" {
		first := s.Panic
		if i := strings.Index(first, "\n"); i > 0 {
			first = first[:i]
		}
		res.Findings = append(res.Findings, Finding{"panic: " + stripThread(first), s.Panic})
	}
	if s.StepBound {
		res.Findings = append(res.Findings, Finding{"step-bound (livelock candidate)", fmt.Sprintf("execution exceeded %d scheduling steps", s.Opt.MaxSteps)})
	}
	if s.Deadlock && !sc.DeadlockOK {
		sig := "deadlock: " + strings.Join(s.Blocked, ",")
		if sc.DeadlockSig != "" {
			sig = sc.DeadlockSig
		}
		res.Findings = append(res.Findings, Finding{sig, "application threads parked forever with nothing enabled: " + strings.Join(s.Blocked, ", ")})
	}
	for _, f := range s.Fail {
		res.Findings = append(res.Findings, Finding{f.Sig, f.What})
	}
	if s.Panic == "" && !s.StepBound && check != nil {
		out, fs := check()
		res.Outcome = out
		res.Findings = append(res.Findings, fs...)
	}
	vrt.S = nil
	return res
}

func stripThread(s string) string {
	if i := strings.Index(s, "): "); i > 0 {
		return s[i+3:]
	}
	return s
}

type job struct {
	Scenario int   `json:"sc"`
	Prefix   []int `json:"prefix"`
	Deadline int64 `json:"deadline"` // unix seconds; 0 = none
	Budget   int64 `json:"budget"`   // executions after which unexplored subtrees are handed back to the master as new jobs (0 = none)
}

type foundV struct {
	Finding
	Scenario string   `json:"scenario"`
	Choices  []int    `json:"choices"`
	Trace    []string `json:"trace,omitempty"`
}

type jobResult struct {
	Execs       int64            `json:"execs"`
	Steps       int64            `json:"steps"`
	Nodes       int64            `json:"nodes"`
	MaxPoints   int              `json:"maxPoints"`
	MaxPreempt  int              `json:"maxPreempt"`
	Outcomes    map[string]int64 `json:"outcomes"`
	Found       []foundV         `json:"found"`
	Capped      bool             `json:"capped"`
	EngineError string           `json:"engineError,omitempty"`
	Children    []job            `json:"children,omitempty"`
	ByKind      map[string]int64 `json:"byKind"`
	Metrics     map[string]int64 `json:"metrics"`
}

func newJobResult() *jobResult {
	return &jobResult{Outcomes: map[string]int64{}, ByKind: map[string]int64{}, Metrics: map[string]int64{}}
}

func (a *jobResult) merge(b *jobResult) {
	a.Execs += b.Execs
	a.Steps += b.Steps
	a.Nodes += b.Nodes
	if b.MaxPoints > a.MaxPoints {
		a.MaxPoints = b.MaxPoints
	}
	if b.MaxPreempt > a.MaxPreempt {
		a.MaxPreempt = b.MaxPreempt
	}
	for k, v := range b.Outcomes {
		if _, ok := a.Outcomes[k]; ok || len(a.Outcomes) < outcomeCap*8 {
			a.Outcomes[k] += v
		}
	}
	for k, v := range b.ByKind {
		a.ByKind[k] += v
	}
	for k, v := range b.Metrics {
		if v > a.Metrics[k] {
			a.Metrics[k] = v
		}
	}
	a.Found = append(a.Found, b.Found...)
	a.Capped = a.Capped || b.Capped
	if a.EngineError == "" {
		a.EngineError = b.EngineError
	}
}

const outcomeCap = 100000

// jobBudget: executions a worker spends on one job before it hands the rest of the subtree back.
const jobBudget = 4000

type explorer struct {
	scs      []*Scenario
	sc       *Scenario
	res      *jobResult
	deadline time.Time
	seenSig  map[string]bool
	split    bool // emit children as jobs instead of recursing
	budget   int64
}

func within(b, used int) bool { return b < 0 || used <= b }

func (e *explorer) explore(prefix []int) {
	if !e.deadline.IsZero() && time.Now().After(e.deadline) {
		e.res.Capped = true
		return
	}
	r := Exec(e.sc, prefix, false)
	s := r.S
	e.res.Execs++
	e.res.Steps += int64(s.Steps)
	e.res.Nodes += int64(len(s.Points) - len(prefix))
	for k, v := range s.Metrics {
		if v > e.res.Metrics[k] {
			e.res.Metrics[k] = v
		}
	}
	if len(s.Points) > e.res.MaxPoints {
		e.res.MaxPoints = len(s.Points)
	}
	ok := r.Outcome
	if len(ok) > 48 {
		h := fnv.New64a()
		h.Write([]byte(ok))
		ok = fmt.Sprintf("#%016x", h.Sum64())
	}
	if len(e.res.Outcomes) < outcomeCap || e.res.Outcomes[ok] > 0 {
		e.res.Outcomes[ok]++
	}
	for _, f := range r.Findings {
		if strings.HasPrefix(f.Sig, "ENGINE/") {
			e.res.EngineError = fmt.Sprintf("scenario %s prefix %v: %s", e.sc.Name, prefix, f.What)
			return
		}
		key := e.sc.Name + "|" + f.Sig
		if e.seenSig[key] {
			e.res.ByKind[f.Sig]++
			continue
		}
		e.seenSig[key] = true
		e.res.ByKind[f.Sig]++
		// believe a finding only if it reproduces: replay the exact choice sequence 4 more times
		ch := append([]int{}, s.Choices...)
		for k := 0; k < 4; k++ {
			r2 := Exec(e.sc, ch, false)
			ok := false
			for _, f2 := range r2.Findings {
				if f2.Sig == f.Sig {
					ok = true
				}
			}
			if !ok {
				e.res.EngineError = fmt.Sprintf("scenario %s: finding %q did not reproduce on replay %d of %v", e.sc.Name, f.Sig, k+1, ch)
				return
			}
		}
		rt := Exec(e.sc, ch, true)
		e.res.Found = append(e.res.Found, foundV{Finding: f, Scenario: e.sc.Name, Choices: ch, Trace: rt.S.TraceLog})
	}
	// children: one deviation at a position at or after the prefix
	var pre, env, sl, dl int
	b := e.sc.Bounds
	pts, chs := s.Points, s.Choices
	// cost consumed by the prefix
	cost := func(i int, c int) (dp, de, ds, dd int) {
		p := pts[i]
		switch p.Kind {
		case 's':
			if p.CurEnabled && c != 0 {
				dp = 1
			} else if !p.CurEnabled && c != 0 {
				dd = 1
			}
		case 'c', 'm':
			if c != 0 {
				ds = 1
			}
		case 'e':
			if p.Costs != nil {
				de = int(p.Costs[c])
			}
		}
		return
	}
	for i := 0; i < len(pts); i++ {
		if i >= len(prefix) {
			for alt := 1; alt < pts[i].N; alt++ {
				dp, de, ds, dd := cost(i, alt)
				if !within(b.Preempt, pre+dp) || !within(b.Env, env+de) || !within(b.Select, sl+ds) || (b.Delay > 0 && dl+dd > b.Delay) {
					continue
				}
				child := make([]int, i+1)
				copy(child, chs[:i])
				child[i] = alt
				if e.split || (e.budget > 0 && e.res.Execs >= e.budget) {
					e.res.Children = append(e.res.Children, job{Prefix: child})
				} else {
					e.explore(child)
					if e.res.EngineError != "" {
						return
					}
				}
			}
		}
		dp, de, ds, dd := cost(i, chs[i])
		pre, env, sl, dl = pre+dp, env+de, sl+ds, dl+dd
	}
	if pre > e.res.MaxPreempt {
		e.res.MaxPreempt = pre
	}
}

func runJob(scs []*Scenario, j job, split bool, seen map[string]bool) *jobResult {
	e := &explorer{scs: scs, sc: scs[j.Scenario], res: newJobResult(), seenSig: seen, split: split, budget: j.Budget}
	if j.Deadline > 0 {
		e.deadline = time.Unix(j.Deadline, 0)
	}
	func() {
		defer func() {
			if r := recover(); r != nil {
				buf := make([]byte, 8192)
				n := runtime.Stack(buf, false)
				e.res.EngineError = fmt.Sprintf("explorer panic in scenario %s prefix %v: %v\n%s", e.sc.Name, j.Prefix, r, buf[:n])
			}
		}()
		e.explore(j.Prefix)
	}()
	for i := range e.res.Children {
		e.res.Children[i].Scenario = j.Scenario
		e.res.Children[i].Deadline = j.Deadline
		e.res.Children[i].Budget = j.Budget
	}
	return e.res
}

func workerLoop(scs []*Scenario) {
	in := bufio.NewReaderSize(os.Stdin, 1<<20)
	out := bufio.NewWriter(os.Stdout)
	seen := map[string]bool{}
	for {
		line, err := in.ReadBytes('\n')
		if err != nil {
			return
		}
		var j job
		if err := json.Unmarshal(line, &j); err != nil {
			fmt.Fprintf(os.Stderr, "worker: bad job: %v\n", err)
			os.Exit(2)
		}
		res := runJob(scs, j, false, seen)
		b, _ := json.Marshal(res)
		out.Write(b)
		out.WriteByte('\n')
		out.Flush()
	}
}

// Config of a master run.
type Config struct {
	Wall    time.Duration // wall-clock budget for the whole exploration (0 = 10 min)
	Workers int           // worker processes (0 = NumCPU)
}

// Summary is what Explore reports back to the check.
type Summary struct {
	Execs, Steps, Nodes int64
	Outcomes            map[string]int64
	PerScenario         map[string]*jobResult
	Capped              bool
	Found               []foundV
	Scs                 []*Scenario
	Metrics             map[string]int64
}

// IsWorker reports whether this process was started as a worker.
func IsWorker() bool { return ev.HasFlag("worker") }

// Explore explores every scenario within its bounds. In a worker process it never returns.
func Explore(r *ev.Run, scs []*Scenario, cfg Config) *Summary {
	if only := ev.Arg("only"); only != "" {
		var f []*Scenario
		for _, sc := range scs {
			if strings.Contains(sc.Name, only) {
				f = append(f, sc)
			}
		}
		scs = f
		if !IsWorker() {
			fmt.Printf("--only %q: %d scenarios\n", only, len(scs))
		}
	}
	if IsWorker() {
		workerLoop(scs)
		os.Exit(0)
	}
	if p := ev.Arg("replay"); p != "" {
		replay(scs, p)
		os.Exit(0)
	}
	if cfg.Wall == 0 {
		cfg.Wall = 10 * time.Minute
	}
	if v, err := strconv.Atoi(os.Getenv("VERIF_WALL_S")); err == nil && v > 0 {
		cfg.Wall = time.Duration(v) * time.Second // measurement runs only (sizing of tiers)
	}
	if cfg.Workers == 0 {
		cfg.Workers = runtime.NumCPU()
	}
	if v := os.Getenv("VERIF_WORKERS"); v != "" {
		fmt.Sscan(v, &cfg.Workers)
	}
	if pf := os.Getenv("VERIF_PROF"); pf != "" {
		f, _ := os.Create(pf)
		pprof.StartCPUProfile(f)
		defer pprof.StopCPUProfile()
	}
	deadline := time.Now().Add(cfg.Wall)
	// determinism self-check: the default execution of every scenario twice, traces identical
	for _, sc := range scs {
		a := Exec(sc, nil, true)
		b := Exec(sc, nil, true)
		if fp(a) != fp(b) {
			ev.EngineError("scenario %s is not deterministic: two runs of the empty choice sequence differ\n--- first\n%s\n--- second\n%s", sc.Name, strings.Join(a.S.TraceLog, "\n"), strings.Join(b.S.TraceLog, "\n"))
		}
	}
	// root + first levels in the master, subtrees in the workers
	total := newJobResult()
	per := map[string]*jobResult{}
	for _, sc := range scs {
		per[sc.Name] = newJobResult()
	}
	var queue []job
	seen := map[string]bool{}
	target := cfg.Workers * 6
	for i := range scs {
		level := []job{{Scenario: i, Deadline: deadline.Unix()}}
		if len(scs) >= target {
			queue = append(queue, level...) // many scenarios: whole scenarios are the unit of work
			continue
		}
		for depth := 0; depth < 3 && len(level) > 0 && len(level) < target; depth++ {
			var next []job
			for _, j := range level {
				res := runJob(scs, j, true, seen)
				next = append(next, res.Children...)
				res.Children = nil
				per[scs[i].Name].merge(res)
				total.merge(res)
				if res.EngineError != "" {
					ev.EngineError("%s", res.EngineError)
				}
			}
			level = next
		}
		queue = append(queue, level...)
	}
	if cfg.Workers < 0 {
		for _, j := range queue {
			res := runJob(scs, j, false, seen)
			per[scs[j.Scenario].Name].merge(res)
			total.merge(res)
		}
		queue = nil
	}
	if len(queue) > 0 {
		type wk struct {
			cmd *exec.Cmd
			in  *bufio.Writer
			out *bufio.Reader
		}
		// dynamic work queue: a job that exceeds its execution budget hands its unexplored subtrees back
		sort.SliceStable(queue, func(a, b int) bool { return len(queue[a].Prefix) < len(queue[b].Prefix) })
		for i := range queue {
			queue[i].Budget = jobBudget
		}
		var qmu sync.Mutex
		qcond := sync.NewCond(&qmu)
		inflight := 0
		nextJob := func() (job, bool) {
			qmu.Lock()
			defer qmu.Unlock()
			for len(queue) == 0 && inflight > 0 {
				qcond.Wait()
			}
			if len(queue) == 0 {
				return job{}, false
			}
			j := queue[0]
			queue = queue[1:]
			inflight++
			return j, true
		}
		finishJob := func(children []job) {
			qmu.Lock()
			queue = append(queue, children...)
			inflight--
			qmu.Unlock()
			qcond.Broadcast()
		}
		var mu sync.Mutex
		var wg sync.WaitGroup
		nw := cfg.Workers
		var engineErr string
		for w := 0; w < nw; w++ {
			args := []string{"--worker", "--tier", r.Tier}
			if only := ev.Arg("only"); only != "" {
				args = append(args, "--only", only)
			}
			cmd := exec.Command(os.Args[0], args...)
			cmd.Env = append(os.Environ(), "GOMAXPROCS="+workerProcs())
			cmd.Stderr = os.Stderr
			stdin, _ := cmd.StdinPipe()
			stdout, _ := cmd.StdoutPipe()
			if err := cmd.Start(); err != nil {
				ev.EngineError("cannot start worker: %v", err)
			}
			k := &wk{cmd, bufio.NewWriter(stdin), bufio.NewReaderSize(stdout, 1<<20)}
			wg.Add(1)
			go func() {
				defer wg.Done()
				defer func() { stdin.Close(); _ = k.cmd.Wait() }()
				for {
					j, ok := nextJob()
					if !ok {
						return
					}
					b, _ := json.Marshal(j)
					k.in.Write(b)
					k.in.WriteByte('\n')
					k.in.Flush()
					line, err := k.out.ReadBytes('\n')
					if err != nil {
						mu.Lock()
						engineErr = fmt.Sprintf("worker died on job %s: %v", b, err)
						mu.Unlock()
						finishJob(nil)
						return
					}
					var res jobResult
					if err := json.Unmarshal(line, &res); err != nil {
						mu.Lock()
						engineErr = fmt.Sprintf("bad worker result: %v", err)
						mu.Unlock()
						finishJob(nil)
						return
					}
					mu.Lock()
					per[scs[j.Scenario].Name].merge(&res)
					total.merge(&res)
					if res.EngineError != "" && engineErr == "" {
						engineErr = res.EngineError
					}
					mu.Unlock()
					children := res.Children
					res.Children = nil
					finishJob(children)
				}
			}()
		}
		wg.Wait()
		if engineErr != "" {
			ev.EngineError("%s", engineErr)
		}
	}
	sum := &Summary{Execs: total.Execs, Steps: total.Steps, Nodes: total.Nodes + int64(len(scs)), Outcomes: total.Outcomes, PerScenario: per, Capped: total.Capped, Found: total.Found, Scs: scs, Metrics: total.Metrics}
	// report findings (first per scenario+signature)
	dedup := map[string]bool{}
	for _, f := range total.Found {
		if dedup[f.Sig] {
			continue
		}
		dedup[f.Sig] = true
		r.Violate(f.Sig, f.What+" [scenario "+f.Scenario+"]", map[string]any{"scenario": f.Scenario, "choices": f.Choices, "trace": f.Trace})
	}
	return sum
}

// Report writes the standard model-checking coverage keys.
func Report(r *ev.Run, _ []*Scenario, sum *Summary) {
	scs := sum.Scs
	r.Set("states", sum.Nodes)
	r.Set("transitions", sum.Steps)
	r.Set("traces_validated_against_impl", sum.Execs)
	r.Set("evaluations", sum.Execs)
	r.Set("distinct_outcomes", int64(len(sum.Outcomes)))
	r.Set("distinct_nontrivial", int64(len(sum.Outcomes)))
	r.Set("exhaustive", !sum.Capped)
	r.Set("wall_cap_hit", sum.Capped)
	ps := map[string]any{}
	for _, sc := range scs {
		p := sum.PerScenario[sc.Name]
		ps[sc.Name] = map[string]any{"executions": p.Execs, "steps": p.Steps, "tree_nodes": p.Nodes, "distinct_outcomes": len(p.Outcomes), "max_choice_points": p.MaxPoints, "max_preemptions_used": p.MaxPreempt, "bounds": sc.Bounds, "capped": p.Capped}
	}
	r.Set("scenarios", ps)
	if len(sum.Metrics) > 0 {
		r.Set("max_metrics", sum.Metrics)
	}
	r.Set("states_meaning", "distinct nodes of the choice tree (distinct choice-sequence prefixes) visited; transitions = scheduler steps of the real code executed; every execution is an execution of the compiled go-coap code, so traces_validated_against_impl = executions")
}

func fp(r *Result) string {
	h := fnv.New64a()
	for _, l := range r.S.TraceLog {
		h.Write([]byte(l))
		h.Write([]byte{0})
	}
	for _, l := range r.S.Obs {
		h.Write([]byte(l))
		h.Write([]byte{1})
	}
	fmt.Fprint(h, r.S.Choices, r.Outcome)
	for _, f := range r.Findings {
		h.Write([]byte(f.Sig))
	}
	return fmt.Sprintf("%x", h.Sum64())
}

func replay(scs []*Scenario, path string) {
	b, err := os.ReadFile(path)
	if err != nil {
		ev.EngineError("replay: %v", err)
	}
	var f struct {
		Signature string `json:"signature"`
		Replay    struct {
			Scenario string `json:"scenario"`
			Choices  []int  `json:"choices"`
		} `json:"replay"`
	}
	if err := json.Unmarshal(b, &f); err != nil {
		ev.EngineError("replay: %v", err)
	}
	for _, sc := range scs {
		if sc.Name == f.Replay.Scenario {
			res := Exec(sc, f.Replay.Choices, true)
			fmt.Printf("replay of %s in scenario %s, %d choices\n", f.Signature, sc.Name, len(f.Replay.Choices))
			for _, l := range res.S.TraceLog {
				fmt.Println(l)
			}
			fmt.Printf("outcome: %s\n", res.Outcome)
			for _, fd := range res.Findings {
				fmt.Printf("FINDING %s: %s\n", fd.Sig, fd.What)
			}
			if len(res.Findings) == 0 {
				fmt.Println("no finding on this tree")
			}
			return
		}
	}
	ev.EngineError("replay: unknown scenario %q", f.Replay.Scenario)
}

func workerProcs() string {
	if v := os.Getenv("VERIF_WORKER_PROCS"); v != "" {
		return v
	}
	return "1"
}

// Free-running race pass for C11 (supplementary, DESIGN §3.2.7): the received-message reader
// (queue, loop, loop replacement from handlers and from other goroutines) on the UNINSTRUMENTED
// package under `-race`. Sampling: it can only ADD a violation.
package main

import (
	"context"
	"fmt"
	"os"
	"strconv"
	"sync"
	"sync/atomic"

	"github.com/plgd-dev/go-coap/v3/message/pool"
	"github.com/plgd-dev/go-coap/v3/net/client"
)

type cc struct {
	done    chan struct{}
	reader  *client.ReceivedMessageReader[*cc]
	handled atomic.Int64
}

func (c *cc) Done() <-chan struct{} { return c.done }
func (c *cc) ProcessReceivedMessage(req *pool.Message) {
	n := c.handled.Add(1)
	if n%3 == 0 {
		c.reader.TryToReplaceLoop() // what a handler does before it blocks on a nested request
	}
}

func main() {
	iters := 20000
	if len(os.Args) > 1 {
		iters, _ = strconv.Atoi(os.Args[1])
	}
	for _, q := range []int{0, 1, 16} {
		c := &cc{done: make(chan struct{})}
		c.reader = client.NewReceivedMessageReader(c, q)
		var wg sync.WaitGroup
		for g := 0; g < 2; g++ {
			wg.Add(1)
			go func() {
				defer wg.Done()
				for i := 0; i < iters; i++ {
					c.reader.C() <- pool.NewMessage(context.Background())
				}
			}()
		}
		wg.Add(1)
		go func() {
			defer wg.Done()
			for i := 0; i < iters; i++ {
				c.reader.TryToReplaceLoop() // a request issued from another goroutine
			}
		}()
		wg.Wait()
		for c.handled.Load() < int64(2*iters) {
			c.reader.TryToReplaceLoop()
		}
		close(c.done)
	}
	fmt.Printf("race-pass: 3 queue sizes x %d messages x 2 producers + replacer, no race reported\n", iters)
}

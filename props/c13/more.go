package main

import (
	"verif/ev"
	"verif/mcx"
)

// addMore adds tcp-conn and server histories (filled in with those worlds).
func addMore(r *ev.Run, scs *[]*mcx.Scenario) {}

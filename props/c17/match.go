package main

// Matching part of C17 (engine E1): bounded-exhaustive, deterministic enumeration — nothing is
// sampled. The real mux.Router is driven through mux.ToHandler (the adapter every server
// uses: fresh RouteParams, muxResponseWriter over a real responsewriter.ResponseWriter) with
// request messages that were encoded and decoded by the UDP coder, and every dispatch is
// compared with a reference matcher written from the statement.
//
// Reading of the statement used by the reference:
//
//   - Request path. RFC 7252 §6.5 (steps 6-7 of composing a URI from options), restated by
//     message.Options.Path ("joins URIPath options by '/'") and mux.FilterPath ("" -> "/"):
//     the path is, for every Uri-Path option in order, "/" followed by the option value; a
//     request with no Uri-Path option has the path "/". Hence [""] -> "/", ["a",""] -> "/a/",
//     ["",""] -> "//".
//   - Pattern. Gorilla-style template (mux/regexp.go is "taken and adapted from gorilla/mux"):
//     literal text with first-level {name} or {name:expr} pieces; {name} stands for
//     {name:[^/]+}. A pattern matches a path iff the WHOLE path can be split into the literal
//     pieces (compared byte-wise, so regex metacharacters in literals are plain text) and one
//     substring per variable such that each substring fully matches its expression.
//   - "Longer". Length of the pattern string as registered (the only length the statement and
//     the comment on Router.Match, "Most-specific (longest) pattern wins", can refer to). No
//     tie rule is documented, so among matching patterns of maximal length any is accepted.
//   - Variables. RouteParams.Vars must be one of the reference's splits (name -> substring);
//     for every pattern of the grid the split is unique. RouteParams.PathTemplate must be the
//     pattern of the invoked handler.
//   - Middlewares. Router.Use: "executed in the order that they are applied to the Router":
//     first registered = outermost, each exactly once around the one handler (registered or
//     default).
//   - Registration. The statement constrains dispatch only. A pattern whose Handle returns an
//     error (or panics) counts as not registered; the only demand is that it is never
//     dispatched to. HandleRemove that returns nil makes the pattern not registered.

import (
	"context"
	"encoding/json"
	"fmt"
	"os"
	"reflect"
	"regexp"
	"runtime"
	"sort"
	"strings"
	"sync"
	"sync/atomic"

	"github.com/plgd-dev/go-coap/v3/message"
	"github.com/plgd-dev/go-coap/v3/message/codes"
	"github.com/plgd-dev/go-coap/v3/message/pool"
	"github.com/plgd-dev/go-coap/v3/mux"
	"github.com/plgd-dev/go-coap/v3/net/responsewriter"
	"github.com/plgd-dev/go-coap/v3/udp/coder"

	"verif/ev"
)

// ---------------------------------------------------------------------------------------------
// the space

// mainPatterns: the 16 patterns of DESIGN.md §4 C17.
var mainPatterns = []string{
	// literals, incl. regex metacharacters and the root
	"/a", "/a/b", "/a.b", "/a+b", "/",
	// variables
	"/{x}", "/a/{x}", "/{x}/b", "/{x}/{y}", "/a/{x:[0-9]+}", "/{x:a|b}", "/{rest:.*}", "/a{x}",
	// equal-length overlaps: "/{y}" ~ "/{x}" ~ "/a/b" ~ "/a.b" ~ "/a+b" (4), "/a/{x}" ~ "/{x}/b" (6),
	// "/a/{y:[0-9]*}" ~ "/a/{x:[0-9]+}" (13); trailing empty segment
	"/{y}", "/a/{y:[0-9]*}", "/{x}/",
}

// extraPatterns are combined with every main pattern in a smaller grid.
var extraPatterns = []string{
	"/a/",           // literal with a trailing empty segment
	"a",             // no leading slash: can never equal a request path
	"/{x:[0-9]{1}}", // nested braces inside the expression
	"/{x}.{y}",      // regex metacharacter as the literal between two variables
}

// invalidPatterns: the router is expected to refuse these; they must never be dispatched to.
var invalidPatterns = []string{"/{x", "/x}", "/{:a}", "/{x:}", "/a/{x:[}", "/{x:(a)}"}

var segAlphabet = []string{"a", "b", "1", "a.b", "a+b", ""}

// allSegLists: every Uri-Path option list of <= 3 segments over segAlphabet; index 0 is the
// empty list = a request without any Uri-Path option.
func allSegLists() [][]string {
	out := [][]string{{}}
	prev := [][]string{{}}
	for n := 1; n <= 3; n++ {
		var cur [][]string
		for _, p := range prev {
			for _, s := range segAlphabet {
				l := append(append([]string{}, p...), s)
				cur = append(cur, l)
			}
		}
		out = append(out, cur...)
		prev = cur
	}
	// plus four requests whose path exceeds the 32-byte first buffer of message.Options.Path
	// (40-byte segment) or uses the longest legal segment (255 bytes)
	l40, l255 := strings.Repeat("a", 40), strings.Repeat("b", 255)
	out = append(out, []string{l40}, []string{l255}, []string{"a", l40}, []string{l40, "b"})
	return out
}

// refPath: see "Request path" above.
func refPath(segs []string) string {
	if len(segs) == 0 {
		return "/"
	}
	var b strings.Builder
	for _, s := range segs {
		b.WriteByte('/')
		b.WriteString(s)
	}
	return b.String()
}

// ---------------------------------------------------------------------------------------------
// the reference matcher

type refPiece struct {
	isVar bool
	lit   string
	name  string
	expr  string
	full  *regexp.Regexp // ^(?:expr)$
}

type refPattern struct {
	src    string
	valid  bool
	pieces []refPiece
	whole  *regexp.Regexp // anchored concatenation; used only to cross-check the split matcher
}

func parseRef(p string) *refPattern {
	rp := &refPattern{src: p}
	depth, litStart, varStart := 0, 0, 0
	for i := 0; i < len(p); i++ {
		switch p[i] {
		case '{':
			if depth == 0 {
				if i > litStart {
					rp.pieces = append(rp.pieces, refPiece{lit: p[litStart:i]})
				}
				varStart = i + 1
			}
			depth++
		case '}':
			depth--
			if depth < 0 {
				return rp
			}
			if depth == 0 {
				body := p[varStart:i]
				name, expr := body, "[^/]+"
				if k := strings.IndexByte(body, ':'); k >= 0 {
					name, expr = body[:k], body[k+1:]
				}
				if name == "" || expr == "" {
					return rp
				}
				re, err := regexp.Compile("^(?:" + expr + ")$")
				if err != nil {
					return rp
				}
				rp.pieces = append(rp.pieces, refPiece{isVar: true, name: name, expr: expr, full: re})
				litStart = i + 1
			}
		}
	}
	if depth != 0 {
		return rp
	}
	if litStart < len(p) {
		rp.pieces = append(rp.pieces, refPiece{lit: p[litStart:]})
	}
	var b strings.Builder
	b.WriteString("^")
	for _, pc := range rp.pieces {
		if pc.isVar {
			b.WriteString("(?:" + pc.expr + ")")
		} else {
			b.WriteString(regexp.QuoteMeta(pc.lit))
		}
	}
	b.WriteString("$")
	re, err := regexp.Compile(b.String())
	if err != nil {
		return rp
	}
	rp.whole = re
	rp.valid = true
	return rp
}

// splits returns every assignment name->substring under which the whole path matches; nil = no match.
func (rp *refPattern) splits(path string) []map[string]string {
	if !rp.valid {
		return nil
	}
	var out []map[string]string
	var vals []string
	var rec func(pi, pos int)
	rec = func(pi, pos int) {
		if pi == len(rp.pieces) {
			if pos == len(path) {
				m := map[string]string{}
				k := 0
				for _, pc := range rp.pieces {
					if pc.isVar {
						m[pc.name] = vals[k]
						k++
					}
				}
				out = append(out, m)
			}
			return
		}
		pc := rp.pieces[pi]
		if !pc.isVar {
			if strings.HasPrefix(path[pos:], pc.lit) {
				rec(pi+1, pos+len(pc.lit))
			}
			return
		}
		for end := pos; end <= len(path); end++ {
			if pc.full.MatchString(path[pos:end]) {
				vals = append(vals, path[pos:end])
				rec(pi+1, end)
				vals = vals[:len(vals)-1]
			}
		}
	}
	rec(0, 0)
	return out
}

// refTable[pattern][pathIndex] = splits; built once, read-only afterwards.
type refTable struct {
	lists [][]string
	paths []string
	pat   map[string]*refPattern
	m     map[string][][]map[string]string
}

func buildRef(patterns []string) *refTable {
	t := &refTable{lists: allSegLists(), pat: map[string]*refPattern{}, m: map[string][][]map[string]string{}}
	for _, l := range t.lists {
		t.paths = append(t.paths, refPath(l))
	}
	for _, p := range patterns {
		rp := parseRef(p)
		t.pat[p] = rp
		rows := make([][]map[string]string, len(t.paths))
		for i, path := range t.paths {
			rows[i] = rp.splits(path)
			if rp.valid && (rows[i] != nil) != rp.whole.MatchString(path) {
				ev.EngineError("reference self-check: split matcher and anchored concatenation disagree on pattern %q path %q", p, path)
			}
		}
		t.m[p] = rows
	}
	return t
}

// ---------------------------------------------------------------------------------------------
// one case

type caseT struct {
	Grid     string   `json:"grid"`
	Routes   []string `json:"routes"`                    // in registration order
	Remove   []string `json:"remove,omitempty"`          // HandleRemove after all Handle calls
	Twice    bool     `json:"register_twice,omitempty"`  // every route registered a second time with a new handler
	MW       []int    `json:"middlewares"`               // ids in Use order
	Variadic bool     `json:"use_variadic,omitempty"`    // one Use(m...) call instead of one per middleware
	UseAfter bool     `json:"use_after,omitempty"`       // Use is called after the routes are registered
	Builtin  bool     `json:"builtin_default,omitempty"` // no DefaultHandle: NewRouter's NotFound handler
	Segs     []string `json:"uri_path"`                  // Uri-Path option values; empty = no option
	canon    bool     // counts towards distinct_nontrivial
}

func (c caseT) String() string {
	s := fmt.Sprintf("routes %q (registration order)", c.Routes)
	if len(c.Remove) > 0 {
		s += fmt.Sprintf(", then HandleRemove %q", c.Remove)
	}
	if c.Twice {
		s += ", every route registered twice"
	}
	if len(c.MW) > 0 {
		s += fmt.Sprintf(", Use order m%v", c.MW)
		if c.UseAfter {
			s += " (Use after Handle)"
		}
	}
	if c.Builtin {
		s += ", built-in default handler"
	}
	return s
}

type fakeConn struct{ mux.Conn }

func (*fakeConn) AcquireMessage(ctx context.Context) *pool.Message { return pool.NewMessage(ctx) }
func (*fakeConn) ReleaseMessage(*pool.Message)                     {}

const (
	hitDefault = -1
	hitStale   = -2 // handler that was replaced by a second Handle of the same pattern
)

type hit struct {
	id   int // index into Routes, hitDefault or hitStale
	vars map[string]string
	tmpl string
}

type world struct {
	c        caseT
	serve    func(w *responsewriter.ResponseWriter[*fakeConn], r *pool.Message)
	conn     *fakeConn
	hits     []hit
	events   []string
	status   map[string]string // pattern -> "registered" | "refused" | "removed"
	refused  []string
	regPanic []string
}

func (w *world) record(id int, r *mux.Message) {
	h := hit{id: id}
	if r != nil && r.RouteParams != nil {
		h.tmpl = r.RouteParams.PathTemplate
		if r.RouteParams.Vars != nil {
			h.vars = make(map[string]string, len(r.RouteParams.Vars))
			for k, v := range r.RouteParams.Vars {
				h.vars[k] = v
			}
		}
	}
	w.hits = append(w.hits, h)
	w.events = append(w.events, "H")
}

func newWorld(c caseT) *world {
	w := &world{c: c, conn: &fakeConn{}, status: map[string]string{}}
	router := mux.NewRouter()
	router.SetErrorHandler(func(error) {})
	if !c.Builtin {
		router.DefaultHandle(mux.HandlerFunc(func(_ mux.ResponseWriter, r *mux.Message) { w.record(hitDefault, r) }))
	}
	mws := make([]mux.MiddlewareFunc, 0, len(c.MW))
	for _, id := range c.MW {
		id := id
		mws = append(mws, func(next mux.Handler) mux.Handler {
			return mux.HandlerFunc(func(rw mux.ResponseWriter, r *mux.Message) {
				w.events = append(w.events, fmt.Sprintf("m%d<", id))
				next.ServeCOAP(rw, r)
				w.events = append(w.events, fmt.Sprintf("m%d>", id))
			})
		})
	}
	use := func() {
		if c.Variadic {
			router.Use(mws...)
			return
		}
		for _, m := range mws {
			router.Use(m)
		}
	}
	if !c.UseAfter {
		use()
	}
	register := func(i int, p string, id int, useFunc bool) {
		defer func() {
			if e := recover(); e != nil {
				w.status[p] = "refused"
				w.refused = append(w.refused, p)
				w.regPanic = append(w.regPanic, fmt.Sprintf("%q: %v", p, e))
			}
		}()
		f := func(_ mux.ResponseWriter, r *mux.Message) { w.record(id, r) }
		if useFunc {
			router.HandleFunc(p, f) // panics on a refused pattern (documented)
			w.status[p] = "registered"
			return
		}
		if err := router.Handle(p, mux.HandlerFunc(f)); err != nil {
			w.status[p] = "refused"
			w.refused = append(w.refused, p)
			return
		}
		w.status[p] = "registered"
	}
	for i, p := range c.Routes {
		// Handle for even positions, HandleFunc for odd ones; always Handle where a refusal is expected
		useFunc := i%2 == 1 && c.Grid != "refused"
		if c.Twice {
			register(i, p, hitStale, useFunc)
		}
		register(i, p, i, useFunc)
	}
	for _, p := range c.Remove {
		if err := router.HandleRemove(p); err == nil {
			w.status[p] = "removed"
		}
	}
	if c.UseAfter {
		use()
	}
	w.serve = mux.ToHandler[*fakeConn](router)
	return w
}

// newRequest builds a confirmable GET with the given Uri-Path options, sends it through the UDP
// encoder and decoder (what a server hands to the router) and checks the options survived.
func newRequest(segs []string) *pool.Message {
	ctx := context.Background()
	m := pool.NewMessage(ctx)
	m.SetCode(codes.GET)
	m.SetToken(message.Token{0x17})
	m.SetMessageID(0x1717)
	m.SetType(message.Confirmable)
	for _, s := range segs {
		m.AddOptionString(message.URIPath, s)
	}
	b, err := m.MarshalWithEncoder(coder.DefaultCoder)
	if err != nil {
		ev.EngineError("cannot encode request with Uri-Path %q: %v", segs, err)
	}
	d := pool.NewMessage(ctx)
	if _, err := d.UnmarshalWithDecoder(coder.DefaultCoder, b); err != nil {
		ev.EngineError("cannot decode request with Uri-Path %q: %v", segs, err)
	}
	var got []string
	for _, o := range d.Options() {
		if o.ID == message.URIPath {
			got = append(got, string(o.Value))
		}
	}
	if len(got) != len(segs) {
		ev.EngineError("request with Uri-Path %q decodes to %q", segs, got)
	}
	for i := range got {
		if got[i] != segs[i] {
			ev.EngineError("request with Uri-Path %q decodes to %q", segs, got)
		}
	}
	return d
}

type stats struct {
	evals, nontriv, toDefault, toRoute, ties int64
	viol                                     map[string]*found // per signature: the smallest case in enumeration order, and the count
	wi                                       int               // index of the world being run (enumeration order: small route sets first)
}

type found struct {
	wi, pi int
	what   string
	replay caseT
	n      int
}

func (st *stats) violate(sig string, pi int, what func() string, c caseT) {
	if st.viol == nil {
		st.viol = map[string]*found{}
	}
	f := st.viol[sig]
	if f == nil {
		st.viol[sig] = &found{wi: st.wi, pi: pi, what: what(), replay: c, n: 1}
		return
	}
	f.n++
	if st.wi < f.wi || (st.wi == f.wi && pi < f.pi) {
		f.wi, f.pi, f.what, f.replay = st.wi, pi, what(), c
	}
}

// flush hands the violations to the reporting layer: smallest case first, then the count.
func flush(r *ev.Run, parts ...*stats) {
	merged := map[string]*found{}
	for _, st := range parts {
		for sig, f := range st.viol {
			m := merged[sig]
			if m == nil {
				cp := *f
				merged[sig] = &cp
				continue
			}
			m.n += f.n
			if f.wi < m.wi || (f.wi == m.wi && f.pi < m.pi) {
				m.wi, m.pi, m.what, m.replay = f.wi, f.pi, f.what, f.replay
			}
		}
	}
	for sig, f := range merged {
		for i := 0; i < f.n; i++ {
			r.Violate(sig, f.what, f.replay)
		}
	}
}

type observation struct {
	Path       string   `json:"path"`
	Candidates []string `json:"reference_matching_routes"`
	Want       string   `json:"want"`
	Got        string   `json:"got"`
	Events     []string `json:"events"`
}

// dispatch runs one ServeCOAP on w and judges it. req must carry exactly t.lists[pi].
func dispatch(t *refTable, w *world, pi int, req *pool.Message, st *stats) observation {
	c := w.c
	c.Segs = t.lists[pi]
	path := t.paths[pi]
	w.hits, w.events = w.hits[:0], w.events[:0]
	resp := pool.NewMessage(context.Background())
	rw := responsewriter.New(resp, w.conn)
	var panicked any
	func() {
		defer func() { panicked = recover() }()
		w.serve(rw, req)
	}()
	st.evals++

	// reference: registered routes matching the whole path, and the maximal pattern length
	var cands []string
	maxLen := -1
	for _, p := range c.Routes {
		if w.status[p] != "registered" || t.m[p][pi] == nil {
			continue
		}
		dup := false
		for _, q := range cands {
			dup = dup || q == p
		}
		if dup {
			continue
		}
		cands = append(cands, p)
		if len(p) > maxLen {
			maxLen = len(p)
		}
	}
	var best []string
	for _, p := range cands {
		if len(p) == maxLen {
			best = append(best, p)
		}
	}
	if len(cands) > 0 {
		st.toRoute++
		if c.canon {
			st.nontriv++
		}
		if len(best) > 1 {
			st.ties++
		}
	} else {
		st.toDefault++
	}
	want := "default handler"
	if len(best) > 0 {
		want = fmt.Sprintf("handler of one of %q", best)
	}
	got := describeHits(c, w.hits)
	obs := observation{Path: path, Candidates: cands, Want: want, Got: got, Events: append([]string{}, w.events...)}
	evCopy := append([]string{}, w.events...)
	bad := func(sig, detail string) {
		st.violate(sig, pi, func() string {
			return fmt.Sprintf("%s; request Uri-Path %q (path %q): %s [want %s, got %s, trace %v]", c, c.Segs, path, detail, want, got, evCopy)
		}, c)
	}
	if panicked != nil {
		bad("panic-in-dispatch", fmt.Sprintf("ServeCOAP panicked: %v", panicked))
		return obs
	}

	// --- exactly one handler, and the right one
	expectHandlerEvent := true
	switch {
	case len(w.hits) > 1:
		bad("multiple-handlers-invoked", fmt.Sprintf("%d handlers ran for one request", len(w.hits)))
	case len(w.hits) == 0 && c.Builtin && len(cands) == 0:
		// the built-in default is not a recording handler: it is observed through its response
		expectHandlerEvent = false
		if resp.Code() != codes.NotFound {
			bad("builtin-default-not-notfound", fmt.Sprintf("nothing matches and no handler is registered for the path, response code is %v instead of NotFound", resp.Code()))
		}
	case len(w.hits) == 0 && len(cands) > 0:
		bad("no-handler-invoked/route-matches", "no handler ran although a registered route matches")
	case len(w.hits) == 0:
		bad("no-handler-invoked/nothing-matches", "neither a route nor the default handler ran")
	default:
		h := w.hits[0]
		switch {
		case h.id == hitDefault:
			if len(cands) > 0 {
				bad("default-invoked-although-route-matches", "the default handler ran although a registered route matches the whole path")
			}
		case h.id == hitStale:
			bad("dispatch-to-replaced-handler", "a handler that had been replaced by a later Handle of the same pattern ran")
		default:
			p := c.Routes[h.id]
			switch {
			case w.status[p] == "removed":
				bad("dispatch-to-removed-route", fmt.Sprintf("handler of %q ran after HandleRemove returned nil", p))
			case w.status[p] == "refused":
				bad("dispatch-to-refused-pattern", fmt.Sprintf("handler of %q ran although its registration was refused", p))
			case t.m[p][pi] == nil:
				bad("dispatch-to-nonmatching-route", fmt.Sprintf("handler of %q ran but the pattern does not match the whole path", p))
			case len(p) < maxLen:
				bad("dispatch-to-shorter-route", fmt.Sprintf("handler of %q (length %d) ran although the matching pattern(s) %q are longer (%d)", p, len(p), best, maxLen))
			default:
				if h.tmpl != p {
					bad("path-template-mismatch", fmt.Sprintf("handler of %q got RouteParams.PathTemplate %q", p, h.tmpl))
				}
				ok := false
				for _, s := range t.m[p][pi] {
					ok = ok || equalVars(s, h.vars)
				}
				if !ok {
					bad("vars-mismatch", fmt.Sprintf("handler of %q got Vars %v, the substrings of the path are %v", p, h.vars, t.m[p][pi]))
				}
			}
		}
	}

	// --- middlewares: first registered outermost, each exactly once around the handler
	var wantEv []string
	for _, id := range c.MW {
		wantEv = append(wantEv, fmt.Sprintf("m%d<", id))
	}
	if expectHandlerEvent {
		wantEv = append(wantEv, "H")
	}
	for i := len(c.MW) - 1; i >= 0; i-- {
		wantEv = append(wantEv, fmt.Sprintf("m%d>", c.MW[i]))
	}
	if len(w.hits) == 1 || !expectHandlerEvent {
		if !reflect.DeepEqual(wantEv, append([]string{}, w.events...)) && !(len(wantEv) == 0 && len(w.events) == 0) {
			a, b := append([]string{}, wantEv...), append([]string{}, w.events...)
			sort.Strings(a)
			sort.Strings(b)
			if reflect.DeepEqual(a, b) {
				bad("middleware-order", fmt.Sprintf("middleware/handler trace is %v, registration order demands %v", w.events, wantEv))
			} else {
				bad("middleware-count", fmt.Sprintf("middleware/handler trace is %v, want each middleware exactly once: %v", w.events, wantEv))
			}
		}
	}
	return obs
}

func equalVars(a, b map[string]string) bool {
	if len(a) != len(b) {
		return false
	}
	for k, v := range a {
		if w, ok := b[k]; !ok || w != v {
			return false
		}
	}
	return true
}

func describeHits(c caseT, hs []hit) string {
	if len(hs) == 0 {
		return "no recording handler"
	}
	var parts []string
	for _, h := range hs {
		switch h.id {
		case hitDefault:
			parts = append(parts, "default handler")
		case hitStale:
			parts = append(parts, "replaced handler")
		default:
			parts = append(parts, fmt.Sprintf("handler of %q (Vars %v, PathTemplate %q)", c.Routes[h.id], h.vars, h.tmpl))
		}
	}
	return strings.Join(parts, " + ")
}

// ---------------------------------------------------------------------------------------------
// the grids

// orderedSets emits every k-permutation (k <= maxK) of indices [0,n); canon = increasing order.
func orderedSets(n, maxK int, f func(idx []int, canon bool)) {
	var cur []int
	used := make([]bool, n)
	var rec func()
	rec = func() {
		canon := true
		for i := 1; i < len(cur); i++ {
			canon = canon && cur[i-1] < cur[i]
		}
		f(cur, canon)
		if len(cur) == maxK {
			return
		}
		for i := 0; i < n; i++ {
			if used[i] {
				continue
			}
			used[i] = true
			cur = append(cur, i)
			rec()
			cur = cur[:len(cur)-1]
			used[i] = false
		}
	}
	rec()
}

func pick(ps []string, idx []int) []string {
	out := make([]string, len(idx))
	for i, j := range idx {
		out[i] = ps[j]
	}
	return out
}

type mwCfg struct {
	ids      []int
	variadic bool
	after    bool
}

var allMW = []mwCfg{{ids: []int{}}, {ids: []int{1}}, {ids: []int{2}}, {ids: []int{1, 2}}, {ids: []int{2, 1}}, {ids: []int{1, 2}, variadic: true}, {ids: []int{2, 1}, after: true}}

func buildWorlds(thorough bool) []caseT {
	var ws []caseT
	maxK := 3
	if thorough {
		maxK = 4
	}
	// main: every registration order of every subset of size <= maxK, every middleware chain
	orderedSets(len(mainPatterns), maxK, func(idx []int, canon bool) {
		routes := pick(mainPatterns, idx)
		for mi, m := range allMW {
			ws = append(ws, caseT{Grid: "main", Routes: routes, MW: m.ids, Variadic: m.variadic, UseAfter: m.after, canon: canon && mi == 0})
		}
	})
	// remove: every subset (one order) with each single route removed again; also remove-all
	orderedSets(len(mainPatterns), maxK, func(idx []int, canon bool) {
		if !canon || len(idx) == 0 {
			return
		}
		routes := pick(mainPatterns, idx)
		for _, p := range routes {
			ws = append(ws, caseT{Grid: "remove", Routes: routes, Remove: []string{p}, MW: []int{}})
		}
		if len(routes) > 1 {
			ws = append(ws, caseT{Grid: "remove", Routes: routes, Remove: append([]string{}, routes...), MW: []int{1}})
		}
	})
	// twice: re-registration replaces the handler
	orderedSets(len(mainPatterns), 2, func(idx []int, canon bool) {
		if len(idx) == 0 {
			return
		}
		ws = append(ws, caseT{Grid: "twice", Routes: pick(mainPatterns, idx), Twice: true, MW: []int{}})
	})
	// builtin: NewRouter's own default handler (NotFound), with and without a middleware
	orderedSets(len(mainPatterns), 2, func(idx []int, canon bool) {
		if !canon {
			return
		}
		for _, m := range [][]int{{}, {1}} {
			ws = append(ws, caseT{Grid: "builtin", Routes: pick(mainPatterns, idx), Builtin: true, MW: m})
		}
	})
	// extra: ordered sets (<= 2, thorough <= 3) over main+extra patterns containing an extra one
	uni := append(append([]string{}, mainPatterns...), extraPatterns...)
	orderedSets(len(uni), maxK-1, func(idx []int, canon bool) {
		has := false
		for _, i := range idx {
			has = has || i >= len(mainPatterns)
		}
		if !has {
			return
		}
		ws = append(ws, caseT{Grid: "extra", Routes: pick(uni, idx), MW: []int{}, canon: canon})
	})
	// refused: each invalid pattern alone and with each main pattern, both orders
	for _, bad := range invalidPatterns {
		ws = append(ws, caseT{Grid: "refused", Routes: []string{bad}, MW: []int{}})
		for _, p := range mainPatterns {
			ws = append(ws, caseT{Grid: "refused", Routes: []string{bad, p}, MW: []int{}})
			ws = append(ws, caseT{Grid: "refused", Routes: []string{p, bad}, MW: []int{}})
		}
	}
	return ws
}

// ---------------------------------------------------------------------------------------------

func runMatching(r *ev.Run) {
	all := append(append(append([]string{}, mainPatterns...), extraPatterns...), invalidPatterns...)
	t := buildRef(all)

	if f := ev.Arg("replay"); f != "" {
		replayMatching(r, t, f) // a case of another part is left to that part
		return
	}

	worlds := buildWorlds(r.Thorough())
	// small cases first, so that the case reported per signature is a smallest one
	sort.SliceStable(worlds, func(i, j int) bool {
		a, b := worlds[i], worlds[j]
		if x, y := len(a.Routes)+len(a.Remove), len(b.Routes)+len(b.Remove); x != y {
			return x < y
		}
		return len(a.MW) < len(b.MW)
	})
	nw := runtime.NumCPU()
	var total stats
	var parts []*stats
	var mu sync.Mutex
	refusedSeen := map[string]bool{}
	panicSeen := map[string]bool{}
	var next atomic.Int64
	ev.Parallel(nw, func(int) {
		reqs := make([]*pool.Message, len(t.lists))
		for i, l := range t.lists {
			reqs[i] = newRequest(l)
		}
		var st stats
		lrefused, lpanic := map[string]bool{}, map[string]bool{}
		for {
			i := int(next.Add(1)) - 1
			if i >= len(worlds) {
				break
			}
			c := worlds[i]
			st.wi = i
			w := newWorld(c)
			for _, p := range w.refused {
				lrefused[p] = true // not a violation (the statement constrains dispatch); listed in the evidence
			}
			for _, p := range w.regPanic {
				lpanic[p] = true
			}
			for p, s := range w.status {
				if s == "registered" && !t.pat[p].valid {
					ev.EngineError("router accepted pattern %q which the reference cannot parse; the reference has to be extended", p)
				}
			}
			for pi := range t.lists {
				dispatch(t, w, pi, reqs[pi], &st)
			}
		}
		mu.Lock()
		parts = append(parts, &st)
		total.evals += st.evals
		total.nontriv += st.nontriv
		total.toDefault += st.toDefault
		total.toRoute += st.toRoute
		total.ties += st.ties
		for p := range lrefused {
			refusedSeen[p] = true
		}
		for p := range lpanic {
			panicSeen[p] = true
		}
		mu.Unlock()
	})

	// a few actual cases with what the reference demanded and what the router did
	var single stats
	for _, s := range []caseT{
		{Grid: "main", Routes: []string{"/a/b", "/{x}/{y}", "/{rest:.*}"}, MW: []int{1, 2}, Segs: []string{"a", "b"}},
		{Grid: "main", Routes: []string{"/a.b", "/a{x}"}, MW: []int{}, Segs: []string{"a.b"}},
		{Grid: "main", Routes: []string{"/a.b", "/a+b"}, MW: []int{2, 1}, Segs: []string{"a+b"}},
		{Grid: "main", Routes: []string{"/", "/{x}"}, MW: []int{}, Segs: []string{}},
		{Grid: "main", Routes: []string{"/a/{x}", "/{x}/b"}, MW: []int{}, Segs: []string{"a", "b"}},
		{Grid: "remove", Routes: []string{"/a/{x:[0-9]+}", "/a/{x}"}, Remove: []string{"/a/{x:[0-9]+}"}, MW: []int{}, Segs: []string{"a", "1"}},
	} {
		pi := indexOfList(t, s.Segs)
		single.wi = len(worlds)
		o := dispatch(t, newWorld(s), pi, newRequest(s.Segs), &single)
		r.Sample(map[string]any{"case": s, "observed": o})
	}

	flush(r, append(parts, &single)...)

	r.Set("evaluations", total.evals)
	r.Set("distinct_nontrivial", total.nontriv)
	r.Set("exhaustive", true)
	r.Set("matching_worlds", int64(len(worlds)))
	r.Set("matching_patterns", int64(len(all)))
	r.Set("matching_request_paths", int64(len(t.lists)))
	r.Set("matching_max_set_size", int64(ev.Pick(r, 3, 4)))
	r.Set("matching_to_route", total.toRoute)
	r.Set("matching_to_default", total.toDefault)
	r.Set("matching_tie_cases", total.ties)
	r.Set("matching_refused_patterns", sortedKeys(refusedSeen))
	r.Set("matching_registration_panics", sortedKeys(panicSeen))
	r.Set("rule", fmt.Sprintf("matching part: every router built from (a) every registration order of every subset of size <= %d of the 16 main patterns x 7 middleware chains ([], [m1], [m2], [m1,m2], [m2,m1], Use(m1,m2), [m2,m1] applied after the routes); (b) every subset with each single route (and all routes) removed again by HandleRemove; (c) every ordered set <= 2 registered twice (handler replaced); (d) every subset <= 2 with NewRouter's built-in default handler; (e) every ordered set <= %d over 16+4 patterns containing one of the 4 extra patterns; (f) each of 6 invalid patterns alone and with each main pattern in both orders - each router dispatched (mux.ToHandler -> Router.ServeCOAP) on every Uri-Path option list of <= 3 segments over {a,b,1,a.b,a+b,\"\"} including no option (259 requests) plus 4 requests with a 40-byte / 255-byte segment (all coded and decoded by the UDP coder). evaluations = ServeCOAP calls; distinct_nontrivial = distinct (unordered set of registered patterns, request) pairs for which the reference finds at least one matching route, counted once (canonical order, no middleware).", ev.Pick(r, 3, 4), ev.Pick(r, 2, 3)))
	r.Assume(
		"reference matcher (parseRef/splits/refPath in props/c17/match.go) is written from the statement, RFC 7252 §6.5 and the gorilla template syntax, not from mux/regexp.go; it uses Go's regexp package only to test one variable substring against one expression",
		"pattern length = byte length of the pattern string; ties between matching patterns of equal maximal length accept any of them (no tie rule is documented)",
		"the iteration order of Go's map inside Router.Match is chosen by the runtime and is not enumerated by the matching part; the oracle does not depend on it",
		"a pattern whose registration returns an error or panics counts as not registered (the statement constrains dispatch only); observed refusals are listed under matching_refused_patterns / matching_registration_panics",
	)
}

func indexOfList(t *refTable, segs []string) int {
	for i, l := range t.lists {
		if len(l) == len(segs) && strings.Join(l, "\x00") == strings.Join(segs, "\x00") {
			return i
		}
	}
	return -1
}

func sortedKeys(m map[string]bool) []string {
	out := []string{}
	for k := range m {
		out = append(out, k)
	}
	sort.Strings(out)
	return out
}

// replayMatching re-runs one case from a replay artefact (or a bare case object).
func replayMatching(r *ev.Run, t *refTable, file string) bool {
	b, err := os.ReadFile(file)
	if err != nil {
		ev.EngineError("replay: %v", err)
	}
	var wrap struct {
		Replay json.RawMessage `json:"replay"`
	}
	raw := b
	if json.Unmarshal(b, &wrap) == nil && len(wrap.Replay) > 0 {
		raw = wrap.Replay
	}
	var c caseT
	if err := json.Unmarshal(raw, &c); err != nil {
		ev.EngineError("replay: %v", err)
	}
	switch c.Grid {
	case "main", "remove", "twice", "builtin", "extra", "refused":
	default:
		return false // not a case of the matching part
	}
	if c.Segs == nil {
		c.Segs = []string{}
	}
	for _, p := range append(append([]string{}, c.Routes...), c.Remove...) {
		if _, ok := t.m[p]; !ok { // pattern outside the grid: extend the table
			rp := parseRef(p)
			t.pat[p] = rp
			rows := make([][]map[string]string, len(t.paths))
			for i, path := range t.paths {
				rows[i] = rp.splits(path)
			}
			t.m[p] = rows
		}
	}
	pi := indexOfList(t, c.Segs)
	if pi < 0 { // request outside the grid: append it
		t.lists = append(t.lists, c.Segs)
		t.paths = append(t.paths, refPath(c.Segs))
		for p, rows := range t.m {
			t.m[p] = append(rows, t.pat[p].splits(refPath(c.Segs)))
		}
		pi = len(t.lists) - 1
	}
	// The order in which Router.Match visits its map is chosen by the Go runtime; a recorded
	// case whose outcome depends on it is re-run on 32 fresh routers so that the replay does
	// not miss it (replay robustness only - the enumeration itself runs every case once).
	var st stats
	c.canon = true
	var w *world
	var o observation
	for i := 0; i < 32; i++ {
		w = newWorld(c)
		o1 := dispatch(t, w, pi, newRequest(c.Segs), &st)
		if i == 0 || len(st.viol) > 0 {
			o = o1 // shown: the first run, or the first violating one
		}
		if len(st.viol) > 0 {
			break
		}
		c.canon = false
	}
	flush(r, &st)
	ob, _ := json.Marshal(o)
	fmt.Printf("REPLAY C17 matching: %s; Uri-Path %q\n  refused at registration: %q\n  observed: %s\n", c, c.Segs, w.refused, ob)
	r.Set("evaluations", st.evals)
	r.Set("distinct_nontrivial", st.nontriv)
	r.Set("exhaustive", false)
	r.Set("rule", "replay of one recorded case")
	r.Sample(map[string]any{"case": c, "observed": o})
	return true
}

//go:build verif

package net

import (
	"errors"
	"net"
	"time"

	"verif/vrt"
)

// Verification overlay only: a UDPConn whose packets come from / go to the harness.
// Reads go through the (pre-existing) packetConn interface, writes through the (pre-existing)
// package variable udpConnWriteTo; LocalAddr/Close use a real loopback socket that never carries
// traffic. Nothing here is part of /repo.

type VerifPacket struct {
	Data []byte
	From *net.UDPAddr
	Dst  net.IP // destination address reported in the control message (nil = none)
}

type VerifOut struct {
	Data []byte
	To   *net.UDPAddr
	At   time.Time
}

type VerifPacketConn struct {
	In      []VerifPacket
	Out     []VerifOut
	ReadErr error
	Reads   int
	conn    *UDPConn
}

func (p *VerifPacketConn) SetWriteDeadline(time.Time) error          { return nil }
func (p *VerifPacketConn) SetMulticastInterface(*net.Interface) error { return nil }
func (p *VerifPacketConn) SetMulticastHopLimit(int) error            { return nil }
func (p *VerifPacketConn) SetMulticastLoopback(bool) error           { return nil }
func (p *VerifPacketConn) JoinGroup(*net.Interface, net.Addr) error  { return nil }
func (p *VerifPacketConn) LeaveGroup(*net.Interface, net.Addr) error { return nil }
func (p *VerifPacketConn) SupportsControlMessage() bool              { return true }
func (p *VerifPacketConn) IsIPv6() bool                              { return false }
func (p *VerifPacketConn) WriteTo(b []byte, _ *ControlMessage, dst net.Addr) (int, error) {
	u, _ := dst.(*net.UDPAddr)
	p.Out = append(p.Out, VerifOut{Data: append([]byte{}, b...), To: u, At: vrt.Now()})
	return len(b), nil
}

func (p *VerifPacketConn) ReadFrom(b []byte) (int, *ControlMessage, net.Addr, error) {
	vrt.WaitUntil("packetConn.ReadFrom", func() bool { return len(p.In) > 0 || p.ReadErr != nil || p.conn.closed.Bool.Load() })
	p.Reads++
	if p.conn.closed.Bool.Load() {
		return 0, nil, nil, net.ErrClosed
	}
	if len(p.In) == 0 {
		return 0, nil, nil, p.ReadErr
	}
	pk := p.In[0]
	p.In = p.In[1:]
	n := copy(b, pk.Data)
	var cm *ControlMessage
	if pk.Dst != nil {
		cm = &ControlMessage{Dst: pk.Dst}
	}
	return n, cm, pk.From, nil
}

var verifOrigWriteTo = udpConnWriteTo

// NewUDPConnVerif builds a UDPConn around a harness packet conn. sock is a real, bound,
// otherwise unused UDP socket (provides LocalAddr and Close).
func NewUDPConnVerif(sock *net.UDPConn, errs func(error)) (*UDPConn, *VerifPacketConn) {
	if errs == nil {
		errs = func(error) {}
	}
	p := &VerifPacketConn{}
	c := &UDPConn{network: "udp4", connection: sock, packetConn: p, errors: errs}
	p.conn = c
	udpConnWriteTo = func(c *UDPConn, raddr *net.UDPAddr, cm *ControlMessage, buffer []byte) (int, error) {
		if vp, ok := c.packetConn.(*VerifPacketConn); ok {
			if raddr == nil {
				return 0, errors.New("verif: write without remote address")
			}
			return vp.WriteTo(buffer, cm, raddr)
		}
		return verifOrigWriteTo(c, raddr, cm, buffer)
	}
	return c, p
}

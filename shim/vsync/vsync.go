// Package vsync replaces "sync" in instrumented go-coap files.
package vsync

import (
	"sync"

	"verif/vrt"
)

type (
	Mutex     = vrt.Mutex
	RWMutex   = vrt.RWMutex
	WaitGroup = vrt.WaitGroup
	Once      = vrt.Once
	Pool      = sync.Pool
	Locker    = sync.Locker
)

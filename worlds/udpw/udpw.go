// Package udpw is the udp-conn world: a real udp/client.Conn (instrumented) over an in-memory
// Session. Datagram arrival is Conn.Process, housekeeping is Conn.CheckExpirations with the
// virtual clock; everything the conn writes is captured encoded, with its virtual time.
package udpw

import (
	"bytes"
	"context"
	"errors"
	"fmt"
	"io"
	"net"
	"time"

	"github.com/plgd-dev/go-coap/v3/message"
	"github.com/plgd-dev/go-coap/v3/message/codes"
	"github.com/plgd-dev/go-coap/v3/message/pool"
	coapNet "github.com/plgd-dev/go-coap/v3/net"
	"github.com/plgd-dev/go-coap/v3/net/blockwise"
	"github.com/plgd-dev/go-coap/v3/options/config"
	"github.com/plgd-dev/go-coap/v3/udp/client"
	udpcoder "github.com/plgd-dev/go-coap/v3/udp/coder"

	dtlsserver "github.com/plgd-dev/go-coap/v3/dtls/server"

	"verif/vrt"
	"verif/worlds/tcpw"
	_ "verif/worlds/track" // C12 builds: every world runs under the pool lifecycle tracker
)

type Out struct {
	At  time.Time
	Raw []byte
	M   message.Message
}

// Session is the in-memory client.Session.
type Session struct {
	ctx      context.Context
	cancel   context.CancelFunc
	W        *World
	onClose  []client.EventFunc
	Closed   int // number of Close calls
	OnCloseN int // number of on-close callback executions
	WriteErr func(m *pool.Message) error
	MaxSize  uint32
	values   map[interface{}]interface{}
}

func (s *Session) Context() context.Context { return s.ctx }
func (s *Session) Close() error {
	s.Closed++
	if s.ctx.Err() != nil {
		return nil
	}
	s.cancel()
	for _, f := range s.onClose {
		s.OnCloseN++
		f()
	}
	return nil
}
func (s *Session) MaxMessageSize() uint32 { return s.MaxSize }
func (s *Session) RemoteAddr() net.Addr   { return &net.UDPAddr{IP: net.IPv4(10, 0, 0, 1), Port: 5683} }
func (s *Session) LocalAddr() net.Addr    { return &net.UDPAddr{IP: net.IPv4(10, 0, 0, 2), Port: 40000} }
func (s *Session) NetConn() net.Conn      { return nil }
func (s *Session) WriteMessage(req *pool.Message) error {
	if s.WriteErr != nil {
		if err := s.WriteErr(req); err != nil {
			return err
		}
	}
	if s.ctx.Err() != nil {
		return net.ErrClosed
	}
	// like the real sessions (WriteWithContext): a message whose own context has ended is not written
	if err := req.Context().Err(); err != nil {
		return err
	}
	d, err := req.MarshalWithEncoder(udpcoder.DefaultCoder)
	if err != nil {
		return err
	}
	raw := append([]byte{}, d...)
	o := Out{At: vrt.Now(), Raw: raw, M: Decode(raw)}
	s.W.Outs = append(s.W.Outs, o)
	if s.W.OnWrite != nil {
		s.W.OnWrite(o)
	}
	return nil
}
func (s *Session) WriteMulticastMessage(*pool.Message, *net.UDPAddr, ...coapNet.MulticastOption) error {
	return errors.New("multicast not modelled in udpw")
}
func (s *Session) Run(*client.Conn) error        { return nil }
func (s *Session) AddOnClose(f client.EventFunc) { s.onClose = append(s.onClose, f) }
func (s *Session) SetContextValue(k, v interface{}) {
	s.values[k] = v
}
func (s *Session) Done() <-chan struct{} { return s.ctx.Done() }

type Opts struct {
	BlockWise      bool
	SZX            blockwise.SZX
	NStart         uint32
	MaxRetransmit  uint32
	AckTimeout     time.Duration
	LimitTotal     int64
	LimitEndpoint  int64
	QueueSize      int
	FirstMID       int32
	Handler        client.HandlerFunc
	Monitor        func() client.InactivityMonitor
	MaxMsgSize     uint32
	BWTimeout      time.Duration
	Process        config.ProcessReceivedMessageFunc[*client.Conn]
	RequestMonitor client.RequestMonitorFunc
	// DTLS: instead of the in-memory Session use the REAL dtls/server.Session (the session type of
	// dtls.Dial/Client and of DTLS server conns) over a datagram-preserving in-memory net.Conn
	DTLS bool
}

type World struct {
	DSt     *tcpw.Stream // DTLS mode: the fake socket
	dseen   int
	RunDone bool
	CC      *client.Conn
	Sess    *Session
	Outs    []Out
	OnWrite func(Out)
	Pool    *pool.Pool
	Errors  []string
	nextMID int32
	Seen    int // number of Outs already looked at by the peer script
}

// New builds the conn. Call it from inside a managed thread (the conn starts its reader loop).
func New(o Opts) *World {
	w := &World{}
	ctx, cancel := context.WithCancel(context.Background())
	if o.MaxMsgSize == 0 {
		o.MaxMsgSize = 64 * 1024
	}
	w.Sess = &Session{ctx: ctx, cancel: cancel, W: w, MaxSize: o.MaxMsgSize, values: map[interface{}]interface{}{}}
	cfg := client.DefaultConfig
	w.Pool = pool.New(0, 0)
	cfg.MessagePool = w.Pool
	cfg.Errors = func(err error) { w.Errors = append(w.Errors, err.Error()) }
	cfg.LimitClientParallelRequests = o.LimitTotal
	cfg.LimitClientEndpointParallelRequests = o.LimitEndpoint
	if o.NStart == 0 {
		o.NStart = 1
	}
	cfg.TransmissionNStart = o.NStart
	cfg.TransmissionMaxRetransmit = o.MaxRetransmit
	if o.AckTimeout == 0 {
		o.AckTimeout = 2 * time.Second
	}
	cfg.TransmissionAcknowledgeTimeout = o.AckTimeout
	cfg.ReceivedMessageQueueSize = o.QueueSize
	if o.FirstMID == 0 {
		o.FirstMID = 1000
	}
	w.nextMID = o.FirstMID
	// NewConnWithOpts seeds the conn's counter with GetMID()-0x7fff; the conn's own MIDs then run from FirstMID
	cfg.GetMID = func() int32 { return o.FirstMID - 1 + 0xffff/2 }
	tok := byte(0x70)
	cfg.GetToken = func() (message.Token, error) { tok++; return message.Token{0xee, tok}, nil }
	if o.Handler != nil {
		cfg.Handler = o.Handler
	}
	if o.Process != nil {
		cfg.ProcessReceivedMessage = o.Process
	}
	cfg.PeriodicRunner = func(func(time.Time) bool) {}
	if o.BWTimeout == 0 {
		o.BWTimeout = 3 * time.Second
	}
	opts := []client.Option{}
	if o.BlockWise {
		cfg.BlockwiseSZX = o.SZX
		opts = append(opts, client.WithBlockWise(func(cc *client.Conn) *blockwise.BlockWise[*client.Conn] {
			return blockwise.New(cc, o.BWTimeout, cfg.Errors, func(token message.Token) (*pool.Message, bool) {
				return cc.GetObservationRequest(token)
			})
		}))
	}
	if o.Monitor != nil {
		opts = append(opts, client.WithInactivityMonitor(o.Monitor()))
	}
	if o.RequestMonitor != nil {
		opts = append(opts, client.WithRequestMonitor(o.RequestMonitor))
	}
	if o.DTLS {
		w.DSt = &tcpw.Stream{Handshake: func(context.Context) error { return nil }}
		sess := dtlsserver.NewSession(context.Background(), coapNet.NewConn(dtlsConn{w.DSt}), o.MaxMsgSize, 1472, true)
		w.CC = client.NewConnWithOpts(sess, &cfg, opts...)
		vrt.Lib("dtls-session-run", func() { _ = w.CC.Run(); w.RunDone = true })
		return w
	}
	w.CC = client.NewConnWithOpts(w.Sess, &cfg, opts...)
	return w
}

// Encode builds a datagram (panics on harness mistakes).
func Encode(m message.Message) []byte {
	size, err := udpcoder.DefaultCoder.Size(m)
	if err != nil {
		panic(err)
	}
	b := make([]byte, size)
	n, err := udpcoder.DefaultCoder.Encode(m, b)
	if err != nil {
		panic(fmt.Sprintf("udpw.Encode: %v", err))
	}
	return b[:n]
}

func Decode(b []byte) message.Message {
	var m message.Message
	m.Options = make(message.Options, 0, 16)
	if _, err := udpcoder.DefaultCoder.Decode(b, &m); err != nil {
		panic(fmt.Sprintf("udpw.Decode(%x): %v", b, err))
	}
	m.Payload = append([]byte{}, m.Payload...)
	m.Token = append(message.Token{}, m.Token...)
	for i := range m.Options {
		m.Options[i].Value = append([]byte{}, m.Options[i].Value...)
	}
	return m
}

// Inject delivers a datagram to the conn as the session's read loop would (DTLS mode: through the
// real session's read loop).
func (w *World) Inject(m message.Message) error { return w.InjectRaw(Encode(m)) }

// InjectRaw delivers arbitrary bytes.
func (w *World) InjectRaw(b []byte) error {
	if w.DSt != nil {
		w.DSt.In = append(w.DSt.In, append([]byte{}, b...))
		return nil
	}
	// as a socket read loop does: the datagram sits in a receive buffer that is reused for the next read, so
	// whatever the connection keeps of it after Process returns must be its own copy
	buf := append(make([]byte, 0, len(b)+8), b...)
	err := w.CC.Process(nil, buf)
	for i := range buf {
		buf[i] = 0xEC
	}
	return err
}

// dtlsConn gives the stream a HandshakeContext (as *dtls.Conn has).
type dtlsConn struct{ *tcpw.Stream }

func (d dtlsConn) HandshakeContext(ctx context.Context) error { return d.Stream.Handshake(ctx) }

// Tick advances the virtual clock and runs the housekeeping the periodic runner would run.
func (w *World) Tick(d time.Duration) {
	vrt.Advance(d)
	w.CC.CheckExpirations(vrt.Now())
}

// TickAt moves the clock to t (absolute) and runs housekeeping.
func (w *World) TickAt(t time.Time) {
	vrt.SetClock(t)
	w.CC.CheckExpirations(vrt.Now())
}

// PeerMID hands out message IDs for peer-originated messages (disjoint from the conn's own).
func (w *World) PeerMID() int32 { w.nextMID += 7; return 20000 + w.nextMID }

// NewOuts returns the datagrams written since the last call.
func (w *World) NewOuts() []Out {
	if w.DSt != nil {
		for ; w.dseen < len(w.DSt.Writes); w.dseen++ {
			raw := w.DSt.Writes[w.dseen]
			w.Outs = append(w.Outs, Out{At: vrt.Now(), Raw: raw, M: Decode(raw)})
		}
	}
	o := w.Outs[w.Seen:]
	w.Seen = len(w.Outs)
	return o
}

// Request builds a request message owned by the caller.
func (w *World) Request(ctx context.Context, code codes.Code, path string, token message.Token, typ message.Type, body []byte) *pool.Message {
	req := w.CC.AcquireMessage(ctx)
	req.SetCode(code)
	req.SetToken(token)
	req.SetType(typ)
	_ = req.SetPath(path)
	if body != nil {
		req.SetContentFormat(message.TextPlain)
		req.SetBody(bytes.NewReader(body))
	}
	return req
}

// Body reads a message body fully.
func Body(m *pool.Message) []byte {
	if m == nil || m.Body() == nil {
		return nil
	}
	_, _ = m.Body().Seek(0, io.SeekStart)
	b, _ := io.ReadAll(m.Body())
	return b
}

// Describe renders a decoded datagram compactly.
func Describe(m message.Message) string {
	return fmt.Sprintf("%v mid=%d code=%v tok=%x opts=%d payload=%q", m.Type, m.MessageID, m.Code, []byte(m.Token), len(m.Options), string(m.Payload))
}

package main

// World 1: message.Options edited through the explicit-buffer API, the way a caller without
// pool.Message uses it: "opts, n, err = opts.SetX(buf, ...); buf = buf[n:]".
//
// Readings of the contract where the godoc is silent (recorded here, applied below):
//
//  R1 failed operation. Every buffer-taking editor documents "Returns modified options, number of
//     used buf bytes and error if occurs". When the error is non-nil nothing was stored, so the
//     reference list is unchanged and the returned list must still equal it (in particular it must
//     still be ascending). The int returned together with an error is NOT checked (SetBytes returns
//     the needed size, SetPath -1: undocumented either way).
//  R2 successful operation: n = number of value bytes copied into buf (caller advances buf by n).
//  R3 buffer too small (value bytes needed > len(buf)): must fail with ErrTooSmall, since the
//     value is documented to be copied into buf.
//  R4 SetPath/SetLocationPath on a list that already has such options: replace them ("Set" =
//     "replaces/stores" everywhere in this API; pool.Message.SetPath: "stores the given path
//     within URI-Path options"). SetPath("") is ambiguous (no segment to store: clear like "/"
//     does, or do nothing?) -- both outcomes are accepted and counted as an observation.
//  R5 a segment longer than 255 bytes: refused with ErrInvalidValueLength (statement: "longer
//     segments being refused"), list unchanged.
//  R6 a Uri-Path value longer than 255 bytes given to SetBytes/AddBytes/SetString/AddString: the
//     statement only speaks about path splitting; refusing it (ErrInvalidValueLength, unchanged)
//     and storing it are both accepted. Set/Add with a ready-made Option store whatever they get.
//  R7 Set/Add store the caller's Option as is (no buffer, hence no copy); all buffer-taking
//     editors copy, so the harness overwrites its input afterwards.
//  R8 uint setters write the RFC 7252 "uint" form (no leading zero bytes, 0 = empty value).

import (
	"errors"
	"fmt"

	"github.com/plgd-dev/go-coap/v3/message"
)

type optCfg struct {
	Cap int `json:"cap"` // initial capacity of the Options slice (0 = nil slice)
	Buf int `json:"buf"` // size of the value buffer handed to the world
}

type optWorld struct {
	cfg  optCfg
	opts message.Options
	buf  []byte
	m    model

	hasSnap bool // a clone (or the original after CloneEdit) that must stay as it was
	snap    message.Options
	snapM   model

	flag    bool // a growth or too-small path was exercised
	refused bool // the last operation returned an error
	obs     *observations
}

// family groups the operations that are documented as one behaviour (signature classes).
func family(k string) string {
	switch k {
	case "SetLocationPath", "MustSetPath":
		return "SetPath"
	case "CloneEdit":
		return "Clone"
	}
	return k
}

func differsSig(k string, refused bool) string {
	if refused {
		return family(k) + "/refused-but-list-changed"
	}
	return family(k) + "/list-differs"
}

type observations struct {
	setPathEmptyNoop, setPathEmptyClear   int64
	uriPathLongRefused, uriPathLongStored int64
}

// backing is the worker's reusable buffer; only its first dirty bytes can differ from the 0xEE
// fill (written by the previous sequence), so only those are re-filled.
func newOptWorld(cfg optCfg, backing []byte, dirty int) *optWorld {
	w := &optWorld{cfg: cfg}
	if cfg.Cap > 0 {
		w.opts = make(message.Options, 0, cfg.Cap)
	}
	for i := 0; i < dirty && i < len(backing); i++ {
		backing[i] = 0xEE
	}
	w.buf = backing[:cfg.Buf:cfg.Buf]
	return w
}

func scribble(b []byte) {
	for i := range b {
		b[i] = 0x7f
	}
}

func countID(o message.Options, id message.OptionID) int {
	n := 0
	for _, e := range o {
		if e.ID == id {
			n++
		}
	}
	return n
}

// bufEdit runs one buffer-taking editor and applies readings R1-R3, R5, R6.
// need: value bytes the operation has to copy; mustRefuse: R5; mayRefuse: R6.
func (w *optWorld) bufEdit(op Op, rep *reporter, need int, mustRefuse, mayRefuse bool,
	call func(buf []byte) (message.Options, int, error), commit func()) {
	tooSmall := need > len(w.buf)
	if tooSmall {
		w.flag = true
	}
	if len(w.opts) == cap(w.opts) {
		w.flag = true
	}
	o, n, err := call(w.buf)
	w.opts = o
	w.refused = err != nil
	switch {
	case mustRefuse || tooSmall:
		ok := err != nil && ((tooSmall && isTooSmall(err)) || ((mustRefuse || mayRefuse) && errors.Is(err, message.ErrInvalidValueLength)))
		if !ok {
			why := "a segment/value longer than 255 bytes"
			if tooSmall {
				why = fmt.Sprintf("%d value bytes for a %d-byte buffer", need, len(w.buf))
			}
			rep.add(family(op.K)+"/not-refused", "%s with %s returned (n=%d, err=%v)", op, why, n, err)
			if err == nil {
				commit() // follow the implementation so that the list comparison says what happened
				if n >= 0 && n <= len(w.buf) {
					w.buf = w.buf[n:]
				}
			}
		}
		if err != nil && mayRefuse && w.obs != nil {
			w.obs.uriPathLongRefused++
		}
	case mayRefuse && err != nil:
		if !errors.Is(err, message.ErrInvalidValueLength) {
			rep.add(family(op.K)+"/unexpected-error", "%s returned (n=%d, err=%v)", op, n, err)
		}
		if w.obs != nil {
			w.obs.uriPathLongRefused++
		}
	default:
		if err != nil {
			rep.add(family(op.K)+"/unexpected-error", "%s with %d value bytes and a %d-byte buffer returned (n=%d, err=%v)", op, need, len(w.buf), n, err)
			return
		}
		if mayRefuse && w.obs != nil {
			w.obs.uriPathLongStored++
		}
		if n != need {
			rep.add(family(op.K)+"/wrong-used-count", "%s reported %d used buffer bytes, the stored value(s) take %d", op, n, need)
		}
		commit()
		if n < 0 || n > len(w.buf) {
			n = need
		}
		w.buf = w.buf[n:]
	}
}

// apply executes one operation on the implementation and on the model. It returns stop=true when
// the implementation state is no longer known (panic inside an editor).
func (w *optWorld) apply(step int, op Op, rep *reporter) (stop bool) {
	defer func() {
		if p := recover(); p != nil {
			rep.add(family(op.K)+"/panic", "%s panicked: %v", op, p)
			stop = true
		}
	}()
	id := message.OptionID(op.ID)
	w.refused = false
	switch op.K {
	case "Set", "Add":
		v := val(op.V, step)
		if len(w.opts) == cap(w.opts) {
			w.flag = true
		}
		if op.K == "Set" {
			w.opts = w.opts.Set(message.Option{ID: id, Value: v})
			w.m.set(id, v)
		} else {
			w.opts = w.opts.Add(message.Option{ID: id, Value: v})
			w.m.add(id, v)
		}
	case "Remove":
		w.opts = w.opts.Remove(id)
		w.m.remove(id)
	case "SetBytes", "AddBytes", "SetString", "AddString":
		v := val(op.V, step)
		want := cp(v)
		long := id == message.URIPath && len(v) > 255
		w.bufEdit(op, rep, len(v), false, long, func(buf []byte) (message.Options, int, error) {
			switch op.K {
			case "SetBytes":
				return w.opts.SetBytes(buf, id, v)
			case "AddBytes":
				return w.opts.AddBytes(buf, id, v)
			case "SetString":
				return w.opts.SetString(buf, id, string(v))
			default:
				return w.opts.AddString(buf, id, string(v))
			}
		}, func() {
			if op.K[0] == 'S' {
				w.m.set(id, want)
			} else {
				w.m.add(id, want)
			}
		})
		scribble(v) // R7: the editors copied, later changes of the input must not show
	case "SetUint32", "AddUint32", "SetContentFormat", "SetObserve", "SetAccept":
		u := uintArg(op.U, step)
		enc := uintBytes(u) // R8
		tid := id
		switch op.K {
		case "SetContentFormat":
			tid = message.ContentFormat
		case "SetObserve":
			tid = message.Observe
		case "SetAccept":
			tid = message.Accept
		}
		w.bufEdit(op, rep, len(enc), false, false, func(buf []byte) (message.Options, int, error) {
			switch op.K {
			case "SetUint32":
				return w.opts.SetUint32(buf, id, u)
			case "AddUint32":
				return w.opts.AddUint32(buf, id, u)
			case "SetContentFormat":
				return w.opts.SetContentFormat(buf, message.MediaType(u))
			case "SetObserve":
				return w.opts.SetObserve(buf, u)
			default:
				return w.opts.SetAccept(buf, message.MediaType(u))
			}
		}, func() {
			if op.K == "AddUint32" {
				w.m.add(tid, enc)
			} else {
				w.m.set(tid, enc)
			}
		})
	case "SetPath", "SetLocationPath":
		pid := message.URIPath
		if op.K == "SetLocationPath" {
			pid = message.LocationPath
		}
		p := expandPath(op.P)
		segs, need, ok := splitPath(p)
		w.bufEdit(op, rep, need, !ok, false, func(buf []byte) (message.Options, int, error) {
			if op.K == "SetPath" {
				return w.opts.SetPath(buf, p)
			}
			return w.opts.SetLocationPath(buf, p)
		}, func() {
			if p == "" { // R4: both readings accepted
				if _, had := w.m.find(pid); had > 0 && countID(w.opts, pid) == 0 {
					w.m.remove(pid)
					if w.obs != nil {
						w.obs.setPathEmptyClear++
					}
				} else if w.obs != nil {
					w.obs.setPathEmptyNoop++
				}
				return
			}
			w.m.remove(pid)
			for _, s := range segs {
				w.m.add(pid, []byte(s))
			}
		})
	case "ResetOptionsTo":
		in := preset(op.N, step)
		inOpts := toOptions(in)
		need := 0
		for _, e := range in {
			need += len(e.val)
		}
		w.bufEdit(op, rep, need, false, false, func(buf []byte) (message.Options, int, error) {
			return w.opts.ResetOptionsTo(buf, inOpts)
		}, func() { w.m.resetTo(in) })
		for _, o := range inOpts {
			scribble(o.Value)
		}
	case "Clone", "CloneEdit":
		c, err := w.opts.Clone()
		if err != nil {
			rep.add("Clone/error", "Clone() of %s returned %v", fmtModel(&w.m), err)
			return false
		}
		if !sameList(c, &w.m) {
			rep.add("Clone/differs", "Clone() = %s, want %s", fmtOptions(c), fmtModel(&w.m))
			return true
		}
		w.hasSnap, w.snapM = true, w.m.clone()
		if op.K == "Clone" {
			w.snap = c
		} else {
			w.snap, w.opts = w.opts, c
		}
	default:
		panic("options world: unknown op " + op.K)
	}
	return false
}

// check is the full per-step oracle. stop=true: the list has diverged from the model, sequences
// extending this one are not informative.
func (w *optWorld) check(op Op, sc *scratch, rep *reporter) (stop bool) {
	if !sameList(w.opts, &w.m) {
		rep.add(differsSig(op.K, w.refused), "after the sequence (last operation %s) the list is %s, the reference list is %s", map[bool]string{true: "refused", false: "accepted"}[w.refused], fmtOptions(w.opts), fmtModel(&w.m))
		stop = true
	}
	if w.hasSnap && !sameList(w.snap, &w.snapM) {
		rep.add("clone-not-independent/"+family(op.K), "the other copy (clone/original) changed to %s, it was %s", fmtOptions(w.snap), fmtModel(&w.snapM))
		stop = true
	}
	if stop {
		return true
	}
	queryOptions(w.opts, &w.m, sc, rep)
	if !sameList(w.opts, &w.m) {
		rep.add("query-modifies-list", "after the query set the list is %s, the reference list is %s", fmtOptions(w.opts), fmtModel(&w.m))
		return true
	}
	return false
}

func (w *optWorld) nontrivial() bool {
	return w.flag || len(w.m.e) > 0 || (w.hasSnap && len(w.snapM.e) > 0)
}

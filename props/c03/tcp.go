package main

import (
	"context"

	"github.com/plgd-dev/go-coap/v3/message"
	"github.com/plgd-dev/go-coap/v3/message/codes"
	"github.com/plgd-dev/go-coap/v3/message/pool"
	"github.com/plgd-dev/go-coap/v3/net/blockwise"

	"verif/vrt"
	"verif/worlds/tcpw"
)

func moreTransports() []tdesc {
	return []tdesc{
		{"tcp", func() transport { return &tcpT{} }, []bool{false}},
		{"tcp+handshake", func() transport { return &tcpT{hs: true} }, []bool{false}},
	}
}

// tcpT: tcp/client.Conn over the in-memory stream; with hs the net.Conn has a HandshakeContext
// (the code path TLS connections take inside go-coap: handshake before the first read/write).
type tcpT struct {
	w    *tcpw.World
	hs   bool
	pmid int32
}

func (t *tcpT) Name() string   { return "tcp" }
func (t *tcpT) Datagram() bool { return false }
func (t *tcpT) Build(bw bool) {
	o := tcpw.Opts{LimitTotal: 8, LimitEndpoint: 8, QueueSize: 4, BlockWise: bw, SZX: blockwise.SZX16, DisableCSM: true}
	if t.hs {
		o.Handshake = func(context.Context) error { return nil }
	}
	t.w = tcpw.New(o)
	if bw {
		// the peer announces block-wise support, as RFC 8323 requires before Block options are used
		bo := make([]byte, 4)
		opts, _, _ := message.Options{}.SetUint32(bo, message.TCPBlockWiseTransfer, 0)
		opts[0].Value = nil
		t.w.Inject(message.Message{Code: codes.CSM, Options: opts})
		vrt.Quiesce("tcp: CSM consumed")
		// ... and later updates its maximum message size with a CSM that does not repeat the Block-Wise-Transfer
		// option: a capability missing from a later CSM keeps its previous value (RFC 8323 5.3)
		bm := make([]byte, 4)
		n, _ := message.EncodeUint32(bm, 4096)
		t.w.Inject(message.Message{Code: codes.CSM, Options: message.Options{{ID: message.TCPMaxMessageSize, Value: bm[:n]}}})
		vrt.Quiesce("tcp: second CSM consumed")
	}
}
func (t *tcpT) Acquire(ctx context.Context) *pool.Message   { return t.w.CC.AcquireMessage(ctx) }
func (t *tcpT) Do(req *pool.Message) (*pool.Message, error) { return t.w.CC.Do(req) }
func (t *tcpT) Release(m *pool.Message)                     { t.w.CC.ReleaseMessage(m) }
func (t *tcpT) NewOuts() []message.Message {
	ms := t.w.NewOuts()
	for _, m := range ms {
		vrt.Observe("wire-out %s", tcpw.Describe(m))
	}
	return ms
}
func (t *tcpT) Inject(m message.Message) {
	vrt.Observe("wire-in %s", tcpw.Describe(m))
	m.Type, m.MessageID = 0, 0
	t.w.Inject(m)
}
func (t *tcpT) PeerMID() int32   { t.pmid++; return t.pmid }
func (t *tcpT) Errors() []string { return t.w.Errors }

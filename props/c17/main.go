// C17 — Router dispatches to a longest matching route, else the default.
//
// Two parts, one evidence file:
//   - matching (match.go, engine E1): bounded-exhaustive enumeration of route sets, registration
//     orders, middleware chains and Uri-Path option lists on the real mux.Router, compared with
//     an in-harness reference matcher written from the statement;
//   - concurrency (conc.go, engine E2): Handle / HandleRemove / DefaultHandle concurrent with
//     ServeCOAP under the deterministic scheduler.
package main

import (
	"os"
	"os/exec"
	"strings"

	"verif/ev"
	"verif/mcx"
)

func main() {
	r := ev.Start("C17", "model_checking")
	concReplay := false
	if f := ev.Arg("replay"); f != "" {
		b, _ := os.ReadFile(f)
		concReplay = strings.Contains(string(b), `"scenario"`)
	}
	if !mcx.IsWorker() && !concReplay {
		runMatching(r)
		if ev.Arg("replay") != "" {
			r.Finish()
		}
	}
	runConcurrency(r)
	runRacePass(r)
	r.Finish()
}

// runRacePass runs the free-running -race binary built by ./check (supplementary: it samples
// schedules, so it can only add a violation).
func runRacePass(r *ev.Run) {
	bin := os.Getenv("VERIF_RACE_BIN")
	if bin == "" || mcx.IsWorker() || ev.Arg("replay") != "" || ev.Arg("only") != "" {
		return
	}
	cmd := exec.Command(bin, os.Getenv("VERIF_RACE_ARG"))
	cmd.Env = append(os.Environ(), "GORACE=halt_on_error=1 exitcode=66")
	out, err := cmd.CombinedOutput()
	r.Set("race_pass", map[string]any{"ran": true, "iterations_per_goroutine": os.Getenv("VERIF_RACE_ARG"), "goroutines": 9, "kind": "supplementary sampling under the Go race detector; silence is not a verdict"})
	if err != nil {
		report := string(out)
		if i := strings.Index(report, "WARNING: DATA RACE"); i >= 0 {
			report = report[i:]
		}
		if len(report) > 2500 {
			report = report[:2500]
		}
		// signature: the two functions named first in the report
		sig := "data-race"
		var fns []string
		for _, l := range strings.Split(report, "\n") {
			l = strings.TrimSpace(l)
			if strings.HasPrefix(l, "github.com/plgd-dev/go-coap/v3/mux.") && len(fns) < 2 {
				f := strings.TrimPrefix(l, "github.com/plgd-dev/go-coap/v3/")
				if k := strings.Index(f, "()"); k > 0 {
					f = f[:k]
				}
				if len(fns) == 0 || fns[0] != f {
					fns = append(fns, f)
				}
			}
		}
		if len(fns) > 0 {
			sig += "/" + strings.Join(fns, "+")
		}
		r.Violate(sig, "the Go race detector reported a data race between router operations run from real goroutines: "+report, map[string]any{"cmd": bin, "arg": os.Getenv("VERIF_RACE_ARG")})
	}
}

package main

import (
	"bytes"
	"context"
	"fmt"

	"github.com/plgd-dev/go-coap/v3/message"
	"github.com/plgd-dev/go-coap/v3/message/codes"
	"github.com/plgd-dev/go-coap/v3/message/noresponse"
	"github.com/plgd-dev/go-coap/v3/message/pool"
	"github.com/plgd-dev/go-coap/v3/net/responsewriter"

	"verif/ev"
)

// RFC 7967 §2.1: bit value 2 = not interested in 2.xx, 8 = 4.xx, 16 = 5.xx.
func specSuppressed(code uint8, value uint32) bool {
	switch code >> 5 {
	case 2:
		return value&2 != 0
	case 4:
		return value&8 != 0
	case 5:
		return value&16 != 0
	}
	return false
}

type relClient struct{ p *pool.Pool }

func (c relClient) ReleaseMessage(m *pool.Message) { c.p.ReleaseMessage(m) }

func optionValues() []uint32 {
	var vs []uint32
	for v := uint32(0); v < 64; v++ {
		vs = append(vs, v)
	}
	return append(vs, 127, 128, 255, 256, 256+2, 256+8, 256+16, 1<<16, 1<<16+26, 1<<32-1)
}

func classSig(code uint8) string { return fmt.Sprintf("%d.xx", code>>5) }

func runTable(r *ev.Run) {
	p := pool.New(0, 0)
	var evals, nontriv int64
	for _, v := range optionValues() {
		for c := 0; c < 256; c++ {
			code := uint8(c)
			want := specSuppressed(code, v)
			// (a) the predicate
			err := noresponse.IsNoResponseCode(codes.Code(code), v)
			evals++
			if want {
				nontriv++
			}
			if (err != nil) != want {
				kind := "not-suppressed-but-must-be"
				if !want {
					kind = "suppressed-but-must-not-be"
				}
				r.Violate(fmt.Sprintf("IsNoResponseCode/%s/class=%s", kind, classSig(code)),
					fmt.Sprintf("IsNoResponseCode(code=%d.%02d, value=%d) = %v, RFC 7967 says suppressed=%v", code>>5, code&31, v, err, want),
					map[string]any{"op": "IsNoResponseCode", "code": c, "value": v})
			}
			// (b) through the response writer, the option being carried by the request - alone, behind lower-numbered
			// options, in front of higher-numbered ones (e.g. Request-Tag 292, an unknown elective 2049), or both
			for place := 0; place < 4; place++ {
				buf := make([]byte, 64)
				reqOpts := make(message.Options, 0, 8)
				used := 0
				add := func(id message.OptionID, val []byte) {
					var n int
					reqOpts, n, _ = reqOpts.SetBytes(buf[used:], id, val)
					used += n
				}
				if place&1 != 0 {
					add(message.URIPath, []byte("a"))
				}
				var n int
				reqOpts, n, _ = reqOpts.SetUint32(buf[used:], message.NoResponse, v)
				used += n
				if place&2 != 0 {
					add(message.OptionID(292), []byte{1})
					add(message.OptionID(2049), []byte("x"))
				}
				tok := message.Token{0x20, byte(c)}
				resp := p.AcquireMessage(context.Background())
				resp.SetToken(tok) // the transports put the request token into the response before the handler runs
				w := responsewriter.New(resp, relClient{p}, reqOpts...)
				werr := w.SetResponse(codes.Code(code), message.TextPlain, nil)
				evals++
				if (werr != nil) != want {
					kind := "accepted-but-must-be-refused"
					if !want {
						kind = "refused-but-must-be-accepted"
					}
					r.Violate(fmt.Sprintf("SetResponse/%s/class=%s", kind, classSig(code)),
						fmt.Sprintf("ResponseWriter.SetResponse(code=%d.%02d) for a request with No-Response=%d (option placement %d: bit0 = behind Uri-Path, bit1 = in front of options 292 and 2049) returned %v, RFC 7967 says refused=%v", code>>5, code&31, v, place, werr, want),
						map[string]any{"op": "SetResponse", "code": c, "value": v, "placement": place})
				}
				if werr == nil && w.Message().Code() != codes.Code(code) {
					r.Violate("SetResponse/accepted-but-code-not-set", fmt.Sprintf("SetResponse(code=%d) accepted but message code is %v", c, w.Message().Code()), map[string]any{"op": "SetResponse", "code": c, "value": v})
				}
				if werr != nil {
					// (c) the handler falls back to a response of a class that is not suppressed: it must be accepted
					// and still be the response to THIS request (token untouched)
					for _, fb := range []codes.Code{codes.Content, codes.BadRequest, codes.InternalServerError, codes.Code(3 << 5)} {
						if specSuppressed(uint8(fb), v) {
							continue
						}
						evals++
						if err2 := w.SetResponse(fb, message.TextPlain, nil); err2 != nil {
							r.Violate("SetResponse/fallback-refused", fmt.Sprintf("after SetResponse(%v) was refused (No-Response=%d), SetResponse(%v) - a class that is not suppressed - was refused too: %v", codes.Code(code), v, fb, err2), map[string]any{"op": "SetResponse-fallback", "code": c, "value": v})
						} else if w.Message().Code() != fb || !bytes.Equal(w.Message().Token(), tok) {
							r.Violate("SetResponse/fallback-response-damaged", fmt.Sprintf("after a refused SetResponse(%v) (No-Response=%d) the accepted fallback response is code=%v token=%x, want code=%v token=%x", codes.Code(code), v, w.Message().Code(), []byte(w.Message().Token()), fb, []byte(tok)), map[string]any{"op": "SetResponse-fallback", "code": c, "value": v})
						}
						break
					}
				}
				p.ReleaseMessage(w.Message())
			}
			w := responsewriter.New(p.AcquireMessage(context.Background()), relClient{p})
			p.ReleaseMessage(w.Message())
		}
	}
	// a request without the option never suppresses anything
	for c := 0; c < 256; c++ {
		resp := p.AcquireMessage(context.Background())
		w := responsewriter.New(resp, relClient{p})
		evals++
		if err := w.SetResponse(codes.Code(c), message.TextPlain, nil); err != nil {
			r.Violate("SetResponse/refused-without-option", fmt.Sprintf("SetResponse(code=%d) refused although the request carries no No-Response option: %v", c, err), map[string]any{"op": "SetResponse-noopt", "code": c})
		}
		p.ReleaseMessage(w.Message())
	}
	r.Add("evaluations", evals)
	r.Add("distinct_nontrivial", nontriv)
	r.Sample(map[string]any{"op": "SetResponse", "no_response_value": 26, "code": "4.08", "spec_refused": true})
	r.Sample(map[string]any{"op": "IsNoResponseCode", "no_response_value": 2, "code": "2.31", "spec_suppressed": true})
}

// C14 — the shared map (pkg/sync.Map) and the expiring cache (pkg/cache.Cache) are linearizable.
// Engine E2: every interleaving (at lock granularity, under the vrt scheduler) of small
// concurrent programs over the full API, each recorded call/return history checked against
// the sequential map specification with porcupine.
package main

import (
	"fmt"
	"sort"
	"strings"
	"time"

	"github.com/anishathalye/porcupine"
	"github.com/plgd-dev/go-coap/v3/pkg/cache"
	csync "github.com/plgd-dev/go-coap/v3/pkg/sync"

	"verif/ev"
	"verif/mcx"
	"verif/vrt"
)

// ---------------------------------------------------------------- map world

type in struct {
	Op  string
	K   string
	V   int
	Del bool // ReplaceWithFunc: callback asks for deletion
}

type out struct {
	V    int
	OK   bool
	M    string // sorted dump for whole-map results
	N    int
	Seen string // what callbacks observed: "v,loaded" (must equal the state at the linearisation point)
}

func dump(m map[string]int) string {
	ks := make([]string, 0, len(m))
	for k := range m {
		ks = append(ks, k)
	}
	sort.Strings(ks)
	var b strings.Builder
	for _, k := range ks {
		fmt.Fprintf(&b, "%s=%d;", k, m[k])
	}
	return b.String()
}

func parse(s string) map[string]int {
	m := map[string]int{}
	for _, kv := range strings.Split(s, ";") {
		if kv == "" {
			continue
		}
		var k string
		var v int
		i := strings.Index(kv, "=")
		k = kv[:i]
		fmt.Sscan(kv[i+1:], &v)
		m[k] = v
	}
	return m
}

// sequential specification of the map (state = sorted dump string)
var mapModel = porcupine.Model{
	Init: func() interface{} { return "" },
	Step: func(state, input, output interface{}) (bool, interface{}) {
		m := parse(state.(string))
		i, o := input.(in), output.(out)
		old, had := m[i.K]
		seen := fmt.Sprintf("%d,%v", old, had)
		switch i.Op {
		case "Store":
			m[i.K] = i.V
			return true, dump(m)
		case "StoreWithFunc":
			m[i.K] = i.V
			return true, dump(m)
		case "Load":
			return o.OK == had && (!had || o.V == old), state
		case "LoadWithFunc": // onLoad(v) returns v+1000
			if had {
				return o.OK && o.V == old+1000 && o.Seen == seen, state
			}
			return !o.OK && o.Seen == "", state
		case "LoadOrStore":
			if had {
				return o.OK && o.V == old, state
			}
			m[i.K] = i.V
			return !o.OK && o.V == i.V, dump(m)
		case "LoadOrStoreWithFunc": // onLoad(v) = v+1000, create() = i.V
			if had {
				return o.OK && o.V == old+1000 && o.Seen == "load:"+seen, state
			}
			m[i.K] = i.V
			return !o.OK && o.V == i.V && o.Seen == "create", dump(m)
		case "Replace":
			m[i.K] = i.V
			return o.OK == had && (!had || o.V == old), dump(m)
		case "ReplaceWithFunc":
			if i.Del {
				delete(m, i.K)
			} else {
				m[i.K] = i.V
			}
			return o.OK == had && (!had || o.V == old) && o.Seen == seen, dump(m)
		case "Delete":
			delete(m, i.K)
			return true, dump(m)
		case "DeleteWithFunc":
			delete(m, i.K)
			if had {
				return o.Seen == seen, dump(m)
			}
			return o.Seen == "", dump(m)
		case "LoadAndDelete":
			delete(m, i.K)
			return o.OK == had && (!had || o.V == old), dump(m)
		case "LoadAndDeleteWithFunc": // onLoad(v) = v+1000
			delete(m, i.K)
			if had {
				return o.OK && o.V == old+1000 && o.Seen == seen, dump(m)
			}
			return !o.OK && o.Seen == "", dump(m)
		case "LoadAndDeleteAll":
			return o.M == state.(string), ""
		case "CopyData", "Range2":
			return o.M == state.(string), state
		case "Length":
			return o.N == len(m), state
		case "RangeObs": // one pair reported by the weakly consistent Range
			return had && old == o.V, state
		}
		panic("unknown op " + i.Op)
	},
	Equal: func(a, b interface{}) bool { return a == b },
}

type hist struct {
	clock int64
	ops   []porcupine.Operation
}

func (h *hist) tick() int64 { h.clock += 2; return h.clock }

func (h *hist) add(client int, i in, call int64, o out) {
	h.ops = append(h.ops, porcupine.Operation{ClientId: client, Input: i, Call: call, Output: o, Return: h.tick()})
}

// do performs one API call on the real map and records it.
func do(h *hist, client int, m *csync.Map[string, int], i in, rangeSeen *map[string]int) {
	call := h.tick()
	var o out
	switch i.Op {
	case "Store":
		m.Store(i.K, i.V)
	case "StoreWithFunc":
		m.StoreWithFunc(i.K, func() int { return i.V })
	case "Load":
		o.V, o.OK = m.Load(i.K)
	case "LoadWithFunc":
		o.V, o.OK = m.LoadWithFunc(i.K, func(v int) int { o.Seen = fmt.Sprintf("%d,true", v); return v + 1000 })
	case "LoadOrStore":
		o.V, o.OK = m.LoadOrStore(i.K, i.V)
	case "LoadOrStoreWithFunc":
		o.V, o.OK = m.LoadOrStoreWithFunc(i.K, func(v int) int { o.Seen = fmt.Sprintf("load:%d,true", v); return v + 1000 }, func() int { o.Seen = "create"; return i.V })
	case "Replace":
		o.V, o.OK = m.Replace(i.K, i.V)
	case "ReplaceWithFunc":
		o.V, o.OK = m.ReplaceWithFunc(i.K, func(old int, loaded bool) (int, bool) {
			o.Seen = fmt.Sprintf("%d,%v", old, loaded)
			return i.V, i.Del
		})
	case "Delete":
		m.Delete(i.K)
	case "DeleteWithFunc":
		m.DeleteWithFunc(i.K, func(v int) { o.Seen = fmt.Sprintf("%d,true", v) })
	case "LoadAndDelete":
		o.V, o.OK = m.LoadAndDelete(i.K)
	case "LoadAndDeleteWithFunc":
		o.V, o.OK = m.LoadAndDeleteWithFunc(i.K, func(v int) int { o.Seen = fmt.Sprintf("%d,true", v); return v + 1000 })
	case "LoadAndDeleteAll":
		o.M = dump(m.LoadAndDeleteAll())
	case "CopyData":
		o.M = dump(m.CopyData())
	case "Length":
		o.N = m.Length()
	case "Range2":
		got := map[string]int{}
		m.Range2(func(k string, v int) bool { got[k] = v; return true })
		o.M = dump(got)
	case "Range":
		prev := call
		seen := map[string]int{}
		m.Range(func(k string, v int) bool {
			seen[k]++
			h.ops = append(h.ops, porcupine.Operation{ClientId: client, Input: in{Op: "RangeObs", K: k}, Call: prev, Output: out{V: v}, Return: h.tick()})
			prev = h.tick()
			return true
		})
		*rangeSeen = seen
		h.tick()
		return
	default:
		panic("unknown op " + i.Op)
	}
	h.add(client, i, call, o)
}

type program struct {
	Init    map[string]int
	Threads [][]in
}

func (p program) String() string {
	var b strings.Builder
	fmt.Fprintf(&b, "init{%s}", dump(p.Init))
	for t, ops := range p.Threads {
		fmt.Fprintf(&b, " T%d[", t)
		for j, o := range ops {
			if j > 0 {
				b.WriteString(" ")
			}
			b.WriteString(o.Op)
			if o.K != "" {
				b.WriteString("(" + o.K + ")")
			}
			if o.Del {
				b.WriteString("del")
			}
		}
		b.WriteString("]")
	}
	return b.String()
}

func mapScenario(p program, bounds mcx.Bounds) *mcx.Scenario {
	return &mcx.Scenario{
		Name:   "map " + p.String(),
		Bounds: bounds,
		Body: func(s *vrt.Sched) func() (string, []mcx.Finding) {
			m := csync.NewMap[string, int]()
			h := &hist{}
			for _, k := range []string{"a", "b"} {
				if v, ok := p.Init[k]; ok {
					do(h, 9, m, in{Op: "Store", K: k, V: v}, nil)
				}
			}
			rangeSeen := make([]map[string]int, len(p.Threads))
			for t, ops := range p.Threads {
				t, ops := t, ops
				vrt.App(fmt.Sprintf("T%d", t), func() {
					for _, o := range ops {
						do(h, t, m, o, &rangeSeen[t])
					}
				})
			}
			return func() (string, []mcx.Finding) {
				// final observation of every key (pass-through mode, after all threads ended)
				for _, k := range []string{"a", "b"} {
					do(h, 9, m, in{Op: "Load", K: k}, nil)
				}
				var fs []mcx.Finding
				if !porcupine.CheckOperations(mapModel, h.ops) {
					fs = append(fs, mcx.Finding{Sig: "map-not-linearizable/" + opsSig(p), What: "history of " + p.String() + " has no linearization: " + histString(h.ops)})
				}
				// a key untouched by every other operation must be reported exactly once by Range
				for t, ops := range p.Threads {
					for _, o := range ops {
						if o.Op != "Range" || rangeSeen[t] == nil {
							continue
						}
						for k := range p.Init {
							if !touched(p, k) && rangeSeen[t][k] != 1 {
								fs = append(fs, mcx.Finding{Sig: "range-misses-stable-key", What: fmt.Sprintf("%s: Range reported key %s %d times although no operation touched it", p.String(), k, rangeSeen[t][k])})
							}
						}
					}
				}
				return outcomeOf(h.ops), fs
			}
		},
	}
}

func touched(p program, k string) bool {
	for _, ops := range p.Threads {
		for _, o := range ops {
			if o.K == k && o.Op != "Load" && o.Op != "LoadWithFunc" || o.Op == "LoadAndDeleteAll" {
				return true
			}
		}
	}
	return false
}

// signature: the multiset of operation names of the concurrent program (not keys/values)
func opsSig(p program) string {
	var names []string
	for _, ops := range p.Threads {
		for _, o := range ops {
			names = append(names, o.Op)
		}
	}
	sort.Strings(names)
	names = compact(names)
	return strings.Join(names, "+")
}

func compact(s []string) []string {
	var o []string
	for i, x := range s {
		if i == 0 || s[i-1] != x {
			o = append(o, x)
		}
	}
	return o
}

func histString(ops []porcupine.Operation) string {
	var b strings.Builder
	for _, o := range ops {
		fmt.Fprintf(&b, "[c%d %v -> %v @%d..%d] ", o.ClientId, o.Input, o.Output, o.Call, o.Return)
	}
	return b.String()
}

func outcomeOf(ops []porcupine.Operation) string {
	var b strings.Builder
	for _, o := range ops {
		fmt.Fprintf(&b, "%d:%v>%v|", o.ClientId, o.Input, o.Output)
	}
	return b.String()
}

// ---------------------------------------------------------------- cache world

type cin struct {
	Op    string
	K     string
	ID    int  // element id (LoadOrStore / Store)
	Fresh bool // element validity relative to the fixed virtual now
}
type cout struct {
	ID     int // element id returned (0 = nil)
	Loaded bool
}

// state: "k=id;" with ids; freshness table is global per scenario
type cacheState struct{ m string }

func cacheModel(fresh map[int]bool) porcupine.Model {
	return porcupine.Model{
		Init: func() interface{} { return "" },
		Step: func(state, input, output interface{}) (bool, interface{}) {
			m := parse(state.(string))
			i, o := input.(cin), output.(cout)
			old, had := m[i.K]
			live := had && (fresh[old] || m[fmt.Sprintf("~%d", old)] == 1)
			switch i.Op {
			case "Refresh":
				// the holder of element ID extends its validity (Element.ValidUntil is exported): from this
				// instant on the element counts as unexpired, wherever it is
				m[fmt.Sprintf("~%d", i.ID)] = 1
				return true, dump(m)
			case "LoadOrStore":
				if live {
					return o.Loaded && o.ID == old, state
				}
				m[i.K] = i.ID
				return !o.Loaded && o.ID == i.ID, dump(m)
			case "Load":
				if live {
					return o.ID == old, state
				}
				return o.ID == 0, state
			case "Delete":
				delete(m, i.K)
				return true, dump(m)
			case "Store":
				m[i.K] = i.ID
				return true, dump(m)
			case "LoadAndDelete":
				delete(m, i.K)
				return o.Loaded == had && (!had || o.ID == old), dump(m)
			case "SweepRemove":
				// the sweep removed element ID from key K (its on-expire ran): legal only if that very element is
				// mapped there at this instant - an entry leaves the cache once - and it is not unexpired
				if live || !had || old != i.ID {
					return false, state
				}
				delete(m, i.K)
				return true, dump(m)
			case "SweepDone":
				return true, state
			case "RawLoad": // final observation through the embedded map (sees expired entries too)
				return o.Loaded == had && (!had || o.ID == old), state
			}
			panic("unknown cache op " + i.Op)
		},
		Equal: func(a, b interface{}) bool { return a == b },
	}
}

type cprogram struct {
	Init    map[string]cin // key -> element
	Threads [][]cin
}

func (p cprogram) String() string {
	var b strings.Builder
	b.WriteString("init{")
	for _, k := range []string{"a", "b"} {
		if e, ok := p.Init[k]; ok {
			fmt.Fprintf(&b, "%s:%s ", k, fr(e.Fresh))
		}
	}
	b.WriteString("}")
	for t, ops := range p.Threads {
		fmt.Fprintf(&b, " T%d[", t)
		for j, o := range ops {
			if j > 0 {
				b.WriteString(" ")
			}
			b.WriteString(o.Op)
			if o.K != "" {
				b.WriteString("(" + o.K)
				if o.Op == "LoadOrStore" || o.Op == "Store" {
					b.WriteString("," + fr(o.Fresh))
				}
				b.WriteString(")")
			}
		}
		b.WriteString("]")
	}
	return b.String()
}

func fr(f bool) string {
	if f {
		return "fresh"
	}
	return "expired"
}

func cacheScenario(p cprogram, bounds mcx.Bounds) *mcx.Scenario {
	// assign element ids
	id := 0
	fresh := map[int]bool{}
	keyOf := map[int]string{}
	initIDs := map[string]int{}
	for _, k := range []string{"a", "b"} {
		if e, ok := p.Init[k]; ok {
			id++
			initIDs[k] = id
			fresh[id] = e.Fresh
			keyOf[id] = k
		}
	}
	threads := make([][]cin, len(p.Threads))
	for t, ops := range p.Threads {
		for _, o := range ops {
			if o.Op == "LoadOrStore" || o.Op == "Store" {
				id++
				o.ID = id
				fresh[id] = o.Fresh
				keyOf[id] = o.K
			}
			if o.Op == "Refresh" {
				o.ID = initIDs[o.K] // (0 = nothing to refresh)
			}
			threads[t] = append(threads[t], o)
		}
	}
	model := cacheModel(fresh)
	return &mcx.Scenario{
		Name:   "cache " + p.String(),
		Bounds: bounds,
		Body: func(s *vrt.Sched) func() (string, []mcx.Finding) {
			now := vrt.Now()
			c := cache.NewCache[string, int]()
			h := &hist{}
			elems := map[*cache.Element[int]]int{}
			var swept []porcupine.Operation
			sweepStart := map[int]int64{} // client -> call time of the running sweep
			mk := func(eid int) *cache.Element[int] {
				until := now.Add(time.Hour)
				if !fresh[eid] {
					until = now.Add(-time.Hour)
				}
				var e *cache.Element[int]
				e = cache.NewElement(eid, until, func(d int) {
					// called by CheckExpirations right after it deleted the key of element d
					cl := vrt.Cur().ID
					swept = append(swept, porcupine.Operation{ClientId: cl, Input: cin{Op: "SweepRemove", K: keyOf[d], ID: d}, Call: sweepStart[cl], Output: cout{}, Return: h.tick()})
				})
				elems[e] = eid
				return e
			}
			idOf := func(e *cache.Element[int]) int {
				if e == nil {
					return 0
				}
				return elems[e]
			}
			for _, k := range []string{"a", "b"} {
				eid, ok := initIDs[k]
				if !ok {
					continue
				}
				c.Store(k, mk(eid))
				h.ops = append(h.ops, porcupine.Operation{ClientId: 9, Input: cin{Op: "Store", K: k, ID: eid}, Call: h.tick(), Output: cout{}, Return: h.tick()})
			}
			cdo := func(client int, i cin) {
				call := h.tick()
				var o cout
				switch i.Op {
				case "LoadOrStore":
					a, l := c.LoadOrStore(i.K, mk(i.ID))
					o = cout{idOf(a), l}
				case "Store":
					c.Store(i.K, mk(i.ID))
				case "Load":
					o = cout{ID: idOf(c.Load(i.K))}
				case "Delete":
					c.Delete(i.K)
				case "LoadAndDelete":
					a, l := c.LoadAndDelete(i.K)
					o = cout{idOf(a), l}
				case "Refresh":
					for e, eid := range elems {
						if eid == i.ID {
							e.ValidUntil.Store(now.Add(time.Hour))
						}
					}
				case "CheckExpirations":
					sweepStart[vrt.Cur().ID] = call
					c.CheckExpirations(now)
					i.Op = "SweepDone"
				case "RawLoad":
					a, l := c.Map.Load(i.K)
					o = cout{idOf(a), l}
				}
				h.ops = append(h.ops, porcupine.Operation{ClientId: client, Input: i, Call: call, Output: o, Return: h.tick()})
			}
			for t, ops := range threads {
				t, ops := t, ops
				vrt.App(fmt.Sprintf("T%d", t), func() {
					for _, o := range ops {
						cdo(vrt.Cur().ID, o)
					}
				})
				_ = t
			}
			return func() (string, []mcx.Finding) {
				for _, k := range []string{"a", "b"} {
					cdo(9, cin{Op: "RawLoad", K: k})
				}
				all := append(append([]porcupine.Operation{}, h.ops...), swept...)
				var fs []mcx.Finding
				if !porcupine.CheckOperations(model, all) {
					fs = append(fs, mcx.Finding{Sig: "cache-not-linearizable/" + copsSig(p), What: "history of " + p.String() + " has no linearization (an unexpired entry was removed/replaced, or a store-if-absent was lost): " + histString(all)})
				}
				return outcomeOf(all), fs
			}
		},
	}
}

func copsSig(p cprogram) string {
	var names []string
	for _, ops := range p.Threads {
		for _, o := range ops {
			names = append(names, o.Op)
		}
	}
	sort.Strings(names)
	return strings.Join(compact(names), "+")
}

// ---------------------------------------------------------------- programs

var fullAPI = []string{"Store", "Load", "LoadOrStore", "Replace", "Delete", "LoadAndDelete", "LoadAndDeleteAll", "CopyData", "Length", "Range", "Range2",
	"StoreWithFunc", "LoadWithFunc", "LoadOrStoreWithFunc", "ReplaceWithFunc", "ReplaceWithFunc/del", "DeleteWithFunc", "LoadAndDeleteWithFunc"}

// the multi-step methods and the ones they race with
var coreAPI = []string{"Store", "Load", "LoadOrStore", "Delete", "LoadAndDelete", "Range", "LoadAndDeleteAll", "ReplaceWithFunc"}

func mkOp(name, key string, val int) in {
	o := in{Op: name, K: key, V: val}
	if name == "ReplaceWithFunc/del" {
		o.Op, o.Del = "ReplaceWithFunc", true
	}
	switch o.Op {
	case "LoadAndDeleteAll", "CopyData", "Length", "Range", "Range2":
		o.K = ""
	}
	return o
}

func main() {
	r := ev.Start("C14", "model_checking")
	unb := mcx.Bounds{Preempt: -1, Env: -1, Select: -1}
	var scs []*mcx.Scenario
	inits := []map[string]int{{}, {"a": 1}, {"a": 1, "b": 2}}
	// (1) every pair of API methods, one per thread, same key and different keys, every interleaving
	for _, o1 := range fullAPI {
		for _, o2 := range fullAPI {
			for _, k2 := range []string{"a", "b"} {
				for _, init := range inits[:2] {
					p := program{Init: init, Threads: [][]in{{mkOp(o1, "a", 11)}, {mkOp(o2, k2, 21)}}}
					scs = append(scs, mapScenario(p, unb))
				}
			}
		}
	}
	// (2) three single-operation threads over the core methods on one key
	for _, o1 := range coreAPI {
		for _, o2 := range coreAPI {
			for _, o3 := range coreAPI {
				if o1 > o2 || o2 > o3 {
					continue // threads are symmetric
				}
				for _, init := range inits[:2] {
					p := program{Init: init, Threads: [][]in{{mkOp(o1, "a", 11)}, {mkOp(o2, "a", 21)}, {mkOp(o3, "a", 31)}}}
					scs = append(scs, mapScenario(p, mcx.Bounds{Preempt: ev.Pick(r, 3, -1), Env: -1, Select: -1}))
				}
			}
		}
	}
	// (3) two operations against one / two
	two := coreAPI
	for _, a1 := range two {
		for _, a2 := range two {
			for _, b1 := range two {
				p := program{Init: inits[2], Threads: [][]in{{mkOp(a1, "a", 11), mkOp(a2, "a", 12)}, {mkOp(b1, "a", 21)}}}
				scs = append(scs, mapScenario(p, unb))
				if r.Thorough() {
					for _, b2 := range two {
						p := program{Init: inits[1], Threads: [][]in{{mkOp(a1, "a", 11), mkOp(a2, "b", 12)}, {mkOp(b1, "a", 21), mkOp(b2, "b", 22)}}}
						scs = append(scs, mapScenario(p, unb))
					}
				}
			}
		}
	}
	if r.Thorough() {
		// 2 threads x 3 operations and 3 threads x 2 operations over a reduced alphabet
		red := []string{"LoadOrStore", "Delete", "Range", "LoadAndDelete"}
		for _, a1 := range red {
			for _, a2 := range red {
				for _, a3 := range red {
					for _, b1 := range red {
						for _, b2 := range red {
							p := program{Init: inits[1], Threads: [][]in{{mkOp(a1, "a", 11), mkOp(a2, "a", 12), mkOp(a3, "a", 13)}, {mkOp(b1, "a", 21), mkOp(b2, "a", 22), mkOp("Load", "a", 0)}}}
							scs = append(scs, mapScenario(p, mcx.Bounds{Preempt: 5, Env: -1, Select: -1}))
						}
					}
				}
			}
		}
		for _, a1 := range red {
			for _, b1 := range red {
				for _, c1 := range red {
					p := program{Init: inits[0], Threads: [][]in{{mkOp(a1, "a", 11), mkOp("Load", "a", 0)}, {mkOp(b1, "a", 21), mkOp("Load", "a", 0)}, {mkOp(c1, "a", 31), mkOp("LoadOrStore", "a", 32)}}}
					scs = append(scs, mapScenario(p, mcx.Bounds{Preempt: 5, Env: -1, Select: -1}))
				}
			}
		}
	}
	// (5) whole-map operations against a writer that performs two ordered operations on different keys: the
	// snapshot / count / drain must be the map's content at one instant
	for _, w := range []string{"CopyData", "LoadAndDeleteAll", "Range2", "Length"} {
		for _, w1 := range []string{"Store", "Delete", "LoadOrStore", "LoadAndDelete"} {
			for _, w2 := range []string{"Store", "Delete", "LoadOrStore", "LoadAndDelete"} {
				for _, init := range inits {
					p := program{Init: init, Threads: [][]in{{mkOp(w, "a", 0)}, {mkOp(w1, "a", 11), mkOp(w2, "b", 12)}}}
					scs = append(scs, mapScenario(p, unb))
				}
			}
		}
	}
	// (4) cache programs
	cops := func(k string) []cin {
		return []cin{{Op: "LoadOrStore", K: k, Fresh: true}, {Op: "LoadOrStore", K: k, Fresh: false}, {Op: "Load", K: k}, {Op: "Delete", K: k}, {Op: "LoadAndDelete", K: k}, {Op: "CheckExpirations"}, {Op: "Refresh", K: k}}
	}
	cinits := []map[string]cin{{}, {"a": {Fresh: false}}, {"a": {Fresh: true}}, {"a": {Fresh: false}, "b": {Fresh: true}}}
	// Refresh (the holder of an element extends its validity through the exported Element.ValidUntil) is combined
	// with every operation except Load: Cache.Load reads the map and tests expiry in two steps, so with a concurrent
	// refresh it may return an element that was never mapped and unexpired at one instant. The statement's clause
	// about validity changes is the sweep's ("never removes ... an entry that has not expired"); nothing in the
	// library refreshes a stored element, so Load x Refresh is left out rather than specified.
	mixesLoadAndRefresh := func(ops ...cin) bool {
		l, rf := false, false
		for _, o := range ops {
			l = l || o.Op == "Load"
			rf = rf || o.Op == "Refresh"
		}
		return l && rf
	}
	addCache := func(p cprogram, b mcx.Bounds) {
		var all []cin
		for _, t := range p.Threads {
			all = append(all, t...)
		}
		if !mixesLoadAndRefresh(all...) {
			scs = append(scs, cacheScenario(p, b))
		}
	}
	for _, init := range cinits {
		for _, o1 := range cops("a") {
			for _, o2 := range cops("a") {
				addCache(cprogram{Init: init, Threads: [][]cin{{o1}, {o2}}}, unb)
				for _, o3 := range cops("a") {
					addCache(cprogram{Init: init, Threads: [][]cin{{o1}, {o2}, {o3}}}, mcx.Bounds{Preempt: ev.Pick(r, 2, 5), Env: -1, Select: -1})
					addCache(cprogram{Init: init, Threads: [][]cin{{o1, o2}, {o3}}}, unb)
					if r.Thorough() {
						for _, o4 := range cops("a") {
							addCache(cprogram{Init: init, Threads: [][]cin{{o1, o2}, {o3, o4}}}, unb)
						}
					}
				}
			}
		}
	}
	sum := mcx.Explore(r, scs, mcx.Config{Wall: ev.Pick(r, 4*time.Minute, 25*time.Minute)})
	mcx.Report(r, scs, sum)
	mcx.RacePass(r, 17, "pkg/")
	r.Set("scenarios", int64(len(scs))) // per-scenario detail would be thousands of entries
	r.Set("programs", int64(len(scs)))
	r.Set("rule", "scenario = small concurrent program over the real pkg/sync.Map / pkg/cache.Cache (pairs of all 18 API methods on equal and different keys; triples and 2+1 / 2+2 / 3+3 / 2+2+2 programs over the multi-step methods; cache programs with fresh and expired elements against a fixed virtual now); every interleaving at lock granularity within the stated preemption bound is executed on the compiled code and its call/return history is checked by porcupine against the sequential map specification; distinct outcome = distinct recorded history")
	r.Sample(map[string]any{"program": scs[7].Name, "bounds": scs[7].Bounds})
	r.Sample(map[string]any{"program": scs[len(scs)-1].Name, "bounds": scs[len(scs)-1].Bounds})
	r.Assume("scheduling points at lock operations (RWMutex announce/acquire/RLock) and atomics; sequentially consistent interleavings; Range is specified as weakly consistent (each reported pair was present at some instant of the call; a key untouched by others is reported once)",
		"map iteration order inside Range is the sorted order (alternative orders are not explored)")
	r.Finish()
}
